"""C19 - PSD and signal utilities conserve what they claim to conserve:
psd.rescale band mean-squares, dsp.resample (length, constants, kept samples,
axis handling), fixtime's nearest/previous-sample search and base alignment."""
import ast
import inspect
import math
import textwrap
import types
from fractions import Fraction

import numpy as np
import z3

from vsym import sym as S
from vsym import engine as E
from vsym import harness as H
from vsym.npproxy import NPProxy, rebind, has_sym

PID = "C19"

META = dict(
    level="other",
    stubs=["np.interp -> its documented contract (piecewise-linear, end values held)", "signal.lfilter(fir, 1, x, axis=-1) with concrete taps -> FIR convolution in Python",
           "numba.njit -> identity (the numba definitions of the nearest-sample search are compiled from the module's AST)",
           "round() on a symbolic real -> an integer within 1/2 (both neighbours at a tie)",
           "psd.area: positive inputs are given by their logarithms (np.log returns it; products/quotients add/subtract logarithms); exp -> uninterpreted positive function",
           "psd.interp: scipy.interpolate.interp1d -> its documented contract for (linear, axis 0, bounds_error False, scalar fill, sorted) - any other argument combination is reported"],
    outside=["get_freq_oct band-centre formulas (log/power of symbolic values)", "scipy.interpolate.interp1d itself (psd.interp is decided against its documented contract; SciPy's code is not executed symbolically)", "numerical accuracy of psd.area's logarithmic closed form within 1e-4 of slope -1 (a conditioning allowance: relative error <= |s+1| ln(f2/f1)/2)", "Lanczos accuracy for band-limited signals",
             "the rest of fixtime (sample-rate statistics, drop-out / spike removal, turning-point alignment)"],
    assumptions=["band layouts and (p, q, pts, n) are concrete (enumerated); PSD values, data samples and time stamps are symbolic",
                 "nearest/previous-sample search: old times strictly increasing; the new uniform grid starts within one step of the first old time and ends within 1.5 steps of the last (what fixtime passes)"],
    reach_required=["rescale-linear", "rescale-log", "rescale-octave", "rescale-partial-overlap", "resample-up", "resample-down", "resample-axis",
                    "closest-tie", "closest-gap", "previous", "base-shift", "area", "area-additive", "interp-log", "interp-linear", "interp-own-frequency"],
    trusted_base=["z3 5.1", "CPython 3.12", "NumPy array semantics on dtype=object"],
)


class NPX(NPProxy):
    def mean(self, a, axis=None, keepdims=False, **kw):
        if isinstance(a, np.ndarray) and a.dtype == object:
            s = np.sum(a, axis=axis, keepdims=keepdims)
            n = a.size if axis is None else a.shape[axis]
            return s / n
        return np.mean(a, axis=axis, keepdims=keepdims, **kw)

    def cumsum(self, a, axis=None, **kw):
        return np.cumsum(a, axis=axis, **kw)


class FIR:
    @staticmethod
    def lfilter(b, a, x, axis=-1):
        import scipy.signal as ss
        if not (isinstance(x, np.ndarray) and x.dtype == object):
            return ss.lfilter(b, a, x, axis=axis)
        assert axis in (-1, x.ndim - 1) and a == 1
        b = [Fraction(float(v)) for v in b]
        n = x.shape[-1]
        y = np.empty(x.shape, dtype=object)
        for i in range(n):
            acc = 0
            for k in range(min(len(b), i + 1)):
                if b[k] != 0:
                    acc = acc + b[k] * x[..., i - k]
            y[..., i] = acc
        return y

    def __getattr__(self, name):
        import scipy.signal as ss
        return getattr(ss, name)


_C = {}


# ---------------------------------------------------------------------------
# K1 psd.rescale

def _edges_linear(fc):
    df = Fraction(fc[1]) - Fraction(fc[0])
    return [Fraction(f) - df / 2 for f in fc], [Fraction(f) + df / 2 for f in fc]


def _edges_log(fc):
    mid = [math.sqrt(fc[i] * fc[i + 1]) for i in range(len(fc) - 1)]
    fl = [mid[0] / fc[1] * fc[0]] + mid
    fu = mid + [fc[-1] / mid[-1] * fc[-1]]
    return [Fraction(v) for v in fl], [Fraction(v) for v in fu]


def _is_linear(fc):
    d = np.diff(fc)
    return bool((abs(d / d[0] - 1.0) < 1e-12).all())


LAYOUTS = {
    # name: (input centre freqs, output centre freqs or None for n_oct, n_oct, extendends)
    "lin-coarser": (np.arange(1.0, 13.0), np.arange(2.0, 12.0, 2.0), None, False),
    "lin-finer": (np.arange(2.0, 20.0, 4.0), np.arange(3.0, 17.0, 1.0), None, False),
    "lin-partial-ends": (np.arange(5.0, 11.0), np.arange(3.0, 15.0, 3.0), None, False),
    "lin-partial-ends-extend": (np.arange(5.0, 11.0), np.arange(3.0, 15.0, 3.0), None, True),
    "lin-to-log": (np.arange(1.0, 17.0), np.array([2.0, 4.0, 8.0]), None, False),
    "log-to-log": (np.array([1.0, 2.0, 4.0, 8.0, 16.0]), np.array([1.5, 3.0, 6.0, 12.0]), None, True),
    "log-to-lin": (np.array([1.0, 2.0, 4.0, 8.0, 16.0]), np.arange(2.0, 14.0, 3.0), None, False),
    "lin-to-octave": (np.arange(2.0, 41.0, 2.0), None, 1, True),
    "lin-to-third-octave": (np.arange(1.0, 25.0), None, 3, False),
    "same-grid": (np.arange(1.0, 7.0), np.arange(1.0, 7.0), None, True),
}


def rescale_fn(name, cols):
    F, freq, n_oct, extend = LAYOUTS[name]

    def fn(eng):
        S.set_engine(eng)
        import pyyeti.psd as psd
        if "psd" not in _C:
            _C["psd"] = rebind([psd.rescale, psd.get_freq_oct, psd._set_frange], dict(np=NPX()))
        g = _C["psd"]
        nF = len(F)
        pz = [[z3.Real("P_%d_%d" % (i, c)) for c in range(cols)] for i in range(nF)]
        for row in pz:
            for v in row:
                eng.assume(z3.And(v >= 0, v <= 1))
        P = np.empty((nF, cols), dtype=object)
        for i in range(nF):
            for c in range(cols):
                P[i, c] = S.SymR(pz[i][c])
        if cols == 1:
            P = P[:, 0]
        info = dict(layout=name, cols=cols)
        try:
            if freq is None:
                psdoct, Wctr, msv, ms = g["rescale"](P, F.copy(), n_oct=n_oct, extendends=extend)
            else:
                psdoct, Wctr, msv, ms = g["rescale"](P, F.copy(), freq=freq.copy(), extendends=extend)
        except E.Inconclusive:
            raise
        except Exception as ex:
            return [E.Obl("psd.rescale(%s) raises %r" % (name, ex), False, info=info)]
        # independent band edges
        FLin, FUin = _edges_linear(F) if _is_linear(F) else _edges_log(F)
        if freq is None:
            anchor = 1000.0
            lo, hi = 1.0, F[-1]
            k0 = math.floor(math.log2(lo / anchor) * n_oct)
            k1 = math.log2(hi / anchor) * n_oct + 1
            bands = np.arange(k0, k1)
            ctr = anchor * 2.0 ** (bands / n_oct)
            fac = 2.0 ** (1.0 / (2 * n_oct))
            fl, fu = ctr / fac, ctr * fac
            keep = [i for i in range(len(ctr)) if fl[i] <= hi and fu[i] >= lo]
            # documented trim 'outside': first band whose upper edge reaches the start through last whose lower edge is below the end
            keep = list(range(min(i for i in range(len(ctr)) if fu[i] >= lo), max(i for i in range(len(ctr)) if fl[i] <= hi) + 1))
            ctr, FL, FU = ctr[keep], [Fraction(v) for v in fl[keep]], [Fraction(v) for v in fu[keep]]
            eng.tag("rescale-octave")
        else:
            FL, FU = _edges_linear(freq) if _is_linear(freq) else _edges_log(freq)
            keep = list(range(min(i for i in range(len(freq)) if FU[i] >= Fraction(F[0])), max(i for i in range(len(freq)) if FL[i] <= Fraction(F[-1])) + 1))
            ctr = freq[keep]
            FL, FU = [FL[i] for i in keep], [FU[i] for i in keep]
            eng.tag("rescale-linear" if _is_linear(freq) else "rescale-log")
        obls = [E.Obl("rescale(%s): output centre frequencies" % name, len(Wctr) == len(ctr) and bool(np.allclose(Wctr, ctr, rtol=1e-12)), info=info)]
        if len(Wctr) != len(ctr):
            return obls
        if FL[0] < FLin[0] or FU[-1] > FUin[-1]:
            eng.tag("rescale-partial-overlap")
        ms2 = np.asarray(ms, dtype=object).reshape(len(ctr), -1)
        ps2 = np.asarray(psdoct, dtype=object).reshape(len(ctr), -1)
        msv1 = np.atleast_1d(np.asarray(msv, dtype=object))
        for c in range(cols):
            tot = z3.RealVal(0)
            for b in range(len(ctr)):
                lo_, hi_ = FL[b], FU[b]
                width = hi_ - lo_
                if extend and b == 0 and lo_ < FLin[0]:
                    lo_ = FLin[0]
                if extend and b == len(ctr) - 1 and hi_ > FUin[-1]:
                    hi_ = FUin[-1]
                ref = z3.RealVal(0)
                for k in range(nF):
                    ov = min(hi_, FUin[k]) - max(lo_, FLin[k])
                    if ov > 0:
                        ref = ref + z3.RealVal(ov) * pz[k][c]
                if (hi_ - lo_) != width:
                    ref = ref * z3.RealVal(width / (hi_ - lo_))      # documented extension of a truncated end band
                tol = Fraction(1, 10 ** 9) * max(width, 1)
                obls.append(E.Obl("rescale(%s): band %d col %d mean-square = overlap integral of the input PSD" % (name, b, c),
                                  S.close(ms2[b, c], S.SymR(ref), tol), info=info))
                obls.append(E.Obl("rescale(%s): band %d col %d PSD level = mean-square / bandwidth" % (name, b, c),
                                  S.close(ps2[b, c] * width, ms2[b, c], tol), info=info))
                tot = tot + S.lift(ms2[b, c])
            obls.append(E.Obl("rescale(%s): msv col %d = sum of the band mean-squares" % (name, c), S.close(msv1[c], S.SymR(tot), Fraction(1, 10 ** 9)), info=info))
        return obls
    return fn


def replay_rescale(p):
    import pyyeti.psd as psd
    name, cols, mdl = p["layout"], p["cols"], p["model"]
    F, freq, n_oct, extend = LAYOUTS[name]
    P = np.array([[float(Fraction(mdl.get("P_%d_%d" % (i, c), 0) or 0)) for c in range(cols)] for i in range(len(F))])
    if cols == 1:
        P = P[:, 0]
    try:
        if freq is None:
            psdoct, Wctr, msv, ms = psd.rescale(P, F.copy(), n_oct=n_oct, extendends=extend)
        else:
            psdoct, Wctr, msv, ms = psd.rescale(P, F.copy(), freq=freq.copy(), extendends=extend)
    except Exception as ex:
        return True, "psd.rescale(%s) raises %r" % (name, ex)
    FLin, FUin = _edges_linear(F) if _is_linear(F) else _edges_log(F)
    FLin, FUin = np.array(FLin, float), np.array(FUin, float)
    if freq is None:
        fac = 2.0 ** (1.0 / (2 * n_oct))
        FL, FU = Wctr / fac, Wctr * fac
    else:
        fl, fu = _edges_linear(freq) if _is_linear(freq) else _edges_log(freq)
        idx = [int(np.argmin(abs(freq - w))) for w in Wctr]
        FL, FU = np.array([float(fl[i]) for i in idx]), np.array([float(fu[i]) for i in idx])
    P2 = P.reshape(len(F), -1)
    ms2 = np.asarray(ms).reshape(len(Wctr), -1)
    msgs = []
    for b in range(len(Wctr)):
        lo_, hi_ = FL[b], FU[b]
        width = hi_ - lo_
        if extend and b == 0:
            lo_ = max(lo_, FLin[0])
        if extend and b == len(Wctr) - 1:
            hi_ = min(hi_, FUin[-1])
        ov = np.clip(np.minimum(hi_, FUin) - np.maximum(lo_, FLin), 0, None)
        ref = ov @ P2 * (width / (hi_ - lo_))
        if not np.allclose(ms2[b], ref, rtol=1e-8, atol=1e-10):
            msgs.append("band %d (%.4g-%.4g Hz): mean-square %r, overlap integral %r" % (b, FL[b], FU[b], ms2[b].tolist(), ref.tolist()))
    if not np.allclose(np.atleast_1d(msv), ms2.sum(axis=0), rtol=1e-9):
        msgs.append("msv != sum(ms)")
    if msgs:
        return True, "psd.rescale layout %s P=%r: %s" % (name, P.tolist(), "; ".join(msgs[:3]))
    return False, "psd.rescale conserves band mean-squares on the real code"


# ---------------------------------------------------------------------------
# K2 dsp.resample

def _dsp():
    if "dsp" not in _C:
        import pyyeti.dsp as dsp
        _C["dsp"] = rebind([dsp.resample], dict(np=NPX(), signal=FIR()))
    return _C["dsp"]


def resample_fn(p, q, pts, shape, axis):
    def fn(eng):
        S.set_engine(eng)
        g = _dsp()
        n = shape[axis]
        info = dict(p=p, q=q, pts=pts, shape=list(shape), axis=axis)
        zs = {}
        data = np.empty(shape, dtype=object)
        for idx in np.ndindex(*shape):
            v = z3.Real("x_" + "_".join(map(str, idx)))
            eng.assume(z3.And(v >= -1, v <= 1))
            zs[idx] = v
            data[idx] = S.SymR(v)
        try:
            out = g["resample"](data, p, q, axis=axis, pts=pts)
        except E.Inconclusive:
            raise
        except Exception as ex:
            return [E.Obl("dsp.resample raises %r" % (ex,), False, info=info)]
        nout = int(math.ceil(Fraction(n * p, q)))
        want_shape = list(shape)
        want_shape[axis] = nout
        obls = [E.Obl("resample: output shape %s == %s (length ceil(n*p/q))" % (list(np.shape(out)), want_shape), list(np.shape(out)) == want_shape, info=info)]
        if list(np.shape(out)) != want_shape:
            return obls
        eng.tag("resample-up" if p > q else "resample-down")
        if len(shape) > 1:
            eng.tag("resample-axis")
        # every fibre along `axis` equals the 1-D resampling of that fibre
        outm = np.moveaxis(np.asarray(out, dtype=object), axis, -1)
        datm = np.moveaxis(data, axis, -1)
        for idx in np.ndindex(*datm.shape[:-1]):
            fib = g["resample"](np.array(list(datm[idx]), dtype=object), p, q, pts=pts)
            for k in range(nout):
                if len(shape) > 1:
                    obls.append(E.Obl("resample: element %s[%d] equals the 1-D resampling of its own fibre" % (idx, k), S.lift(outm[idx][k]) == S.lift(fib[k]), info=info))
            if q == 1 or (p % q == 0):
                pp = p // math.gcd(p, q)
                for k in range(n):
                    tol = Fraction(1, 10 ** 12) * n
                    obls.append(E.Obl("resample: original sample %d of fibre %s kept when upsampling" % (k, idx), S.close(fib[k * pp], datm[idx][k], tol), info=info))
        # constants are reproduced exactly
        c = z3.Real("const")
        cdata = np.empty(shape, dtype=object)
        cdata.fill(S.SymR(c))
        cout = g["resample"](cdata, p, q, axis=axis, pts=pts)
        for v in np.asarray(cout, dtype=object).ravel():
            obls.append(E.Obl("resample: constant input reproduced exactly", S.lift(v) == c, info=info))
        return obls
    return fn


def replay_resample(p):
    import pyyeti.dsp as dsp
    mdl = p["model"]
    shape, axis = tuple(p["shape"]), p["axis"]
    data = np.zeros(shape)
    for idx in np.ndindex(*shape):
        data[idx] = float(Fraction(mdl.get("x_" + "_".join(map(str, idx)), 0) or 0))
    if not data.any():
        data = np.arange(1.0, data.size + 1).reshape(shape) / data.size
    try:
        out = dsp.resample(data, p["p"], p["q"], axis=axis, pts=p["pts"])
    except Exception as ex:
        return True, "dsp.resample(%r, %d, %d, axis=%d) raises %r" % (data.tolist(), p["p"], p["q"], axis, ex)
    n = shape[axis]
    nout = int(math.ceil(Fraction(n * p["p"], p["q"])))
    ws = list(shape)
    ws[axis] = nout
    if list(out.shape) != ws:
        return True, "dsp.resample shape %s, expected %s" % (list(out.shape), ws)
    outm, datm = np.moveaxis(out, axis, -1), np.moveaxis(data, axis, -1)
    for idx in np.ndindex(*datm.shape[:-1]):
        fib = dsp.resample(datm[idx], p["p"], p["q"], pts=p["pts"])
        if not np.allclose(outm[idx], fib, rtol=1e-12, atol=1e-12):
            return True, "dsp.resample(shape %s, axis=%d): fibre %s = %r differs from its 1-D resampling %r" % (shape, axis, idx, outm[idx].tolist(), fib.tolist())
        if p["q"] == 1 and not np.allclose(fib[::p["p"]], datm[idx], atol=1e-10):
            return True, "dsp.resample: original samples not kept when upsampling"
    cst = dsp.resample(np.full(shape, 0.7), p["p"], p["q"], axis=axis, pts=p["pts"])
    if not np.all(cst == 0.7):
        return True, "dsp.resample: constant 0.7 not reproduced exactly"
    return False, "dsp.resample fine on the real code"


# ---------------------------------------------------------------------------
# K3 nearest / previous sample search, base shift

def _closest_variants():
    if "cl" in _C:
        return _C["cl"]
    import pyyeti.dsp as dsp
    tree = ast.parse(open(dsp.__file__).read())
    out, real = {}, {}
    npx = NPX()

    class _NB:
        @staticmethod
        def njit(*a, **k):
            return lambda f: f
    for node in tree.body:
        if isinstance(node, ast.If) and isinstance(node.test, ast.UnaryOp) and getattr(node.test.operand, "id", "") == "HAVE_NUMBA":
            for key, body in (("default", node.body), ("numba", node.orelse)):
                fns = [n for n in body if isinstance(n, ast.FunctionDef)]
                mod = ast.Module(body=fns, type_ignores=[])
                g = dict(np=npx, numba=_NB)
                exec(compile(mod, "<dsp closest:%s>" % key, "exec"), g)
                out[key] = g
                g2 = dict(np=np, numba=_NB)
                exec(compile(mod, "<dsp closest:%s>" % key, "exec"), g2)
                real[key] = g2
    _C["cl"] = (out, real)
    return _C["cl"]


def closest_fn(nold, nnew, previous):
    def fn(eng):
        S.set_engine(eng)
        sym, _ = _closest_variants()
        to = [z3.Real("told%d" % i) for i in range(nold)]
        for i in range(nold):
            eng.assume(z3.And(to[i] >= 0, to[i] <= 10))
        for i in range(nold - 1):
            eng.assume(to[i] < to[i + 1])
        t0, dt = z3.Real("t0"), z3.Real("dt")
        eng.assume(z3.And(t0 >= -6, t0 <= 16, dt > 0, dt <= 5))
        tn = [t0 + dt * j for j in range(nnew)]
        # caller's contract (fixtime/_mk_initial_tnew): the uniform grid starts within a step
        # of the first old time and ends within 1.5 steps of the last one
        eng.assume(z3.And(t0 >= to[0] - dt, t0 <= to[0] + dt, tn[-1] >= to[-1] - dt * Fraction(3, 2), tn[-1] <= to[-1] + dt * Fraction(3, 2)))
        info = dict(nold=nold, nnew=nnew, previous=previous)
        res = {}
        for key in ("default", "numba"):
            told = np.array([S.SymR(v) for v in to], dtype=object)
            tnew = np.array([S.SymR(v) for v in tn], dtype=object)
            f = sym[key]["_find_closest_previous_times" if previous else "_find_closest_times"]
            try:
                res[key] = [int(i) for i in f(told, tnew)]
            except E.Inconclusive:
                raise
            except Exception as ex:
                return [E.Obl("%s nearest-sample search raises %r" % (key, ex), False, info=info)]
        obls = []
        for key, idxs in res.items():
            for j, ix in enumerate(idxs):
                ok = 0 <= ix < nold
                obls.append(E.Obl("[%s] index in range" % key, ok, info=info))
                if not ok:
                    continue
                if previous:
                    eng.tag("previous")
                    # the sample at or before tnew[j] (the first sample if there is none)
                    want = z3.And(z3.Or(to[ix] <= tn[j], ix == 0), z3.Or(ix == nold - 1, to[ix + 1] > tn[j]) if ix + 1 < nold else True)
                    obls.append(E.Obl("[%s] new sample %d takes the previous old sample (got %d)" % (key, j, ix), want, info=info))
                else:
                    d = lambda k: z3.If(to[k] - tn[j] >= 0, to[k] - tn[j], tn[j] - to[k])
                    obls.append(E.Obl("[%s] new sample %d takes a nearest old sample (got %d)" % (key, j, ix), z3.And([d(ix) <= d(k) for k in range(nold)]), info=info))
        obls.append(E.Obl("both definitions select the same samples (%s vs %s)" % (res["default"], res["numba"]), res["default"] == res["numba"], info=info))
        if not previous:
            if eng.decide(z3.Or([tn[j] - to[i] == to[i + 1] - tn[j] for j in range(nnew) for i in range(nold - 1)])):
                eng.tag("closest-tie")
            if eng.decide(z3.Or([to[i + 1] - to[i] > 2 * dt for i in range(nold - 1)])):
                eng.tag("closest-gap")
        return obls
    return fn


def replay_closest(p):
    _, real = _closest_variants()
    mdl = p["model"]
    gf = lambda k: float(Fraction(mdl.get(k, 0) or 0))
    told = np.array([gf("told%d" % i) for i in range(p["nold"])])
    tnew = gf("t0") + gf("dt") * np.arange(p["nnew"])
    name = "_find_closest_previous_times" if p["previous"] else "_find_closest_times"
    msgs = []
    res = {}
    for key in ("default", "numba"):
        try:
            idx = [int(i) for i in real[key][name](told.copy(), tnew.copy())]
        except Exception as ex:
            return True, "%s %s(%r, %r) raises %r" % (key, name, told.tolist(), tnew.tolist(), ex)
        res[key] = idx
        for j, ix in enumerate(idx):
            if p["previous"]:
                want = max(0, int(np.searchsorted(told, tnew[j], side="right")) - 1)
                if ix != want:
                    msgs.append("[%s] new sample %d: index %d, previous sample is %d" % (key, j, ix, want))
            else:
                d = np.abs(told - tnew[j])
                if d[ix] > d.min() + 1e-15:
                    msgs.append("[%s] new sample %d: index %d at distance %g, nearest is %d at %g" % (key, j, ix, d[ix], int(d.argmin()), d.min()))
    if res["default"] != res["numba"]:
        msgs.append("definitions differ: %s vs %s" % (res["default"], res["numba"]))
    if msgs:
        return True, "%s told=%r tnew=%r: %s" % (name, told.tolist(), tnew.tolist(), "; ".join(msgs[:3]))
    return False, "nearest-sample search fine on the real code"


def _base_section():
    if "base" in _C:
        return _C["base"]
    import pyyeti.dsp as dsp
    src = textwrap.dedent(inspect.getsource(dsp.fixtime))
    fdef = ast.parse(src).body[0]
    node = None
    for st in fdef.body:
        if isinstance(st, ast.If) and isinstance(st.test, ast.Compare) and isinstance(st.test.left, ast.Name) and st.test.left.id == "base":
            node = st
    if node is None:
        raise RuntimeError("`if base is not None:` statement of fixtime not found")
    fn = ast.FunctionDef(name="section", args=ast.arguments(posonlyargs=[], args=[ast.arg(a) for a in ("tnew", "base", "sr")], kwonlyargs=[], kw_defaults=[], defaults=[]),
                         body=[node, ast.Return(ast.Name("tnew", ast.Load()))], decorator_list=[], type_params=[])
    mod = ast.Module(body=[fn], type_ignores=[])
    ast.fix_missing_locations(mod)

    def sx_round(x, nd=None):
        if isinstance(x, S.SymR):
            n = S.eng().fresh("R", "Int")
            S.eng().assume(z3.And(z3.ToReal(n) >= x.e - Fraction(1, 2), z3.ToReal(n) <= x.e + Fraction(1, 2)))
            return S.SymI(n)
        return round(x) if nd is None else round(x, nd)

    def sx_int(x):
        if isinstance(x, S.SymI):
            return x
        if isinstance(x, S.SymR):     # truncation toward zero
            n = S.eng().fresh("T", "Int")
            S.eng().assume(z3.If(x.e >= 0, z3.And(z3.ToReal(n) <= x.e, x.e < z3.ToReal(n) + 1), z3.And(z3.ToReal(n) >= x.e, x.e > z3.ToReal(n) - 1)))
            return S.SymI(n)
        return int(x)
    g = dict(np=NPX(), round=sx_round, int=sx_int)
    exec(compile(mod, "<fixtime base section>", "exec"), g)
    g2 = dict(np=np)
    exec(compile(mod, "<fixtime base section>", "exec"), g2)
    _C["base"] = (g["section"], g2["section"], H.src_hash(dsp.fixtime))
    return _C["base"]


def base_fn(sr):
    def fn(eng):
        S.set_engine(eng)
        section, _, _ = _base_section()
        t0, base = z3.Real("t0"), z3.Real("base")
        eng.assume(z3.And(t0 >= -5, t0 <= 5, base >= -5, base <= 5))
        n = 3
        tnew = np.array([S.SymR(t0 + Fraction(j) / Fraction(sr)) for j in range(n)], dtype=object)
        info = dict(sr=sr)
        try:
            out = section(tnew, S.SymR(base), sr)
        except E.Inconclusive:
            raise
        except Exception as ex:
            return [E.Obl("fixtime base alignment raises %r" % (ex,), False, info=info)]
        eng.tag("base-shift")
        shift = S.lift(out[0]) - t0
        half = Fraction(1, 2) / Fraction(sr)
        k = eng.fresh("k", "Int")
        obls = [E.Obl("fixtime base: time vector moves by at most half a step", z3.And(shift <= half, shift >= -half), info=info),
                E.Obl("fixtime base: spacing unchanged", z3.And([S.lift(out[j + 1]) - S.lift(out[j]) == Fraction(1) / Fraction(sr) for j in range(n - 1)]), info=info)]
        # the shifted grid passes through base: (base - tnew[0]) * sr is an integer
        q = (base - S.lift(out[0])) * Fraction(sr)
        obls.append(E.Obl("fixtime base: the shifted grid passes through base", z3.IsInt(q), info=info))
        return obls
    return fn


def replay_base(p):
    _, section, _ = _base_section()
    mdl = p["model"]
    sr = p["sr"]
    t0, base = float(Fraction(mdl.get("t0", 0) or 0)), float(Fraction(mdl.get("base", 0) or 0))
    tnew = t0 + np.arange(3) / sr
    out = section(tnew.copy(), base, sr)
    shift = out[0] - t0
    if abs(shift) > 0.5 / sr * (1 + 1e-9):
        return True, "fixtime(base=%r) with first new time %r, sr=%r shifts the time vector by %r (> half a step %r): samples are no longer the nearest ones" % (base, t0, sr, shift, 0.5 / sr)
    qv = (base - out[0]) * sr
    if abs(qv - round(qv)) > 1e-9:
        return True, "fixtime(base=%r): shifted grid misses base" % base
    return False, "base alignment fine on the real code"


REPLAY = {"rescale": replay_rescale, "resample": replay_resample, "closest": replay_closest, "base": replay_base}


# ---------------------------------------------------------------------------
# psd.area: frequencies and PSD values are positive numbers known through their logarithms; exp is an
# uninterpreted positive function (z3 EUF), log(exp(x)) = x by construction

EXPF = z3.Function("exp", z3.RealSort(), z3.RealSort())


class LogPos:
    """a positive real given by its natural logarithm `l` (z3 Real term)"""
    __slots__ = ("l",)

    def __init__(self, l):
        self.l = l

    def val(self):
        t = EXPF(z3.simplify(self.l))
        S.eng().assume(t > 0)
        return S.SymR(t)

    def __truediv__(s, o):
        if isinstance(o, LogPos):
            return LogPos(s.l - o.l)
        return s.val() / o

    def __mul__(s, o):
        if isinstance(o, LogPos):
            return LogPos(s.l + o.l)
        return s.val() * o

    __rmul__ = __mul__

    def __sub__(s, o):
        return s.val() - (o.val() if isinstance(o, LogPos) else o)

    def __rsub__(s, o):
        return o - s.val()

    def __add__(s, o):
        return s.val() + (o.val() if isinstance(o, LogPos) else o)

    __radd__ = __add__


class NPL(NPProxy):
    def log(self, x):
        if isinstance(x, LogPos):
            return S.SymR(x.l)
        return np.log(x)

    def isnan(self, a):
        if isinstance(a, np.ndarray) and a.dtype == object:
            return np.zeros(a.shape, bool)
        return np.isnan(a)

    def atleast_1d(self, *a):
        return [np.asarray(x) for x in a] if len(a) > 1 else np.asarray(a[0])


AREA_NEAR = "1e-4"       # the logarithmic closed form may stand in for the power law only this close to slope -1


def area_fn(npts, ncol, additive):
    def fn(eng):
        S.set_engine(eng)
        import pyyeti.psd as psd
        f = rebind([psd.proc_psd_spec, psd.area], dict(np=NPL()))
        lf = [z3.Real("lf%d" % i) for i in range(npts)]
        lp = [[z3.Real("lp%d_%d" % (i, j)) for j in range(ncol)] for i in range(npts)]
        for i in range(npts):
            eng.assume(z3.And(lf[i] >= 0, lf[i] <= 10))
            if i:
                eng.assume(lf[i] - lf[i - 1] >= z3.RealVal("0.1"))
            for j in range(ncol):
                eng.assume(z3.And(lp[i][j] >= -10, lp[i][j] <= 10))
        if additive:
            # the middle point lies on the log-log line through its neighbours
            # (stated through the pairwise slopes, the terms the code itself forms: all equal one slope symbol)
            for j in range(ncol):
                sl = z3.Real("slope%d" % j)
                for a_, b_ in ((0, 1), (1, 2), (0, 2)):
                    eng.assume((lp[b_][j] - lp[a_][j]) / (lf[b_] - lf[a_]) == sl)
        info = dict(npts=npts, ncol=ncol, additive=additive)
        F = np.array([LogPos(x) for x in lf], dtype=object)
        P = np.empty((npts, ncol), dtype=object)
        for i in range(npts):
            for j in range(ncol):
                P[i, j] = LogPos(lp[i][j])
        try:
            got = f["area"]((F, P if ncol > 1 else P[:, 0]))
            if additive:
                got2 = f["area"]((F[[0, 2]], P[[0, 2]] if ncol > 1 else P[[0, 2], 0]))
        except E.Inconclusive:
            raise
        except Exception as ex:
            import traceback
            return [E.Obl("psd.area raises %r (%s)" % (ex, traceback.format_exc()[-300:]), False, info=info)]
        near = z3.RealVal(AREA_NEAR)
        ex = lambda t: EXPF(z3.simplify(t))
        obls = [E.Obl("psd.area returns one value per PSD column", np.shape(got) == (ncol,), info=info)]
        if np.shape(got) != (ncol,):
            return obls
        import itertools
        for j in range(ncol):
            segs = []
            for i in range(npts - 1):
                s_ = (lp[i + 1][j] - lp[i][j]) / (lf[i + 1] - lf[i])
                close = z3.And(s_ + 1 < near, -(s_ + 1) < near)
                # antiderivative of p1 (f/f1)^s between f1 and f2; at s = -1: p1 f1 ln(f2/f1)
                power = (ex(lp[i][j] - s_ * lf[i] + (s_ + 1) * lf[i + 1]) - ex(lp[i][j] + lf[i])) / (s_ + 1)
                logf = ex(lp[i][j] + lf[i]) * (lf[i + 1] - lf[i])
                segs.append(((s_ != -1, power), (close, logf)))
            # per segment the power-law integral, or - only within AREA_NEAR of slope -1 - the logarithmic closed form
            alts = []
            for pick in itertools.product((0, 1), repeat=npts - 1):
                alts.append(z3.And([segs[i][b][0] for i, b in enumerate(pick)] + [S.lift(got[j]) == z3.Sum([segs[i][b][1] for i, b in enumerate(pick)])]))
            obls.append(E.Obl("psd.area column %d: the sum over segments of the integral of the log-log interpolation "
                              "(logarithmic closed form only within %s of slope -1)" % (j, AREA_NEAR), z3.Or(alts), info=info))
            if additive:
                s_ = (lp[2][j] - lp[0][j]) / (lf[2] - lf[0])
                obls.append(E.Obl("psd.area column %d is additive: inserting a break point on the log-log line leaves the area unchanged "
                                  "(slopes at least %s away from -1, or exactly -1)" % (j, AREA_NEAR),
                                  z3.Implies(z3.Or(s_ == -1, s_ + 1 >= near, -(s_ + 1) >= near), S.lift(got[j]) == S.lift(got2[j])), info=info))
        eng.tag("area-additive" if additive else "area")
        return obls
    return fn


def replay_area(p):
    import mpmath as mp
    import pyyeti.psd as psd
    mp.mp.dps = 40
    mdl = p["model"]
    npts, ncol = p["npts"], p["ncol"]
    g = lambda k, d: Fraction(mdl.get(k, d) if mdl.get(k) is not None else d)
    lf = [g("lf%d" % i, i) for i in range(npts)]
    lp = [[g("lp%d_%d" % (i, j), 0) for j in range(ncol)] for i in range(npts)]
    F = np.array([float(mp.exp(mp.mpf(x.numerator) / x.denominator)) for x in lf])
    P = np.array([[float(mp.exp(mp.mpf(x.numerator) / x.denominator)) for x in row] for row in lp])
    if np.any(np.diff(F) <= 0):
        return False, "model frequencies not increasing"
    got = psd.area((F, P))
    msgs = []
    for j in range(ncol):
        tot = mp.mpf(0)
        L = 0.0
        for i in range(npts - 1):
            f1, f2, p1, p2 = [mp.mpf(float(x)) for x in (F[i], F[i + 1], P[i, j], P[i + 1, j])]
            s_ = mp.log(p2 / p1) / mp.log(f2 / f1)
            tot += p1 * f1 * mp.log(f2 / f1) if s_ == -1 else p1 * f1 / (s_ + 1) * ((f2 / f1) ** (s_ + 1) - 1)
            L = max(L, float(mp.log(f2 / f1)))
        rel = abs(got[j] - tot) / abs(tot)
        if rel > 1e-5 * max(L, 0.1) + 1e-12:
            msgs.append("psd.area of freq=%s psd=%s is %r, the integral of the log-log interpolation is %s (relative difference %.2e)" % (F.tolist(), P[:, j].tolist(), got[j], mp.nstr(tot, 17), float(rel)))
    if msgs:
        return True, "; ".join(msgs[:2])
    return False, "psd.area fine on the real code"


REPLAY["area"] = replay_area


# ---------------------------------------------------------------------------
# K6 psd.interp: log-log (or linear) interpolation, zero outside the specification, specification values at its own frequencies

class Interp1dContract:
    """scipy.interpolate.interp1d by its documented contract for the arguments psd.interp passes
    (linear kind, axis 0, bounds_error False, a scalar fill value, sorted abscissae);
    any other argument combination is reported as a violation of the wiring"""

    def __init__(self, x, y, kind="linear", axis=-1, copy=True, bounds_error=None, fill_value=np.nan, assume_sorted=False):
        if kind != "linear" or axis != 0 or bounds_error is not False or not assume_sorted or isinstance(fill_value, (tuple, str)):
            raise AssertionError("interp1d called outside the modelled contract: kind=%r axis=%r bounds_error=%r assume_sorted=%r fill_value=%r"
                                 % (kind, axis, bounds_error, assume_sorted, fill_value))
        self.x, self.y, self.fill = np.asarray(x), np.asarray(y), fill_value
        if len(self.x) != self.y.shape[0]:
            raise ValueError("x and y arrays must be equal in length along interpolation axis.")

    def __call__(self, xq):
        xq = np.asarray(xq)
        x, y = self.x, self.y
        out = np.empty(xq.shape + y.shape[1:], dtype=object)
        for k in range(xq.shape[0]):
            q = xq[k]
            if q < x[0] or q > x[-1]:
                out[k] = self.fill
                continue
            i = 0
            while i < len(x) - 2 and q > x[i + 1]:
                i += 1
            slope = (y[i + 1] - y[i]) / (x[i + 1] - x[i])
            out[k] = slope * (q - x[i]) + y[i]
        return out


def _logpos_cmp(op):
    def f(s, o):
        if isinstance(o, LogPos):
            return bool(op(S.SymR(s.l), S.SymR(o.l)))
        return bool(op(s.val(), o))
    return f


import operator as _op
for _n, _f in (("__ge__", _op.ge), ("__le__", _op.le), ("__gt__", _op.gt), ("__lt__", _op.lt)):
    setattr(LogPos, _n, _logpos_cmp(_f))


class NPI(NPL):
    def log(self, x):
        if isinstance(x, np.ndarray) and x.dtype == object:
            out = np.empty(x.shape, dtype=object)
            for ix in np.ndindex(x.shape):
                out[ix] = S.SymR(x[ix].l) if isinstance(x[ix], LogPos) else np.log(x[ix])
            return out
        return NPL.log(self, x)

    def exp(self, x):
        def one(v):
            if S.is_sym(v):
                t = EXPF(z3.simplify(S.lift(v)))
                S.eng().assume(t > 0)
                return S.SymR(t)
            return np.exp(v)
        if isinstance(x, np.ndarray) and x.dtype == object:
            out = np.empty(x.shape, dtype=object)
            for ix in np.ndindex(x.shape):
                out[ix] = one(x[ix])
            return out
        return one(x)


def interp_fn(npts, ncol, nq, linear, pin):
    """npts break points, ncol PSD columns (0: the 1d second form of `spec`), nq query frequencies;
    pin: the first query frequency is the pin-th break point itself (None: free)"""
    def fn(eng):
        S.set_engine(eng)
        import pyyeti.psd as psd
        f = rebind([psd.proc_psd_spec, psd.interp], dict(np=NPI(), interp1d=Interp1dContract))
        nc = max(ncol, 1)
        info = dict(npts=npts, ncol=ncol, nq=nq, linear=linear, pin=pin)
        xs = [z3.Real("lf%d" % i) for i in range(npts)]
        ys = [[z3.Real("lp%d_%d" % (i, j)) for j in range(nc)] for i in range(npts)]
        qs = [z3.Real("lq%d" % k) for k in range(nq)]
        lo, hi = (0, 10) if not linear else (1, 100)
        for i in range(npts):
            eng.assume(z3.And(xs[i] >= lo, xs[i] <= hi))
            if i:
                eng.assume(xs[i] - xs[i - 1] >= z3.RealVal("0.1"))
            for j in range(nc):
                eng.assume(z3.And(ys[i][j] >= (-10 if not linear else 0), ys[i][j] <= 10))
        for k in range(nq):
            eng.assume(z3.And(qs[k] >= lo - 1, qs[k] <= hi + 1))
        if pin is not None:
            eng.assume(qs[0] == xs[pin])
        mk = (lambda t: LogPos(t)) if not linear else (lambda t: S.SymR(t))
        F = np.array([mk(x) for x in xs], dtype=object)
        P = np.empty((npts, nc), dtype=object)
        for i in range(npts):
            for j in range(nc):
                P[i, j] = mk(ys[i][j])
        Q = np.array([mk(x) for x in qs], dtype=object)
        try:
            got = f["interp"]((F, P if ncol else P[:, 0]), Q, linear=linear)
        except E.Inconclusive:
            raise
        except Exception as ex:
            import traceback
            return [E.Obl("psd.interp raises %r (%s)" % (ex, traceback.format_exc()[-300:]), False, info=info)]
        shape = (nq, ncol) if ncol else (nq,)
        obls = [E.Obl("psd.interp returns one row per requested frequency and one column per PSD", np.shape(got) == shape, info=info)]
        if np.shape(got) != shape:
            return obls
        got = np.asarray(got, dtype=object).reshape(nq, nc)
        val = (lambda t: EXPF(z3.simplify(t))) if not linear else (lambda t: t)
        for k in range(nq):
            for j in range(nc):
                g = S.lift(got[k, j])
                alts = [z3.And(z3.Or(qs[k] < xs[0], qs[k] > xs[-1]), g == 0)]
                for i in range(npts - 1):
                    sl = (ys[i + 1][j] - ys[i][j]) / (xs[i + 1] - xs[i])
                    alts.append(z3.And(qs[k] >= xs[i], qs[k] <= xs[i + 1], g == val(sl * (qs[k] - xs[i]) + ys[i][j])))
                obls.append(E.Obl("psd.interp value %d column %d: the %s interpolation of the bracketing break points inside the specification's range, 0 outside"
                                  % (k, j, "linear" if linear else "log-log"), z3.Or(alts), info=info))
        if pin is not None:
            for j in range(nc):
                obls.append(E.Obl("psd.interp at the specification's own frequency %d returns the specification value (column %d)" % (pin, j),
                                  S.lift(got[0, j]) == val(ys[pin][j]), info=info))
        eng.tag("interp-linear" if linear else "interp-log")
        if pin is not None:
            eng.tag("interp-own-frequency")
        return obls
    return fn


def replay_interp(p):
    import mpmath as mp
    import pyyeti.psd as psd
    mp.mp.dps = 40
    mdl = p["model"]
    npts, ncol, nq, linear = p["npts"], p["ncol"], p["nq"], p["linear"]
    nc = max(ncol, 1)
    g = lambda k, d: Fraction(mdl.get(k, d) if mdl.get(k) is not None else d)
    xs = [g("lf%d" % i, i + 1) for i in range(npts)]
    ys = [[g("lp%d_%d" % (i, j), 1) for j in range(nc)] for i in range(npts)]
    qs = [g("lq%d" % k, 1) for k in range(nq)]
    pin = p.get("pin")
    if pin is not None:
        qs[0] = xs[pin]
    tof = (lambda x: float(mp.exp(mp.mpf(x.numerator) / x.denominator))) if not linear else float
    F = np.array([tof(x) for x in xs])
    P = np.array([[tof(x) for x in row] for row in ys])
    Q = np.array([tof(x) for x in qs])
    if pin is not None:
        Q[0] = F[pin]
    if np.any(np.diff(F) <= 0):
        return False, "model frequencies not increasing"
    try:
        got = np.asarray(psd.interp((F, P if ncol else P[:, 0]), Q, linear=linear), float).reshape(nq, nc)
    except Exception as ex:
        return True, "psd.interp((%s, %s), %s, linear=%s) raises %r" % (F.tolist(), P.tolist(), Q.tolist(), linear, ex)
    msgs = []
    for k in range(nq):
        for j in range(nc):
            if Q[k] < F[0] or Q[k] > F[-1]:
                want = mp.mpf(0)
            else:
                i = max(0, min(int(np.searchsorted(F, Q[k], side="left")) - 1, npts - 2))
                f1, f2, p1, p2, q = [mp.mpf(float(v)) for v in (F[i], F[i + 1], P[i, j], P[i + 1, j], Q[k])]
                if linear:
                    want = p1 + (p2 - p1) * (q - f1) / (f2 - f1)
                else:
                    want = p1 * (q / f1) ** (mp.log(p2 / p1) / mp.log(f2 / f1))
            if abs(got[k, j] - want) > 1e-9 * max(1, abs(want)) * (1 if linear else 1 + abs(float(mp.log(max(want, mp.mpf(10) ** -300))))):
                msgs.append("psd.interp((%s, %s), %r, linear=%s) is %r, the interpolation of the specification is %s"
                            % (F.tolist(), P[:, j].tolist(), float(Q[k]), linear, got[k, j], mp.nstr(want, 17)))
    if msgs:
        return True, "; ".join(msgs[:2])
    return False, "psd.interp fine on the real code"


REPLAY["interp"] = replay_interp


def job(kind, *args, split_depth=None, roots=None):
    eng = E.Engine()
    fn = dict(rescale=rescale_fn, resample=resample_fn, closest=closest_fn, base=base_fn, area=area_fn, interp=interp_fn)[kind](*args)
    if kind in ("rescale", "resample", "area", "interp"):
        eng.obl_mode = "each"
    res = eng.explore(fn, max_cex=3, roots=roots, split_depth=split_depth)
    res["note"] = "%s %s" % (kind, str(args)[:100])
    if split_depth is not None and res["roots"]:
        rs = res.pop("roots")
        res["spawn"] = [("%s-%s-sub%d" % (kind, args, i), job, (kind,) + tuple(args), dict(roots=rs[i::16])) for i in range(16) if rs[i::16]]
    res["roots"] = []

    def payload(c):
        d = dict((c.get("info") or [{}])[0])
        d["model"] = c["model"]
        if kind == "closest":
            d.update(nold=args[0], nnew=args[1], previous=args[2])
        if kind == "base":
            d["sr"] = args[0]
        return d
    H.triage(res, kind, REPLAY[kind], payload)
    return res


def jobs(tier, seed):
    q = tier == "quick"
    out = []
    for name in LAYOUTS:
        out.append(H.Job("rescale-%s" % name, job, "rescale", name, 1 if name != "lin-coarser" else 2, weight=20))
    rs = [(2, 1, 3, (4,), 0), (3, 1, 2, (3,), 0), (1, 2, 3, (6,), 0), (3, 2, 2, (4,), 0), (2, 3, 2, (5,), 0),
          (2, 1, 2, (3, 2), 0), (2, 1, 2, (2, 3), 1), (1, 2, 2, (4, 2), 0), (2, 1, 2, (3, 2, 2), 0), (2, 1, 2, (2, 3, 2), 1), (3, 2, 2, (2, 2, 3), -1)]
    if not q:
        rs += [(4, 1, 4, (5,), 0), (5, 3, 3, (6,), 0), (2, 1, 3, (4, 2, 2), 0), (1, 3, 2, (7, 2), 0), (2, 1, 2, (2, 2, 3, 2), 1)]
    for a in rs:
        out.append(H.Job("resample-%s" % (a,), job, "resample", *a, weight=30))
    for prev in (False, True):
        out.append(H.Job("closest-4x3-%s" % prev, job, "closest", 4, 3, prev, split_depth=6, weight=200))
        if not q:
            out.append(H.Job("closest-5x4-%s" % prev, job, "closest", 5, 4, prev, split_depth=8, weight=900))
            out.append(H.Job("closest-6x3-%s" % prev, job, "closest", 6, 3, prev, split_depth=9, weight=2000))
    for sr in (1.0, 8.0, 1000.0):
        out.append(H.Job("base-%g" % sr, job, "base", sr, weight=5))
    for a in [(2, 1, False), (3, 1, False), (2, 2, False), (3, 1, True)] + ([] if q else [(4, 1, False), (3, 2, True)]):
        out.append(H.Job("area-%d-%d-%s" % a, job, "area", *a, weight=10))
    # (break points, PSD columns [0: 1d second form], queries, linear, query 0 pinned to break point)
    for a in [(2, 1, 1, False, None), (3, 1, 1, False, None), (3, 0, 1, False, 0), (3, 1, 1, False, 2), (3, 2, 2, False, 1), (3, 1, 1, True, None), (3, 0, 2, True, 2), (2, 2, 1, True, 0)] + \
            ([] if q else [(4, 1, 2, False, None), (4, 2, 1, False, 3), (4, 1, 2, True, 0), (5, 1, 1, False, None)]):
        out.append(H.Job("interp-%d-%d-%d-%s-%s" % a, job, "interp", *a, weight=10))
    return out


def extra_coverage(results):
    import pyyeti.psd as psd
    import pyyeti.dsp as dsp
    return dict(functions_encoded=[H.fn_id(psd.rescale), H.fn_id(psd.get_freq_oct), H.fn_id(psd.area), H.fn_id(psd.interp), H.fn_id(psd.proc_psd_spec), H.fn_id(dsp.resample),
                                   "pyyeti.dsp._find_closest_times/_find_closest_previous_times [both definitions, from the module AST]",
                                   "pyyeti.dsp.fixtime[base-alignment statement]@" + _base_section()[2]])
