"""C04 - OUTPUT4 write followed by read is the identity (binary layouts on the
symbolic record stream, the packed string header arithmetic, string statistics,
ASCII number fields)."""
import ast
import inspect
import itertools
import math
import textwrap
import types
from fractions import Fraction

import numpy as np
import z3

from vsym import sym as S
from vsym import engine as E
from vsym import harness as H
from vsym import astload
from vsym import recstream as R
from vsym import symstr as X
from checks import op4kit as K

PID = "C04"

KF_IS = "C04-nonbigmat-string-header-overflow"
KF_EXP = "C04-ascii-3digit-negative-exponent"

META = dict(
    level="other",
    stubs=["sparse-input kernel: scipy.sparse -> a triplet matrix object; sp.find -> its documented result (indices and values of the non-zero elements, repeated positions summed)",
           "layout kernel: the matrix is an object with a symbolic .shape; _write_*_header / _write_*_bigmat of the instance record the call and stop",
           "file object -> symbolic record stream; struct -> field-typed stand-in that records a range obligation for every symbolic integer packed into a fixed-width field",
           "`x.dtype = float` on symbolic real data -> no-op (AST hook setdtype)", "np.zeros/np.any/np.fromfile -> object-array versions",
           "scipy.sparse.coo_matrix constructor -> raw (I, J, V) triple",
           "CPython '%W.PE' formatting -> exact scaled-integer rounding into symbolic digits (validated in C12)"],
    outside=["bit patterns of struct.pack('d') (CPython)", "complex matrices (dtype reinterpretation); scipy.sparse inputs other than through the documented meaning of sp.issparse / sp.find / tocoo on a triplet matrix (SciPy's own code is not executed)", "byte-order handling beyond what the reader checks in C11",
             "whole ASCII files written by pyYeti (the ASCII kernels cover the number field format and its parse-back and the writers' layout choice by row count; "
             "the ASCII readers are decided against an independent encoder in C11)"],
    assumptions=["matrices of 3-4 rows x 2 columns with a symbolic sparsity pattern and symbolic real values; 1-2 matrices per file"],
    reach_required=["sparse-input", "layout-bigmat", "layout-nonbigmat", "dense", "bigmat", "nonbigmat", "two-matrices", "empty-column", "all-zero", "IS-arith", "colstats", "ascii-field", "ascii-3digit"],
    trusted_base=["z3 5.1", "CPython 3.12", "the digit-string float-format model (see C12)"],
)


def _matrix(eng, tag, rows, cols):
    zs = [[z3.Real("%s_%d_%d" % (tag, i, j)) for j in range(cols)] for i in range(rows)]
    A = np.empty((rows, cols), dtype=object)
    for i in range(rows):
        for j in range(cols):
            A[i, j] = S.SymR(zs[i][j])
    return zs, A


def roundtrip_fn(layout, shapes, sparse):
    def fn(eng):
        S.set_engine(eng)
        cls = K.op4class()
        R.RANGE_OBLS.clear()
        info = dict(layout=layout, shapes=[list(s) for s in shapes], sparse=sparse)
        w = cls()
        fh = R.SymFile()
        mats = []
        try:
            for k, (rows, cols) in enumerate(shapes):
                zs, A = _matrix(eng, "a%d" % k, rows, cols)
                name = "mat%d" % k if k == 0 or len(shapes) < 3 else "mat0"
                if layout == "dense":
                    w._write_binary(fh, name, A, "<", 2)
                elif layout == "bigmat":
                    w._write_binary_bigmat(fh, name, A, "<", 2)
                else:
                    w._write_binary_nonbigmat(fh, name, A, "<", 2)
                mats.append((name, zs, rows, cols))
        except E.Inconclusive:
            raise
        except Exception as ex:
            import traceback
            return [E.Obl("writer raises %r (%s)" % (ex, traceback.format_exc()[-300:]), False, info=info)]
        obls = [E.Obl(lbl, c, info=info) for lbl, c in R.RANGE_OBLS]
        eng.tag(layout)
        if len(shapes) > 1:
            eng.tag("two-matrices")
        try:
            o, fr = K.new_reader(fh.fields)
            rn, rm, rf, rt = o.listload("<stream>", sparse=sparse)
            obls.append(E.Obl("read back: all matrices, in file order, same names/forms/types (%s %s %s)" % (rn, rf, rt),
                              rn == [m[0] for m in mats] and rf == [2] * len(mats) and rt == [2] * len(mats), info=info))
            obls.append(E.Obl("read back: file consumed to its end", fr.i == len(fr.fields), info=info))
            for (name, zs, rows, cols), Xm in zip(mats, rm):
                if isinstance(Xm, tuple) and Xm and Xm[0] == "coo":
                    _, r_, c_, (I, J, V) = Xm
                    obls.append(E.Obl("%s: shape" % name, (r_, c_) == (rows, cols), info=info))
                    got = {}
                    for i, j, v in zip(I, J, V):
                        got[(int(i) if not isinstance(i, S.SymR) else eng.fork_int(i.e), int(j))] = v
                    for i in range(rows):
                        for j in range(cols):
                            v = got.get((i, j), 0.0)
                            obls.append(E.Obl("%s[%d,%d] read back (sparse) equals the value written" % (name, i, j), S.lift(v) == zs[i][j], info=info))
                else:
                    ok = isinstance(Xm, np.ndarray) and Xm.shape == (rows, cols)
                    obls.append(E.Obl("%s: dense shape %s" % (name, getattr(Xm, "shape", None)), ok, info=info))
                    if ok:
                        for i in range(rows):
                            for j in range(cols):
                                obls.append(E.Obl("%s[%d,%d] read back equals the value written" % (name, i, j), S.lift(Xm[i, j]) == zs[i][j], info=info))
            o2, fr2 = K.new_reader(fh.fields)
            dn, ds, df, dt = o2.dir("<stream>", verbose=False)
            obls.append(E.Obl("dir() agrees with what was written", dn == [m[0] for m in mats] and [tuple(x) for x in ds] == [(m[2], m[3]) for m in mats], info=info))
        except E.Inconclusive:
            raise
        except R.StreamViolation as ex:
            return obls + [E.Obl("reader stays on the writer's field boundaries: %s" % ex, False, info=info)]
        except Exception as ex:
            import traceback
            return obls + [E.Obl("reader raises %r (%s)" % (ex, traceback.format_exc()[-300:]), False, info=info)]
        # tags for the pattern
        for name, zs, rows, cols in mats:
            colnz = [z3.Or([zs[i][j] != 0 for i in range(rows)]) for j in range(cols)]
            if eng.decide(z3.And([z3.Not(c) for c in colnz])):
                eng.tag("all-zero")
            elif eng.decide(z3.Or([z3.Not(c) for c in colnz])):
                eng.tag("empty-column")
        return obls
    return fn


def replay_roundtrip(p):
    import os
    import tempfile
    import shutil
    import scipy.sparse as sps
    from pyyeti.nastran import op4
    mdl = p["model"]
    d = tempfile.mkdtemp(prefix="verif-c04-")
    try:
        names, mats = [], []
        for k, (rows, cols) in enumerate(p["shapes"]):
            A = np.array([[float(Fraction(mdl.get("a%d_%d_%d" % (k, i, j), 0) or 0)) for j in range(cols)] for i in range(rows)])
            names.append("mat%d" % k)
            mats.append(A)
        path = os.path.join(d, "t.op4")
        msgs = []
        try:
            op4.write(path, names, mats, binary=True, sparse=p["layout"], forms=[2] * len(mats))
            for sparse in (False, True, None):
                rn, rm, rf, rt = op4.OP4().listload(path, sparse=sparse)
                if rn != names or rf != [2] * len(mats):
                    msgs.append("names/forms %s %s" % (rn, rf))
                for A, Xm in zip(mats, rm):
                    Xd = Xm.toarray() if sps.issparse(Xm) else Xm
                    if Xd.shape != A.shape or not np.array_equal(Xd, A):
                        msgs.append("sparse=%s: wrote %s read %s" % (sparse, A.tolist(), Xd.tolist()))
        except Exception as ex:
            msgs.append("raises %r" % (ex,))
        if msgs:
            return True, "op4 binary %s round trip: %s" % (p["layout"], "; ".join(msgs[:3]))
        return False, "binary round trip fine on the real code"
    finally:
        shutil.rmtree(d, ignore_errors=True)


# ---------------------------------------------------------------------------
# K2: packed string header of the non-BIGMAT layout

def _nested(funcname, inner):
    import pyyeti.nastran.op4 as m
    f = getattr(m.OP4, funcname)
    src = textwrap.dedent(inspect.getsource(f))
    fdef = ast.parse(src).body[0]
    for st in fdef.body:
        if isinstance(st, ast.FunctionDef) and st.name == inner:
            mod = ast.Module(body=[st], type_ignores=[])
            tr = astload._T({"fstring", "mod", "format"}, "%s.%s" % (funcname, inner))
            mod = tr.visit(mod)
            ast.fix_missing_locations(mod)
            return mod, H.src_hash(f)
    raise RuntimeError("%s.%s not found" % (funcname, inner))


def _decode_stmts():
    """the two statements of _rd_nonbigmat_binary that unpack IS into (L, r)"""
    import pyyeti.nastran.op4 as m
    src = textwrap.dedent(inspect.getsource(m.OP4._rd_nonbigmat_binary))
    fdef = ast.parse(src).body[0]
    found = []
    for node in ast.walk(fdef):
        if isinstance(node, ast.Assign) and len(node.targets) == 1 and isinstance(node.targets[0], ast.Name) and node.targets[0].id in ("L", "r"):
            if any(isinstance(n, ast.Name) and n.id == "IS" for n in ast.walk(node.value)):
                found.append(node)
    if len(found) < 2:
        raise RuntimeError("IS decoding statements not found")
    fn = ast.FunctionDef(name="decode", args=ast.arguments(posonlyargs=[], args=[ast.arg("IS")], kwonlyargs=[], kw_defaults=[], defaults=[]),
                         body=found[:2] + [ast.Return(ast.Tuple([ast.Name("L", ast.Load()), ast.Name("r", ast.Load())], ast.Load()))], decorator_list=[], type_params=[])
    mod = ast.Module(body=[fn], type_ignores=[])
    ast.fix_missing_locations(mod)
    g = {}
    exec(compile(mod, "<_rd_nonbigmat_binary: IS decode>", "exec"), g)
    return g["decode"]


def is_fn(binary, multiplier):
    def fn(eng):
        S.set_engine(eng)
        R.RANGE_OBLS.clear()
        mod, _ = _nested("_write_binary_nonbigmat" if binary else "_write_ascii_nonbigmat", "_write_data_string")
        g = dict(struct=R.StructStub)
        g.update(X.HOOKS)
        exec(compile(mod, "<nonbigmat _write_data_string>", "exec"), g)
        wds = g["_write_data_string"]
        decode = _decode_stmts()
        rows = z3.Int("rows")
        r0, r1 = z3.Int("r0"), z3.Int("r1")
        # documented domain of the non-BIGMAT layout: fewer than 65536 rows
        eng.assume(z3.And(rows >= 1, rows <= 65535, r0 >= 0, r1 >= 1, r0 + r1 <= rows))
        info = dict(binary=binary, multiplier=multiplier)
        eng.tag("IS-arith")

        class Sink:
            def __init__(self):
                self.items = []

            def write(self, b):
                self.items.append(b)
        f = Sink()
        overflow = z3.Int("r1") * multiplier > 16383            # region of the recorded finding (binary layout only)
        try:
            if binary:
                wds(f, [], S.SymI(r0), S.SymI(r1), multiplier, R.StructStub.Struct("<i"), "<")
                isv = f.items[0].fields[0].val
            else:
                # ascii: the line holding IS is an f-string of width 11; elems loop needs concrete lengths: stop after the header line
                class Stop(Exception):
                    pass

                class Sink2(Sink):
                    def write(self, b):
                        self.items.append(b)
                        raise Stop()
                f = Sink2()
                try:
                    wds(f, [], X.SymInt(r0), X.SymInt(r1), multiplier, 5, "%16.9E")
                except Stop:
                    pass
                line = f.items[0]
                isv = X.SxInt(line.strip()) if isinstance(line, X.SymStr) else int(line)
        except E.Inconclusive:
            raise
        except Exception as ex:
            return [E.Obl("_write_data_string raises %r" % (ex,), False, info=info)]
        obls = []
        known = [(KF_IS, overflow)] if binary else []
        for lbl, c in R.RANGE_OBLS:
            obls.append(E.Obl("non-BIGMAT string header: " + lbl, c, known=known, info=info))
        L, r = decode(isv if isinstance(isv, S.SymR) else S.SymI(z3.IntVal(int(isv))))
        obls.append(E.Obl("reader's unpacking of IS recovers the string length in words", S.lift(L) == 2 * r1 * multiplier, known=known, info=info))
        obls.append(E.Obl("reader's unpacking of IS recovers the (0-based) start row", S.lift(r) == r0, known=known, info=info))
        if not binary:
            txt = f.items[0]
            obls.append(E.Obl("ascii IS line is the 11-character field the reader expects", len(X._cells(txt)) == 12, info=info))
        return obls
    return fn


def replay_is(p):
    import os
    import tempfile
    import shutil
    from pyyeti.nastran import op4
    mdl = p["model"]
    r0, r1 = int(mdl.get("r0", 0) or 0), int(mdl.get("r1", 1) or 1)
    rows = max(int(mdl.get("rows", r0 + r1) or (r0 + r1)), r0 + r1)
    A = np.zeros((rows, 1), complex if p["multiplier"] == 2 else float)
    A[r0:r0 + r1, 0] = np.arange(1, r1 + 1) * (1 + 1j if p["multiplier"] == 2 else 1)
    d = tempfile.mkdtemp(prefix="verif-c04-")
    try:
        path = os.path.join(d, "t.op4")
        try:
            op4.write(path, ["a"], [A], binary=p["binary"], sparse="nonbigmat")
            back = op4.read(path)["a"]
        except Exception as ex:
            return True, "op4.write/read of a %d-row column whose non-zero string starts at row %d and has %d rows (sparse='nonbigmat', binary=%s) raises %r" % (rows, r0, r1, p["binary"], ex)
        if back.shape != A.shape or not np.array_equal(back, A):
            return True, "non-BIGMAT round trip of a string at row %d, length %d differs" % (r0, r1)
        return False, "non-BIGMAT string round trip fine"
    finally:
        shutil.rmtree(d, ignore_errors=True)


# ---------------------------------------------------------------------------
# K3: _sparse_col_stats

def colstats_fn(n, maxrow):
    def fn(eng):
        S.set_engine(eng)
        import pyyeti.nastran.op4 as m
        from vsym.npproxy import NPProxy, rebind
        f = rebind([m.OP4._sparse_col_stats], dict(np=NPProxy()))["_sparse_col_stats"]
        rz = [z3.Int("r%d" % i) for i in range(n)]
        eng.assume(z3.And([rz[0] >= 0, rz[-1] <= maxrow] + [rz[i] < rz[i + 1] for i in range(n - 1)]))
        r = np.array([S.SymI(v) for v in rz], dtype=object)
        info = dict(n=n, maxrow=maxrow)
        try:
            ind = f(r)
        except E.Inconclusive:
            raise
        except Exception as ex:
            return [E.Obl("_sparse_col_stats raises %r" % (ex,), False, info=info)]
        eng.tag("colstats")
        obls = [E.Obl("string lengths sum to the number of non-zeros", int(sum(ind[:, 1])) == n, info=info)]
        k = 0
        for s_ in range(ind.shape[0]):
            st, ln = int(ind[s_, 0]), int(ind[s_, 1])
            ok = ln >= 1 and k + ln <= n
            obls.append(E.Obl("string %d has a positive length inside the index vector" % s_, ok, info=info))
            if not ok:
                break
            obls.append(E.Obl("string %d starts at its first index" % s_, rz[k] == st, info=info))
            for q in range(1, ln):
                obls.append(E.Obl("string %d is a run of consecutive rows" % s_, rz[k + q] == rz[k] + q, info=info))
            if k + ln < n:
                obls.append(E.Obl("string %d is maximal (the next index is not adjacent)" % s_, rz[k + ln] != rz[k + ln - 1] + 1, info=info))
            k += ln
        return obls
    return fn


def replay_colstats(p):
    import pyyeti.nastran.op4 as m
    mdl = p["model"]
    r = np.array([int(mdl.get("r%d" % i, i) or 0) for i in range(p["n"])])
    ind = m.OP4._sparse_col_stats(r)
    want = []
    k = 0
    while k < len(r):
        j = k
        while j + 1 < len(r) and r[j + 1] == r[j] + 1:
            j += 1
        want.append([r[k], j - k + 1])
        k = j + 1
    if ind.tolist() != want:
        return True, "_sparse_col_stats(%s) = %s, maximal runs are %s" % (r.tolist(), ind.tolist(), want)
    return False, "_sparse_col_stats fine"


# ---------------------------------------------------------------------------
# K1: ASCII number field

def ascii_fn(digits, e, neg):
    def fn(eng):
        S.set_engine(eng)
        import pyyeti.nastran.op4 as m
        g = dict(m.__dict__)
        g.update(X.HOOKS)
        hdr = astload.load(m.OP4._write_ascii_header, hooks=("fstring", "format", "mod"), globs=g)
        real = m.OP4()

        class Sink:
            def __init__(self):
                self.s = []

            def write(self, t):
                self.s.append(t)
        info = dict(digits=digits, e=e, neg=neg)
        sink = Sink()
        A = np.zeros((3, 2))
        cols, mult, perline, numlen, numform = hdr(real, sink, "a", A, digits, False, 2)
        mz = z3.Real("m")
        eng.assume(z3.And(mz >= 1, mz < 10))
        x = mz * z3.RealVal(Fraction(10) ** e)
        if neg:
            x = -x
        field = X.sx_mod(numform, X.SymFloat(x, hint=e))
        eng.tag("ascii-field")
        if abs(e) >= 99:
            eng.tag("ascii-3digit")
        cells = X._cells(field)
        region = z3.BoolVal(bool(neg and (e >= 100 or e <= -100))) if True else None
        # a negative value that rounds up into a 3-digit exponent (e = 99, -100 boundary) belongs to the same finding
        known = [(KF_EXP, z3.BoolVal(bool(neg and (e >= 99 or e <= -100))))]
        obls = [E.Obl("header: perline * numlen <= 80 and numlen = digits + 5 + exponent digits", perline * numlen <= 80 and numlen == digits + 5 + real._expdigits, info=info),
                E.Obl("ascii field %s has the announced width %d (got %d)" % (field.render() if isinstance(field, X.SymStr) else field, numlen, len(cells)), len(cells) == numlen, known=known, info=info)]
        if len(cells) == numlen:
            v = X.SxFloat(field)
            tol = z3.RealVal(Fraction(505, 1000) * Fraction(10) ** (e - digits))
            vt = S.lift(v)
            obls.append(E.Obl("ascii field parses back to the requested number of digits", z3.And(vt - x <= tol * 10, x - vt <= tol * 10), info=info))
        return obls
    return fn


def replay_ascii(p):
    import os
    import tempfile
    import shutil
    from pyyeti.nastran import op4
    mdl = p["model"]
    m_ = Fraction(mdl.get("m", 1) or 1)
    x = float(m_ * Fraction(10) ** p["e"]) * (-1 if p["neg"] else 1)
    cands = [x, math.nextafter(x, math.inf), math.nextafter(x, -math.inf)]
    d = tempfile.mkdtemp(prefix="verif-c04-")
    try:
        path = os.path.join(d, "t.op4")
        for xv in cands:
            A = np.array([[1.0, xv, 2.0], [xv, 3.0, xv]])
            try:
                op4.write(path, ["a"], [A], binary=False, digits=p["digits"])
                back = op4.read(path)["a"]
            except Exception as ex:
                return True, "op4 ascii write/read (digits=%d) of a matrix containing %r raises %r" % (p["digits"], xv, ex)
            if back.shape != A.shape or not np.allclose(back, A, rtol=10.0 ** (-p["digits"]) * 6, atol=0):
                return True, "op4 ascii (digits=%d): wrote %r read back %r" % (p["digits"], A.tolist(), back.tolist())
        return False, "ascii round trip fine on the real code"
    finally:
        shutil.rmtree(d, ignore_errors=True)


# ---------------------------------------------------------------------------
# K5: layout agreement - the writers' choice between the non-BIGMAT and the BIGMAT layout, for a symbolic row
# count, is the layout the readers assume for the NROW such a file announces

def layout_fn(binary):
    def fn(eng):
        S.set_engine(eng)
        cls = K.op4class()
        w = cls()
        rows = z3.Int("rows")
        eng.assume(z3.And(rows >= 1, rows <= 1000000))
        info = dict(binary=binary)

        class Stop(Exception):
            pass

        class Shape:                      # all the two writers look at before choosing the layout
            shape = (S.SymI(rows), 1)
        called = []

        def big(*a, **k):
            called.append("bigmat")

        def header(*a, **k):
            called.append("bigmat" if k.get("bigmat") else "nonbigmat")
            raise Stop()
        if binary:
            w._write_binary_bigmat, w._write_binary_header = big, header
        else:
            w._write_ascii_bigmat, w._write_ascii_header = big, header
        try:
            try:
                if binary:
                    w._write_binary_nonbigmat(None, "a", Shape(), "<", 2)
                else:
                    w._write_ascii_nonbigmat(None, "a", Shape(), 9, 2)
            except Stop:
                pass
        except E.Inconclusive:
            raise
        except Exception as ex:
            import traceback
            return [E.Obl("non-BIGMAT writer raises %r (%s)" % (ex, traceback.format_exc()[-300:]), False, info=info)]
        obls = [E.Obl("the non-BIGMAT writer either starts its own header or hands over to the BIGMAT writer (%s)" % called, len(called) == 1, info=info)]
        if len(called) != 1:
            return obls
        wrote = called[0]
        eng.tag("layout-" + wrote)
        # the header writers announce BIGMAT by a negative NROW
        nr = S.SymI(rows) if wrote == "nonbigmat" else S.SymI(-rows)
        try:
            rdfunc, funcs = w._get_funcs("binary" if binary else "ascii", nr, 0, 2, True, False)
        except E.Inconclusive:
            raise
        except Exception as ex:
            return obls + [E.Obl("_get_funcs raises %r" % (ex,), False, info=info)]
        reads = "bigmat" if "bigmat" in rdfunc.__name__ and "nonbigmat" not in rdfunc.__name__ else ("nonbigmat" if "nonbigmat" in rdfunc.__name__ else rdfunc.__name__)
        obls.append(E.Obl("a file of `rows` rows written in the %s string layout is read with the %s decoder" % (wrote, wrote), reads == wrote, info=info))
        # the same file read as written by another program: a positive NROW of 65536 or more is BIGMAT for reader and skipper alike (C11's subject)
        return obls
    return fn


def replay_layout(p):
    import os
    import tempfile
    import shutil
    import scipy.sparse as sps
    from pyyeti.nastran import op4
    rows = int(p["model"].get("rows", 65536) or 65536)
    A = sps.lil_matrix((rows, 1))
    A[0, 0] = 1.5
    A[rows - 1, 0] = -2.5
    A = A.tocsr()
    d = tempfile.mkdtemp(prefix="verif-c04-")
    try:
        path = os.path.join(d, "t.op4")
        try:
            op4.write(path, ["a"], [A], binary=p["binary"], sparse="nonbigmat")
            names = op4.dir(path, verbose=False)[0]
            back = op4.read(path, sparse=True)["a"]
        except Exception as ex:
            return True, "op4.write(sparse='nonbigmat', binary=%s) of a %d-row matrix followed by dir/read raises %r" % (p["binary"], rows, ex)
        if back.shape != A.shape or (back != A).nnz:
            return True, "a %d-row matrix written with sparse='nonbigmat' (binary=%s) is read back differently" % (rows, p["binary"])
        return False, "%d-row matrix round trip fine" % rows
    finally:
        shutil.rmtree(d, ignore_errors=True)


# ---------------------------------------------------------------------------
# K6: scipy.sparse input - a COO matrix given by triplets that may repeat a position (the finite-element assembly idiom)
# is written as the matrix it denotes (repeated entries add up)

class FakeCOO:
    """stands for scipy.sparse.coo_matrix((data, (row, col)), shape) as built, i.e. without summed duplicates"""

    def __init__(self, shape, row, col, data):
        self.shape, self.row, self.col, self.data = shape, np.array(row), np.array(col), data
        self.nnz = len(row)

    def tocoo(self, copy=False):
        return self


class FakeSP:
    """the two scipy.sparse functions op4._ensure_2d_dp may use, by their documented meaning"""

    @staticmethod
    def issparse(m):
        return isinstance(m, FakeCOO)

    @staticmethod
    def find(m):
        # "Return the indices and values of the nonzero elements of a matrix": duplicates are summed, zeros dropped
        eng = S.eng()
        tot = {}
        for r, c, v in zip(m.row, m.col, m.data):
            tot[(int(r), int(c))] = tot[(int(r), int(c))] + v if (int(r), int(c)) in tot else v
        keep = [(k, v) for k, v in sorted(tot.items(), key=lambda kv: (kv[0][1], kv[0][0])) if eng.decide(S.lift(v) != 0)]
        V = np.empty(len(keep), dtype=object)
        for i, (_, v) in enumerate(keep):
            V[i] = v
        return np.array([k[0] for k, _ in keep], dtype=int), np.array([k[1] for k, _ in keep], dtype=int), V


SPARSE_IN = [((3, 2), [(0, 0), (2, 0), (0, 0), (1, 1), (2, 0)]), ((4, 1), [(1, 0), (2, 0), (1, 0)]),
             ((4, 3), [(3, 2), (0, 0), (1, 0), (3, 2), (1, 0), (3, 2), (2, 1)]), ((2, 2), [(0, 1), (1, 0), (0, 1), (1, 0)])]


def sparsein_fn(layout, case):
    def fn(eng):
        S.set_engine(eng)
        cls = K.op4class()
        R.RANGE_OBLS.clear()
        import pyyeti.nastran.op4 as m
        g2 = dict(K._C["g"])
        g2["sp"] = FakeSP
        astload.load(m._ensure_dp, hooks=("astype",), globs=g2)
        ens = types.FunctionType(m._ensure_2d_dp.__code__, g2, "_ensure_2d_dp")
        shape, pos = SPARSE_IN[case]
        zs = [z3.Real("v%d" % k) for k in range(len(pos))]
        data = np.empty(len(pos), dtype=object)
        for k, z in enumerate(zs):
            eng.assume(z3.And(z >= -10, z <= 10))
            data[k] = S.SymR(z)
        info = dict(layout=layout, case=case)
        w = cls()
        fh = R.SymFile()
        try:
            mt = ens(FakeCOO(shape, [p_[0] for p_ in pos], [p_[1] for p_ in pos], data))
            if layout == "bigmat":
                w._write_binary_bigmat(fh, "mat0", mt, "<", 2)
            else:
                w._write_binary_nonbigmat(fh, "mat0", mt, "<", 2)
            o, fr = K.new_reader(fh.fields)
            rn, rm, rf, rt = o.listload("<stream>", sparse=True)
        except E.Inconclusive:
            raise
        except R.StreamViolation as ex:
            return [E.Obl("reader stays on the writer's field boundaries: %s" % ex, False, info=info)]
        except Exception as ex:
            import traceback
            return [E.Obl("write/read of a sparse input raises %r (%s)" % (ex, traceback.format_exc()[-300:]), False, info=info)]
        eng.tag("sparse-input")
        obls = [E.Obl(lbl, c, info=info) for lbl, c in R.RANGE_OBLS]
        _, r_, c_, (I, J, V) = rm[0]
        obls.append(E.Obl("sparse input: shape read back", (r_, c_) == shape, info=info))
        got = {}
        for i, j, v in zip(I, J, V):
            key = (int(i) if not isinstance(i, S.SymR) else eng.fork_int(i.e), int(j))
            got[key] = got[key] + [v] if key in got else [v]
        obls.append(E.Obl("sparse input: every position is stored once (%s)" % sorted(got), all(len(v) == 1 for v in got.values()), info=info))
        for i in range(shape[0]):
            for j in range(shape[1]):
                want = z3.Sum([z for z, p_ in zip(zs, pos) if p_ == (i, j)] + [z3.RealVal(0)])
                obls.append(E.Obl("sparse input: entry (%d,%d) read back is the sum of the triplets given for it" % (i, j), S.lift(got.get((i, j), [0.0])[-1]) == want, info=info))
        return obls
    return fn


def replay_sparsein(p):
    import os
    import tempfile
    import shutil
    import scipy.sparse as sps
    from pyyeti.nastran import op4
    shape, pos = SPARSE_IN[p["case"]]
    mdl = p["model"]
    vals = [float(Fraction(mdl.get("v%d" % k, k + 1) or 0)) or float(k + 1) for k in range(len(pos))]
    A = sps.coo_matrix((vals, ([q[0] for q in pos], [q[1] for q in pos])), shape=shape)
    d = tempfile.mkdtemp(prefix="verif-c04-")
    try:
        path = os.path.join(d, "t.op4")
        op4.write(path, ["a"], [A], sparse=p["layout"])
        back = op4.read(path, sparse=False)["a"]
        if back.shape != A.shape or not np.array_equal(back, A.toarray()):
            return True, "op4.write/read of coo_matrix(%s at %s) gives %s, the matrix is %s" % (vals, pos, back.tolist(), A.toarray().tolist())
        return False, "sparse input round trip fine"
    finally:
        shutil.rmtree(d, ignore_errors=True)


REPLAY = {"sparsein": replay_sparsein, "layout": replay_layout, "roundtrip": replay_roundtrip, "IS": replay_is, "colstats": replay_colstats, "ascii": replay_ascii}


def job(kind, *args, split_depth=None, roots=None):
    eng = E.Engine()
    eng.fast_ms = 300
    fn = dict(roundtrip=roundtrip_fn, IS=is_fn, colstats=colstats_fn, layout=layout_fn, sparsein=sparsein_fn)[kind](*args)
    res = eng.explore(fn, max_cex=3, roots=roots, split_depth=split_depth)
    res["note"] = "%s %s" % (kind, str(args)[:100])
    if split_depth is not None and res["roots"]:
        rs = res.pop("roots")
        res["spawn"] = [("%s-%s-sub%d" % (kind, args, i), job, (kind,) + tuple(args), dict(roots=rs[i::16])) for i in range(16) if rs[i::16]]
    res["roots"] = []

    def payload(c):
        d = dict((c.get("info") or [{}])[0])
        d["model"] = c["model"]
        return d
    H.triage(res, kind, REPLAY[kind], payload)
    return res


def job_ascii(digits_list, decades):
    res = None
    for digits in digits_list:
        for e in decades:
            for neg in (False, True):
                eng = E.Engine()
                eng.fast_ms = 200
                r = eng.explore(ascii_fn(digits, e, neg), max_cex=2)
                H.triage(r, "ascii", replay_ascii, lambda c, digits=digits, e=e, neg=neg: dict(digits=digits, e=e, neg=neg, model=c["model"]))
                if res is None:
                    res = r
                else:
                    E.merge(res, r)
                    for k in ("violations", "known_hits", "unreproduced"):
                        res[k] = res.get(k, []) + r.get(k, [])
    res["note"] = "ascii fields digits=%s decades=%s..%s" % (digits_list, decades[0], decades[-1])
    return res


def jobs(tier, seed):
    q = tier == "quick"
    out = []
    for layout in ("dense", "bigmat", "nonbigmat"):
        for sparse in (False, True, None):
            out.append(H.Job("rt-%s-%s-3x2" % (layout, sparse), job, "roundtrip", layout, [(3, 2)], sparse, split_depth=5, weight=100))
        out.append(H.Job("rt-%s-two" % layout, job, "roundtrip", layout, [(2, 1), (3, 1)], None, split_depth=4, weight=100))
        if not q:
            out.append(H.Job("rt-%s-4x2" % layout, job, "roundtrip", layout, [(4, 2)], False, split_depth=6, weight=400))
            out.append(H.Job("rt-%s-4x2-sparse" % layout, job, "roundtrip", layout, [(4, 2)], True, split_depth=6, weight=400))
            out.append(H.Job("rt-%s-three" % layout, job, "roundtrip", layout, [(2, 1), (2, 2), (3, 1)], None, split_depth=6, weight=600))
            out.append(H.Job("rt-%s-5x1" % layout, job, "roundtrip", layout, [(5, 1), (2, 1)], None, split_depth=6, weight=300))
    for binary in (True, False):
        for mult in (1, 2):
            out.append(H.Job("IS-%s-%d" % ("bin" if binary else "asc", mult), job, "IS", binary, mult, weight=5))
    for binary in (True, False):
        out.append(H.Job("layout-%s" % ("bin" if binary else "asc"), job, "layout", binary, weight=2))
    for layout in ("bigmat", "nonbigmat"):
        for case in range(2 if q else len(SPARSE_IN)):
            out.append(H.Job("sparse-input-%s-%d" % (layout, case), job, "sparsein", layout, case, weight=10))
    for n in range(1, (6 if q else 10) + 1):
        out.append(H.Job("colstats-%d" % n, job, "colstats", n, 11, split_depth=6 if n > 5 else None, weight=2 ** n))
    decs = [-300, -101, -100, -99, -10, -1, 0, 1, 7, 98, 99, 100, 101, 300] if q else list(range(-310, 309, 7)) + [-101, -100, -99, 98, 99, 100, 101]
    digs = [1, 9, 16] if q else list(range(1, 17))
    for dg in digs:
        out.append(H.Job("ascii-d%d" % dg, job_ascii, [dg], sorted(set(decs)), weight=len(decs)))
    return out


def extra_coverage(results):
    import pyyeti.nastran.op4 as m
    o = m.OP4
    fns = [o._write_binary, o._write_binary_header, o._write_binary_sparse, o._write_binary_bigmat, o._write_binary_nonbigmat, o._sparse_col_stats,
           o._sparse_sort, o._get_header_info, o._write_ascii_header, o._write_ascii_nonbigmat, o._get_funcs, o._loadop4_binary, o._rd_dense_binary, o._rd_bigmat_binary, o._rd_nonbigmat_binary, o.listload, o.dir]
    return dict(functions_encoded=[H.fn_id(getattr(f, "__func__", f)) for f in fns], ast_hook_hits={"%s:%s" % k: v for k, v in astload.HITS.items()})
