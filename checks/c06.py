"""C06 - Craig-Bampton utilities: cgmass recovers the mass properties of any
rigid 6x6 mass, cbtf satisfies the full equations of motion with the enforced
boundary acceleration, cbreorder / cbconvert are permutations / congruences
undone by their inverses."""
import math
import types
from fractions import Fraction

import numpy as np
import z3

from vsym import sym as S
from vsym import engine as E
from vsym import harness as H
from vsym import astload
from vsym import odekit
from vsym.npproxy import NPProxy, rebind

PID = "C06"

META = dict(
    level="other",
    stubs=["effective-mass block of cbcheck (statements from the AST): report file -> sink, writer.vecwrite -> no-op, format() of a symbolic number -> placeholder text, pd.DataFrame -> record of (values, index, columns); "
           "comparisons of the symbolic percent table with em_filt decided element by element",
           "ytools.mattype(m, 'symmetric') -> True for the (symmetric by construction) symbolic mass", "m.astype(float) on symbolic data -> identity (AST hook)",
           "np.array / np.zeros / np.ones in cb.py -> object arrays for symbolic data", "uset_convert: pandas arithmetic on an object-dtype DataFrame holding the symbolic values (pandas own code, elementwise Python operators)", "la.lu_solve inside SolveUnc.fsolve with symbolic right-hand side -> multiplication by the concrete inverse"],
    outside=["cbcheck: its three rigid-body constructions and grounding numbers rest on eigh / pinv / LU of the model and on report printing - no kernel with symbolic data is in reach; "
             "not claimed", "cgmass principal axes (eigh)", "mk_net_drms, rbmultchk, rbdispchk, cbcoordchk"],
    assumptions=["cgmass: mass > 0, cg in [-10, 10]^3, any symmetric cg inertia in [-10, 10]", "cbtf: three Craig-Bampton models listed in the evidence, 0.5 / 4 / 23 Hz, symbolic complex boundary acceleration",
                 "cbconvert/cbreorder: 6 boundary + 2 modal DOF, symbolic matrix entries"],
    reach_required=["effmass-filter", "effmass-nofilter", "uset-convert", "cgmass", "cbtf", "cbtf-unsorted-bset", "cbreorder", "cbconvert"],
    trusted_base=["z3 5.1", "NumPy indexing semantics"],
)


class NPZ(NPProxy):
    """complex allocations become object arrays (symbolic complex entries)"""

    def zeros(self, shape, dtype=float, order="C"):
        if dtype in (complex, np.complex128):
            a = np.empty(shape, dtype=object, order=order)
            a.fill(0.0)
            return a
        return np.zeros(shape, dtype, order=order)


class NPC(NPProxy):
    def array(self, a, dtype=None, **kw):
        from vsym.npproxy import has_sym
        if has_sym(a):
            return np.array(a, dtype=object)
        return np.array(a, dtype=dtype, **kw)


def _nz(x):
    return not (isinstance(x, int) and x == 0)


def cgmass_fn():
    def fn(eng):
        S.set_engine(eng)
        import pyyeti.cb as cb
        g = dict(cb.__dict__)
        g["np"] = NPC()
        g["ytools"] = types.SimpleNamespace(mattype=lambda m, t: True)
        f = astload.load(cb.cgmass, hooks=("astype",), globs=g)
        mu = z3.Real("mass")
        cg = [z3.Real("cg%d" % i) for i in range(3)]
        Ic = [[None] * 3 for _ in range(3)]
        for i in range(3):
            for j in range(i, 3):
                Ic[i][j] = Ic[j][i] = z3.Real("I%d%d" % (i, j))
        eng.assume(z3.And([mu > Fraction(1, 100), mu <= 100] + [z3.And(v >= -10, v <= 10) for v in cg] + [z3.And(Ic[i][j] >= -10, Ic[i][j] <= 10) for i in range(3) for j in range(3)]))
        # rigid mass about the reference point, written independently:
        #   M = [[mu I, -mu [r]x], [mu [r]x, Ic - mu [r]x [r]x]]    with r = cg
        x, y, z = cg
        rx = [[0, -z, y], [z, 0, -x], [-y, x, 0]]
        M = np.empty((6, 6), dtype=object)
        for i in range(3):
            for j in range(3):
                M[i, j] = S.SymR(mu if i == j else z3.RealVal(0))
                M[i, 3 + j] = S.SymR(-mu * rx[i][j] if _nz(rx[i][j]) else z3.RealVal(0))
                M[3 + i, j] = S.SymR(mu * rx[i][j] if _nz(rx[i][j]) else z3.RealVal(0))
        for i in range(3):
            for j in range(3):
                rr = z3.Sum([rx[i][k] * rx[k][j] for k in range(3) if _nz(rx[i][k]) and _nz(rx[k][j])] + [z3.RealVal(0)])
                M[3 + i, 3 + j] = S.SymR(Ic[i][j] - mu * rr)
        info = {}
        try:
            mcg, dxyz = f(M)
        except E.Inconclusive:
            raise
        except Exception as ex:
            import traceback
            return [E.Obl("cgmass raises %r (%s)" % (ex, traceback.format_exc()[-300:]), False, info=info)]
        eng.tag("cgmass")
        obls = []
        for i in range(3):
            obls.append(E.Obl("cgmass: cg coordinate %d recovered" % i, S.lift(dxyz[i]) == cg[i], info=info))
        for i in range(6):
            for j in range(6):
                if i < 3 and j < 3:
                    want = mu if i == j else z3.RealVal(0)
                elif i >= 3 and j >= 3:
                    want = Ic[i - 3][j - 3]
                else:
                    want = z3.RealVal(0)
                obls.append(E.Obl("cgmass: mass matrix at the cg [%d,%d] (mass, zero coupling, cg inertia)" % (i, j), S.lift(mcg[i, j]) == want, info=info))
        return obls
    return fn


def replay_cgmass(p):
    import pyyeti.cb as cb
    mdl = p["model"]
    gf = lambda k, d=0.0: float(Fraction(mdl.get(k, d) or d))
    mu = gf("mass", 1.0)
    r = np.array([gf("cg0"), gf("cg1"), gf("cg2")])
    Ic = np.array([[gf("I%d%d" % (min(i, j), max(i, j))) for j in range(3)] for i in range(3)])
    rx = np.array([[0, -r[2], r[1]], [r[2], 0, -r[0]], [-r[1], r[0], 0]])
    M = np.zeros((6, 6))
    M[:3, :3] = mu * np.eye(3)
    M[:3, 3:] = -mu * rx
    M[3:, :3] = mu * rx
    M[3:, 3:] = Ic - mu * rx @ rx
    mcg, d = cb.cgmass(M)
    want = np.zeros((6, 6))
    want[:3, :3] = mu * np.eye(3)
    want[3:, 3:] = Ic
    if not np.allclose(d, r, atol=1e-9) or not np.allclose(mcg, want, atol=1e-8 * max(1, abs(want).max())):
        return True, "cgmass of a rigid mass (m=%r, cg=%r): returned cg %r, mass matrix at cg differs by %.3e" % (mu, r.tolist(), d.tolist(), abs(mcg - want).max())
    return False, "cgmass fine on the real code"


# ---------------------------------------------------------------------------
def cbmodels():
    """Craig-Bampton models (m, b, k, bset): boundary DOF physical, modal DOF with fixed-interface frequencies"""
    out = {}
    rng = np.random.RandomState(5)
    for name, nb, nq, bset in (("b-first", 2, 2, [0, 1]), ("b-last-unsorted", 2, 3, [4, 3]), ("b-interleaved", 3, 2, [3, 0, 2])):
        n = nb + nq
        q = [i for i in range(n) if i not in bset]
        m = np.zeros((n, n))
        mbb = rng.rand(nb, nb)
        mbb = mbb @ mbb.T + nb * np.eye(nb)
        m[np.ix_(bset, bset)] = mbb
        m[np.ix_(q, q)] = np.eye(nq)
        mqb = rng.randn(nq, nb) * 0.4
        m[np.ix_(q, bset)] = mqb
        m[np.ix_(bset, q)] = mqb.T
        k = np.zeros((n, n))
        w2 = (2 * np.pi * np.array([3.0, 9.0, 21.0][:nq])) ** 2
        k[np.ix_(q, q)] = np.diag(w2)
        b = np.zeros((n, n))
        b[np.ix_(q, q)] = np.diag(2 * 0.02 * np.sqrt(w2))
        out[name] = (m, b, k, np.array(bset))
    return out


CBFREQ = np.array([0.5, 4.0, 23.0])


def cbtf_fn(name):
    def fn(eng):
        S.set_engine(eng)
        import pyyeti.cb as cb
        odekit.patch_ode()
        m, b, k, bset = cbmodels()[name]
        n = m.shape[0]
        nb = len(bset)
        g = rebind([cb.cbtf], dict(np=NPZ(sym=False)))["cbtf"]
        info = dict(model=name)
        az = [[(z3.Real("a%d_%d_re" % (i, j)), z3.Real("a%d_%d_im" % (i, j))) for j in range(len(CBFREQ))] for i in range(nb)]
        a = np.empty((nb, len(CBFREQ)), dtype=object)
        for i in range(nb):
            for j in range(len(CBFREQ)):
                eng.assume(z3.And(az[i][j][0] >= -1, az[i][j][0] <= 1, az[i][j][1] >= -1, az[i][j][1] <= 1))
                a[i, j] = S.SymC(*az[i][j])
        try:
            # the modal solver is built concretely (first call with a concrete acceleration fills the
            # caller-owned cache), the solve itself runs on the symbolic acceleration
            save = {}
            odekit.NP.sym = False
            g(m, b, k, np.ones(nb), CBFREQ, bset, save)
            odekit.NP.sym = True
            try:
                tf = g(m, b, k, a, CBFREQ, bset, save)
            finally:
                odekit.NP.sym = False
        except E.Inconclusive:
            raise
        except Exception as ex:
            import traceback
            return [E.Obl("cbtf raises %r (%s)" % (ex, traceback.format_exc()[-400:]), False, info=info)]
        eng.tag("cbtf")
        if list(bset) != sorted(bset):
            eng.tag("cbtf-unsorted-bset")
        obls = []
        q = [i for i in range(n) if i not in list(bset)]
        for j, f in enumerate(CBFREQ):
            w = 2 * math.pi * f
            for r, i in enumerate(bset):
                obls.append(E.Obl("cbtf: boundary DOF %d carries the enforced acceleration at %.1f Hz" % (i, f), S.close(tf.a[i, j], a[r, j], 1e-10), info=info))
                obls.append(E.Obl("cbtf: boundary displacement = -a/w^2 at %.1f Hz" % f, S.close(tf.d[i, j] * (-(w * w)), a[r, j], 1e-9), info=info))
            # equations of motion: M a + B v + K d = [F on the boundary; 0 on the modal DOF]
            res = m @ tf.a[:, j] + b @ (tf.d[:, j] * complex(0, w)) + k @ tf.d[:, j]
            for i in q:
                sc = max(1.0, float(np.abs(m[i]).sum() + np.abs(k[i]).sum() / (w * w)))
                obls.append(E.Obl("cbtf: modal equation %d is in equilibrium at %.1f Hz" % (i, f), S.close(res[i], S.SymC.const(0), 1e-8 * sc), info=info))
            for r, i in enumerate(bset):
                sc = max(1.0, float(np.abs(m[i]).sum() + np.abs(k[i]).sum() / (w * w)))
                obls.append(E.Obl("cbtf: interface force %d is the boundary residual at %.1f Hz" % (r, f), S.close(tf.frc[r, j], res[i], 1e-8 * sc), info=info))
            for i in range(n):
                obls.append(E.Obl("cbtf: velocity = i w d", S.close(tf.v[i, j], tf.d[i, j] * complex(0, w), 1e-9 * max(1.0, 1 / w)), info=info))
        return obls
    return fn


def replay_cbtf(p):
    import pyyeti.cb as cb
    import importlib
    m, b, k, bset = cbmodels()[p["model"]]
    n, nb = m.shape[0], len(bset)
    mdl = p["model_vals"]
    a = np.array([[complex(float(Fraction(mdl.get("a%d_%d_re" % (i, j), 0) or 0)), float(Fraction(mdl.get("a%d_%d_im" % (i, j), 0) or 0))) for j in range(len(CBFREQ))] for i in range(nb)])
    if not a.any():
        a = (np.arange(1, nb * len(CBFREQ) + 1).reshape(nb, -1) * (1 + 0.3j)) / 5
    import numpy
    import scipy.linalg
    import pyyeti.ode._base_ode_class as base
    mods = odekit.patch_ode()
    for mod in mods:
        if hasattr(mod, "np"):
            mod.np = numpy
        if hasattr(mod, "la"):
            mod.la = scipy.linalg
    try:
        tf = cb.cbtf(m, b, k, a, CBFREQ, bset)
    finally:
        odekit.patch_ode()
    msgs = []
    q = [i for i in range(n) if i not in list(bset)]
    for j, f in enumerate(CBFREQ):
        w = 2 * math.pi * f
        if not np.allclose(tf.a[bset, j], a[:, j]):
            msgs.append("%.1f Hz: boundary acceleration in the result is not the enforced one" % f)
        res = m @ tf.a[:, j] + b @ (1j * w * tf.d[:, j]) + k @ tf.d[:, j]
        if np.abs(res[q]).max() > 1e-7 * max(1, np.abs(tf.a[:, j]).max() * np.abs(m).max()):
            msgs.append("%.1f Hz: modal equations out of equilibrium by %.3e" % (f, np.abs(res[q]).max()))
        if np.abs(tf.frc[:, j] - res[bset]).max() > 1e-7 * max(1, np.abs(res).max()):
            msgs.append("%.1f Hz: interface force differs from the boundary residual by %.3e" % (f, np.abs(tf.frc[:, j] - res[bset]).max()))
    if msgs:
        return True, "cbtf on model %s (bset %s): %s" % (p["model"], list(bset), "; ".join(msgs[:3]))
    return False, "cbtf satisfies the equations of motion on the real code"


# ---------------------------------------------------------------------------
def reorder_fn():
    def fn(eng):
        S.set_engine(eng)
        import pyyeti.cb as cb
        n = 8
        M = np.empty((n, n), dtype=object)
        for i in range(n):
            for j in range(n):
                M[i, j] = S.SymR(z3.Real("M_%d_%d" % (i, j)))
        obls = []
        info = {}
        eng.tag("cbreorder")
        import warnings
        for b in ([2, 3, 4, 5, 6, 7], [7, 2, 5, 0, 1, 3], [1, 0, 3, 2, 5, 4]):
            for last in (False, True):
                with warnings.catch_warnings():
                    warnings.simplefilter("ignore")
                    R_ = cb.cbreorder(M, b, last=last)
                    D_ = cb.cbreorder(M[:3], b, drm=True, last=last)
                qs = [i for i in range(n) if i not in b]
                pv = (qs + b) if last else (b + qs)
                ok = all(R_[i, j] is M[pv[i], pv[j]] for i in range(n) for j in range(n))
                obls.append(E.Obl("cbreorder(b=%s, last=%s) is the symmetric permutation putting the b-set %s" % (b, last, "last" if last else "first"), ok, info=info))
                obls.append(E.Obl("cbreorder(drm=True) permutes the columns only", all(D_[i, j] is M[i, pv[j]] for i in range(3) for j in range(n)), info=info))
                inv = list(np.argsort(pv))
                with warnings.catch_warnings():
                    warnings.simplefilter("ignore")
                    back = R_[np.ix_(inv, inv)]
                obls.append(E.Obl("the inverse permutation restores the matrix", all(back[i, j] is M[i, j] for i in range(n) for j in range(n)), info=info))
        # cbconvert: congruence by diagonal factors, undone by the inverse conversion
        eng.tag("cbconvert")
        b = [0, 1, 2, 3, 4, 5]
        for v in [M[i, j].e for i in range(n) for j in range(n)]:
            eng.assume(z3.And(v >= -1, v <= 1))
        g = rebind([cb.cbconvert, cb._get_conv_factors], dict(np=odekit.NP))["cbconvert"]
        for bb in (b, [2, 3, 4, 5, 6, 7]):
            Me = g(M, bb, "m2e")
            Mb = g(Me, bb, "e2m")
            for i in range(n):
                for j in range(n):
                    obls.append(E.Obl("cbconvert e2m(m2e(M)) == M [%d,%d]" % (i, j), S.close(Mb[i, j], M[i, j], 1e-9), info=info))
            lc, mc = 1 / 0.0254, 0.005710147154735817
            qs = [i for i in range(n) if i not in bb]
            C = np.ones(n)
            D = np.ones(n)
            trn, rot = [bb[k] for k in (0, 1, 2)], [bb[k] for k in (3, 4, 5)]
            C[trn] = 1 / lc
            D[trn] = mc * lc
            D[rot] = mc * lc ** 2
            c = math.sqrt(mc) * lc
            C[qs] = 1 / c
            D[qs] = c
            for i in range(n):
                for j in range(n):
                    obls.append(E.Obl("cbconvert m2e is D M C with the documented unit factors [%d,%d]" % (i, j), S.close(Me[i, j], M[i, j] * Fraction(float(D[i])) * Fraction(float(C[j])), 1e-9 * D[i] * C[j] + 1e-12), info=info))
        return obls
    return fn


def replay_reorder(p):
    import pyyeti.cb as cb
    rng = np.random.RandomState(1)
    M = rng.randn(8, 8)
    for b in ([2, 3, 4, 5, 6, 7], [7, 2, 5, 0, 1, 3]):
        R_ = cb.cbreorder(M, b)
        pv = b + [i for i in range(8) if i not in b]
        if not np.array_equal(R_, M[np.ix_(pv, pv)]):
            return True, "cbreorder(b=%s) is not the documented permutation" % b
        if not np.allclose(cb.cbconvert(cb.cbconvert(M, b, "m2e"), b, "e2m"), M, rtol=1e-9):
            return True, "cbconvert e2m(m2e(M)) != M for b=%s" % b
    return False, "cbreorder/cbconvert fine on the real code"


# ---------------------------------------------------------------------------
# uset_convert: every length in a USET table (grid locations and the origins of their coordinate systems) and the
# reference point are scaled by the one length factor; ids, types and direction cosines are not

def usetconv_fn(ngrid):
    def fn(eng):
        S.set_engine(eng)
        import pandas as pd
        import pyyeti.cb as cb
        f = rebind([cb.uset_convert, cb._get_conv_factors], dict(np=NPProxy()))["uset_convert"]
        lc = z3.Real("lengthconv")
        eng.assume(z3.And(lc > 0, lc <= 1000))
        vals, rows, idx = {}, [], []
        for g in range(ngrid):
            for dof in range(1, 7):
                r = []
                for c in "xyz":
                    if dof == 2:
                        v = [float(10 + g), 1.0 + (g % 3), 0.0]["xyz".index(c)]           # coordinate id, type, 0
                    else:
                        z = z3.Real("u%d_%d_%s" % (g, dof, c))
                        eng.assume(z3.And(z >= -100, z <= 100))
                        vals[(g, dof, c)] = z
                        v = S.SymR(z)
                    r.append(v)
                rows.append([2097154 if dof < 4 else 4194304] + r)
                idx.append((100 + g, dof))
        uset = pd.DataFrame(np.array(rows, dtype=object), index=pd.MultiIndex.from_tuples(idx, names=["id", "dof"]), columns=["nasset", "x", "y", "z"])
        before = uset.copy()
        ref = [z3.Real("ref%d" % k) for k in range(3)]
        info = dict(ngrid=ngrid)
        try:
            out, ref2 = f(uset, [S.SymR(x) for x in ref], (S.SymR(lc), 1.0))
        except E.Inconclusive:
            raise
        except Exception as ex:
            import traceback
            return [E.Obl("uset_convert raises %r (%s)" % (ex, traceback.format_exc()[-300:]), False, info=info)]
        eng.tag("uset-convert")
        obls = [E.Obl("uset_convert: table of the same shape and index", out.shape == uset.shape and list(out.index) == list(uset.index), info=info)]
        if out.shape != uset.shape:
            return obls
        for k, (g, dof) in enumerate([(g, d) for g in range(ngrid) for d in range(1, 7)]):
            obls.append(E.Obl("uset_convert: set membership of row %d unchanged" % k, out.iloc[k, 0] == before.iloc[k, 0], info=info))
            for ci, c in enumerate("xyz"):
                got = out.iloc[k, 1 + ci]
                if dof == 2:
                    obls.append(E.Obl("uset_convert: coordinate system id / type of grid %d unchanged" % g, S.lift(got) == S.lift(before.iloc[k, 1 + ci]), info=info))
                elif dof in (1, 3):
                    obls.append(E.Obl("uset_convert: %s %s of grid %d is scaled by the length factor" % ("location" if dof == 1 else "coordinate-system origin", c, g),
                                      S.lift(got) == vals[(g, dof, c)] * lc, info=info))
                else:
                    obls.append(E.Obl("uset_convert: direction cosines of grid %d unchanged" % g, S.lift(got) == vals[(g, dof, c)], info=info))
                obls.append(E.Obl("uset_convert: the caller's table is not modified", uset.iloc[k, 1 + ci] is before.iloc[k, 1 + ci], info=info))
        for k in range(3):
            obls.append(E.Obl("uset_convert: reference point scaled by the length factor [%d]" % k, S.lift(np.ravel(ref2)[k]) == ref[k] * lc, info=info))
        return obls
    return fn


def replay_usetconv(p):
    import pyyeti.cb as cb
    from pyyeti.nastran import n2p
    mdl = p["model"]
    lc = float(Fraction(mdl.get("lengthconv", 2) or 2))
    if lc == 1.0:
        lc = 2.5
    # a grid in a cylindrical system with its origin away from basic's
    cyl = np.array([[7, 2, 0], [1.0, 2.0, 3.0], [1.0, 2.0, 4.0], [2.0, 2.0, 3.0]])
    uset = n2p.addgrid(None, 100, "b", cyl, [2.0, 30.0, 1.5], cyl)
    out, ref = cb.uset_convert(uset, [1.0, 2.0, 3.0], (lc, 1.0))
    msgs = []
    for dof in (1, 3):
        a, b = uset.loc[(100, dof), "x":"z"].values.astype(float), out.loc[(100, dof), "x":"z"].values.astype(float)
        if not np.allclose(b, a * lc):
            msgs.append("uset_convert with length factor %g: %s row %s -> %s" % (lc, "location" if dof == 1 else "coordinate-system origin", a.tolist(), b.tolist()))
    if not np.allclose(ref, np.array([1.0, 2.0, 3.0]) * lc):
        msgs.append("reference point -> %s" % np.asarray(ref).tolist())
    if msgs:
        return True, "; ".join(msgs)
    return False, "uset_convert fine on the real code"


# ---------------------------------------------------------------------------
# cbcheck: the modal-effective-mass block (its statements compiled from the function's AST, from `dirstr = ...` to the
# return): the returned tables are the definition for every retained mode, whatever the print filter `em_filt`

_EM = {}


def _effmass_block():
    if "f" in _EM:
        return _EM["f"], _EM["id"]
    import ast
    import hashlib
    import inspect
    import textwrap
    import pyyeti.cb as cb
    tree = ast.parse(textwrap.dedent(inspect.getsource(cb.cbcheck)))
    body = tree.body[0].body
    k = next(i for i, st in enumerate(body) if isinstance(st, ast.Assign) and isinstance(st.targets[0], ast.Name) and st.targets[0].id == "dirstr")
    assert isinstance(body[-1], ast.Return)
    ret = ast.Return(ast.Tuple([ast.Name(nm, ast.Load()) for nm in ("effmass", "effmass_percent", "frq")], ast.Load()))
    args = ["f", "bset", "n", "k", "m", "rbg", "mg", "em_filt", "np", "locate", "math", "writer", "pd"]
    fn = ast.FunctionDef(name="effblock", args=ast.arguments(posonlyargs=[], args=[ast.arg(a) for a in args], kwonlyargs=[], kw_defaults=[], defaults=[]),
                         body=body[k:-1] + [ret], decorator_list=[], type_params=[])
    mod = ast.Module(body=[fn], type_ignores=[])
    ast.fix_missing_locations(mod)
    g = {}
    exec(compile(mod, "<cbcheck: modal effective mass block>", "exec"), g)
    _EM["f"], _EM["id"] = g["effblock"], hashlib.sha256(ast.unparse(mod).encode()).hexdigest()[:12]
    return _EM["f"], _EM["id"]


class _DArr(np.ndarray):
    """object array whose comparisons are decided element by element (NumPy boolean masks)"""

    def _cmp(self, o, f):
        a = np.asarray(self)
        ob = np.broadcast_to(np.asarray(o, dtype=object), a.shape)
        out = np.zeros(a.shape, bool)
        for idx in np.ndindex(*a.shape):
            out[idx] = bool(f(a[idx], ob[idx]))
        return out

    def __gt__(self, o):
        return self._cmp(o, lambda x, y: x > y)

    def __lt__(self, o):
        return self._cmp(o, lambda x, y: x < y)


class _Frame:
    """pd.DataFrame(values, index=, columns=).rename_axis(...): keeps what it was given"""

    def __init__(self, values, index=None, columns=None):
        self.values, self.index, self.columns = values, index, columns

    def rename_axis(self, *a, **k):
        return self


class _PD:
    DataFrame = _Frame


def effmass_fn(bset, n):
    def fn(eng):
        S.set_engine(eng)
        import math
        import pyyeti.locate as locate
        blk, _ = _effmass_block()
        bset_ = np.array(bset)
        qset = [i for i in range(n) if i not in bset]
        nb, nq = len(bset), len(qset)
        M = np.zeros((n, n), dtype=object)
        mz = {}
        for qi, q in enumerate(qset):
            for bi, b_ in enumerate(bset):
                z = z3.Real("m%d_%d" % (q, b_))
                eng.assume(z3.And(z >= -10, z <= 10))
                M[q, b_] = S.SymR(z)
                mz[(qi, bi)] = z
        # rigid-body modes: concrete, non-zero in two directions only (every non-zero column is one more fork of the print filter)
        rbv = [[Fraction(3 * i + j + 1, 4) if j in (0, 3) else Fraction(0) for j in range(6)] for i in range(nb)]
        rb = np.empty((nb, 6), dtype=object)
        rz = [[z3.RealVal(rbv[i][j]) for j in range(6)] for i in range(nb)]
        for i in range(nb):
            for j in range(6):
                rb[i, j] = rbv[i][j]
        mgz = [z3.Real("mg%d" % j) for j in range(6)]
        MG = np.zeros((6, 6), dtype=object)
        for j in range(6):
            eng.assume(z3.And(mgz[j] >= 1, mgz[j] <= 1000))
            MG[j, j] = S.SymR(mgz[j])
        K = np.diag([0.0 if i in bset else 400.0 * (i + 1) for i in range(n)])
        ef = z3.Real("em_filt")
        eng.assume(z3.And(ef >= 0, ef <= 100))
        info = dict(bset=list(bset), n=n)

        class Sink:
            def write(self, s_):
                pass

        class W:
            @staticmethod
            def vecwrite(*a, **k):
                pass
        old = getattr(S.SymR, "__format__", None)
        S.SymR.__format__ = lambda s_, spec: format(1.0, spec)        # report text is not the subject
        try:
            em, emp, frq = blk(Sink(), bset_, n, K, M.view(_DArr), rb, MG, S.SymR(ef), np, locate, math, W, _PD)
        except E.Inconclusive:
            raise
        except Exception as ex:
            import traceback
            return [E.Obl("effective-mass block raises %r (%s)" % (ex, traceback.format_exc()[-300:]), False, info=info)]
        finally:
            if old is None:
                del S.SymR.__format__
            else:
                S.SymR.__format__ = old
        filtered = eng.decide(ef > 0)
        eng.tag("effmass-filter" if filtered else "effmass-nofilter")
        obls = [E.Obl("cbcheck: effective-mass tables have one row per retained (q-set) mode and 6 columns, with or without the print filter (%s, %s, %s)"
                      % (np.shape(em.values), np.shape(emp.values), np.shape(frq)), np.shape(em.values) == (nq, 6) and np.shape(emp.values) == (nq, 6) and np.shape(frq) == (nq,), info=info)]
        if np.shape(em.values) != (nq, 6) or np.shape(emp.values) != (nq, 6) or np.shape(frq) != (nq,):
            return obls
        want_f = [math.sqrt(abs(K[q, q])) / (2 * math.pi) for q in qset]
        obls.append(E.Obl("cbcheck: cb_frq lists the fixed-base frequency of every retained mode", np.allclose(np.asarray(frq, float), want_f) and np.allclose(np.asarray(em.index, float), want_f), info=info))
        for qi in range(nq):
            for j in range(6):
                part = z3.Sum([mz[(qi, bi)] * rz[bi][j] for bi in range(nb)])
                obls.append(E.Obl("cbcheck: effmass[%d,%d] = (m_qb rb)^2" % (qi, j), S.lift(em.values[qi, j]) == part * part, info=info))
                obls.append(E.Obl("cbcheck: effmass_percent[%d,%d] = 100 effmass / rigid-body mass" % (qi, j), S.lift(emp.values[qi, j]) * mgz[j] == 100 * part * part, info=info))
        return obls
    return fn


def replay_effmass(p):
    """cbcheck on a small Craig-Bampton model with and without the print filter"""
    import io
    import pyyeti.cb as cb
    from pyyeti.nastran import n2p
    n = 9
    uset = n2p.addgrid(None, 1, "b", 0, [0.0, 0.0, 0.0], 0)
    bset = np.arange(6)
    mqb = np.zeros((3, 6))
    mqb[0, 0], mqb[1, 0], mqb[2, 1], mqb[2, 4] = 1.0, 0.05, 0.02, 0.3      # one mode well above a 1 % filter, one below, one mixed
    m = np.eye(n)
    m[:6, :6] = np.diag([10.0, 10.0, 10.0, 5.0, 5.0, 5.0])
    m[6:, :6] = mqb
    m[:6, 6:] = mqb.T
    k = np.diag([0.0] * 6 + [400.0, 900.0, 2500.0])
    outs = []
    for filt in (0, 1.0):
        o = cb.cbcheck(io.StringIO(), m, k, bset, bref=np.arange(6), uset=uset, uref=[0, 0, 0], em_filt=filt)
        outs.append(o)
    a, b_ = outs
    if a.effmass.shape != b_.effmass.shape or not np.allclose(a.effmass.values, b_.effmass.values) or len(b_.cb_frq) != 3:
        return True, "cbcheck(em_filt=1) returns effective-mass tables of shape %s and %d frequencies, cbcheck(em_filt=0) %s and %d" % (b_.effmass.shape, len(b_.cb_frq), a.effmass.shape, len(a.cb_frq))
    return False, "cbcheck tables do not depend on em_filt on the real code"


REPLAY = {"effmass": replay_effmass, "usetconv": replay_usetconv, "cgmass": replay_cgmass, "cbtf": replay_cbtf, "reorder": replay_reorder}


def job(kind, *args):
    eng = E.Engine(obl_timeout_ms=120000)
    eng.obl_mode = "each"
    fn = dict(cgmass=cgmass_fn, cbtf=cbtf_fn, reorder=reorder_fn, usetconv=usetconv_fn, effmass=effmass_fn)[kind](*args)
    res = eng.explore(fn, max_cex=3)
    res["note"] = "%s %s" % (kind, args)

    def payload(c):
        if kind == "cbtf":
            return dict(model=args[0], model_vals=c["model"])
        return dict(model=c["model"])
    H.triage(res, kind, REPLAY[kind], payload)
    return res


def jobs(tier, seed):
    global CBFREQ
    if tier != "quick":
        CBFREQ = np.array([0.1, 0.5, 2.9, 4.0, 9.1, 23.0, 60.0])
    out = [H.Job("cgmass", job, "cgmass", weight=10), H.Job("reorder-convert", job, "reorder", weight=10), H.Job("uset-convert", job, "usetconv", 1 if tier == "quick" else 3, weight=5),
           H.Job("effmass-b-first", job, "effmass", (0, 1), 4, weight=10), H.Job("effmass-b-last", job, "effmass", (3, 2), 4 if tier == "quick" else 5, weight=10)]
    for name in cbmodels():
        out.append(H.Job("cbtf-%s" % name, job, "cbtf", name, weight=20))
    return out


def extra_coverage(results):
    import pyyeti.cb as cb
    return dict(functions_encoded=[H.fn_id(cb.cgmass), H.fn_id(cb.cbtf), H.fn_id(cb.cbreorder), H.fn_id(cb.cbconvert), H.fn_id(cb._get_conv_factors), H.fn_id(cb.uset_convert), "cb.cbcheck[modal-effective-mass block, from the function's AST]@" + _effmass_block()[1]],
                ast_hook_hits={"%s:%s" % k: v for k, v in astload.HITS.items()})
