"""C08 - generator (step-at-a-time) == batch solver for every send history.

The history itself is symbolic: each of K operations is either a full send
(index i concretised by forking over 1..last+1) or an add-on send(-1, f); all
force vectors and initial conditions are symbolic reals.  After every send the
visible d, v columns 0..last must equal the batch solver's solution for the
force history in effect; after finalize() also a and force.
"""
import time
from fractions import Fraction

import numpy as np
import z3

from vsym import sym as S
from vsym import engine as E
from vsym import harness as H
from vsym import odekit as O

PID = "C08"
TOL = 1e-9

META = dict(
    level="other",
    functions=[],
    stubs=["np.zeros/empty -> object arrays", "scipy.linalg.lu_solve / np.linalg.solve with concrete matrix and symbolic "
           "right-hand side -> multiplication by the concrete inverse"],
    bounds=dict(quick="every history of K = 4 operations, nt = 5, n = 3 DOF, 12 solver variants x order {0,1}, one IC style per variant; forces/IC in [-1,1]",
                thorough="every history of K = 5 operations, nt = 6, 18 variants x order {0,1} x IC styles {d0/v0, static_ic, zero}"),
    outside=["systems other than the listed concrete grid (coefficients enter through exp/eig)",
             "pre_eig generators (not implemented in pyYeti)", "IEEE rounding (tolerance 1e-9 on exact rational arithmetic)"],
    assumptions=["add-on sends apply to the most recent full send; index 0 is never re-sent (documented)"],
    reach_required=["advance", "redo-current", "jump-back>=2", "addon", "addon-twice", "addon-after-jump-back", "finalize"],
)


def systems(tier):
    """name -> (class name, kwargs-builder); all satisfy the generator's
    contiguity requirement (rb, el, rf in contiguous groups)"""
    m3 = np.array([2.0, 3.0, 1.5])
    k3 = np.array([0.0, 300.0, 900.0])
    z = np.array([0.0, 0.05, 0.4])
    bd = 2 * z * np.sqrt(np.maximum(k3, 0) / m3) * m3
    bo = np.array([[0.0, 0.0, 0.0], [0.0, 2.0, 0.5], [0.0, 0.5, 4.0]])
    bfull = np.array([[0.3, 0.1, 0.0], [0.1, 2.0, 0.5], [0.0, 0.5, 4.0]])
    krf = np.array([0.0, 300.0, 4.0e5])
    kfull = np.array([[300.0, -100.0, 0.0], [-100.0, 500.0, -50.0], [0.0, -50.0, 900.0]])
    mfull = np.array([[2.0, 0.2, 0.0], [0.2, 3.0, 0.1], [0.0, 0.1, 1.5]])
    h = 0.01
    S_ = {}
    S_["unc-m"] = ("SolveUnc", dict(m=m3, b=bd, k=k3, h=h))
    S_["unc-mNone"] = ("SolveUnc", dict(m=None, b=bd, k=k3, h=h))
    S_["unc-rf"] = ("SolveUnc", dict(m=m3, b=bd, k=krf, h=h, rf=[2]))
    S_["cdf"] = ("SolveCDF", dict(m=None, b=bo, k=k3, h=h))
    S_["cdf-m-rf"] = ("SolveCDF", dict(m=m3, b=bo, k=krf, h=h, rf=[2]))
    S_["unc-cdforce"] = ("SolveUnc", dict(m=m3, b=bo, k=k3, h=h, cd_as_force=True))
    S_["coupled"] = ("SolveUnc", dict(m=None, b=bo, k=k3, h=h))
    S_["coupled-m"] = ("SolveUnc", dict(m=mfull, b=bfull, k=kfull, h=h))
    S_["coupled-rf"] = ("SolveUnc", dict(m=m3, b=bo, k=krf, h=h, rf=[2]))
    S_["se2"] = ("SolveExp2", dict(m=m3, b=bd, k=k3, h=h))
    S_["se2-full"] = ("SolveExp2", dict(m=mfull, b=bfull, k=kfull, h=h))
    # a full mass that is not symmetric (nothing in the solvers asks for symmetry): inv(m) and inv(m).T differ
    S_["se2-full-nonsym"] = ("SolveExp2", dict(m=mfull + np.array([[0.0, 0.25, 0.0], [0.0, 0.0, -0.2], [0.1, 0.0, 0.0]]), b=bfull, k=kfull, h=h))
    S_["se2-rf"] = ("SolveExp2", dict(m=None, b=bo, k=krf, h=h, rf=[2]))
    if tier == "thorough":
        S_["unc-crit-over"] = ("SolveUnc", dict(m=m3, b=2 * np.array([0.0, 1.0, 2.5]) * np.sqrt(k3 / m3) * m3, k=k3, h=h))
        S_["unc-rbdamp"] = ("SolveUnc", dict(m=m3, b=np.array([0.7, 1.0, 3.0]), k=k3, h=h))
        S_["cdf-unc-diag"] = ("SolveCDF", dict(m=m3, b=np.diag(bd), k=k3, h=h))
        S_["coupled-2rb"] = ("SolveUnc", dict(m=None, b=np.array([[0.0, 0, 0], [0, 0, 0], [0, 0, 3.0]]) + 0 * bo,
                                               k=np.array([[0.0, 0, 0], [0, 0.0, 0], [0, 0, 700.0]]), h=h, rb=[0, 1]))
        S_["se2-h-large"] = ("SolveExp2", dict(m=m3, b=bd, k=k3, h=0.2))
        S_["unc-only-rf"] = ("SolveUnc", dict(m=None, b=np.array([1.0, 1.0, 1.0]), k=np.array([4e5, 5e5, 6e5]), h=h, rf=[0, 1, 2]))
    return S_


def _mk(clsname, kw, order):
    from pyyeti import ode
    cls = getattr(ode, clsname)
    return cls(kw["m"], kw["b"], kw["k"], kw["h"], **{k: v for k, v in kw.items() if k not in "mbkh"}, order=order)


def path_fn(sysname, clsname, kw, order, K, nt, ic):
    n = 3
    phi = np.array([[1.0, 0.5, -0.25], [0.0, 1.0, 2.0]])

    def fn(eng):
        S.set_engine(eng)
        O.NP.sym = False
        ts = _mk(clsname, kw, order)
        tsb = _mk(clsname, kw, order)
        flexd = ts.get_f2x(phi, velo=False)
        flexv = ts.get_f2x(phi, velo=True)
        O.NP.sym = True
        try:
            F0z = O.zvec("F0", n)
            F0 = O.sarr(F0z)
            d0 = v0 = None
            static_ic = False
            if ic == "dv":
                d0 = O.sarr(O.zvec("d0", n))
                v0 = O.sarr(O.zvec("v0", n))
            elif ic == "static":
                static_ic = True
            gen, d, v = ts.generator(nt, F0, d0, v0, static_ic)
            force = {0: F0}
            last = 0
            obls = []
            naddon_cur = 0
            jumped = False
            for op in range(K):
                is_addon = last >= 1 and eng.decide(z3.Bool("addon%d" % op))
                fz = O.zvec("f%d" % op, n)
                f = O.sarr(fz)
                if is_addon:
                    before_d = phi @ d[:, last]
                    before_v = phi @ v[:, last]
                    if order == 1:
                        # add-on given as interface force in physical DOF (2 of them)
                        gz = O.zvec("g%d" % op, 2)
                        f = phi.T @ O.sarr(gz)
                    gen.send((-1, f))
                    force[last] = force[last] + f
                    naddon_cur += 1
                    eng.tag("addon")
                    if naddon_cur >= 2:
                        eng.tag("addon-twice")
                    if jumped:
                        eng.tag("addon-after-jump-back")
                    if order == 1:
                        g = O.sarr(gz)
                        dd = phi @ d[:, last] - before_d
                        dv = phi @ v[:, last] - before_v
                        ed = flexd @ g
                        ev = flexv @ g
                        for r in range(2):
                            obls.append(E.Obl("op%d get_f2x displacement row %d" % (op, r), O.within(dd[r], ed[r], TOL)))
                            obls.append(E.Obl("op%d get_f2x velocity row %d" % (op, r), O.within(dv[r], ev[r], TOL)))
                else:
                    i = eng.fork_int(z3.Int("i%d" % op), 1, min(last + 1, nt - 1))
                    if i == last + 1:
                        eng.tag("advance")
                        jumped = False
                    elif i == last:
                        eng.tag("redo-current")
                    elif i <= last - 1:
                        jumped = True
                        if last - i >= 2 or True:
                            eng.tag("jump-back>=2" if last - i >= 2 else "jump-back-1")
                    gen.send((i, f))
                    force[i] = f
                    last = i
                    naddon_cur = 0
                # batch solution for the history in effect
                Fm = np.empty((n, last + 1), dtype=object)
                for j in range(last + 1):
                    Fm[:, j] = force[j]
                sol = tsb.tsolve(Fm, d0, v0, static_ic)
                for r in range(n):
                    for j in range(last + 1):
                        obls.append(E.Obl("after op %d: d[%d,%d]" % (op, r, j), O.within(d[r, j], sol.d[r, j], TOL)))
                        obls.append(E.Obl("after op %d: v[%d,%d]" % (op, r, j), O.within(v[r, j], sol.v[r, j], TOL)))
            # finalize
            fin = ts.finalize(get_force=True)
            eng.tag("finalize")
            Fm = np.empty((n, nt), dtype=object)
            Fm.fill(0.0)
            for j in range(last + 1):
                Fm[:, j] = force[j]
            sol = tsb.tsolve(Fm[:, :last + 1], d0, v0, static_ic)
            for r in range(n):
                for j in range(last + 1):
                    for nm in ("d", "v", "a"):
                        obls.append(E.Obl("finalize %s[%d,%d]" % (nm, r, j),
                                          O.within(getattr(fin, nm)[r, j], getattr(sol, nm)[r, j], TOL)))
                    obls.append(E.Obl("finalize force[%d,%d]" % (r, j), O.within(fin.force[r, j], Fm[r, j], 0)))
            return obls
        finally:
            O.NP.sym = False
    return fn


def job(sysname, order, K, nt, ic, tier):
    O.patch_ode()
    clsname, kw = systems(tier)[sysname]
    fn = path_fn(sysname, clsname, kw, order, K, nt, ic)
    names = ["F0_%d" % i for i in range(3)] + ["d0_%d" % i for i in range(3)] + ["v0_%d" % i for i in range(3)]
    for op in range(K):
        names += ["f%d_%d" % (op, i) for i in range(3)] + ["g%d_%d" % (op, i) for i in range(2)]
    eng = E.Engine()
    eng.obl_mode = "each"
    res = eng.explore(fn, assumptions=S.box(names), max_cex=2)
    res["note"] = "%s order=%d K=%d ic=%s" % (sysname, order, K, ic)
    params = dict(sysname=sysname, order=order, K=K, nt=nt, ic=ic, tier=tier)
    H.triage(res, "generator-history", replay, lambda c: dict(params=params, model=c["model"], labels=c["labels"]))
    return res


def replay(payload):
    """re-run the history from the model on the real (unpatched) solver"""
    import importlib
    from pyyeti import ode
    p = payload["params"]
    mdl = payload["model"]
    clsname, kw = systems(p["tier"])[p["sysname"]]
    order, K, nt, ic = p["order"], p["K"], p["nt"], p["ic"]
    O.NP.sym = False
    ts = _mk(clsname, kw, order)
    tsb = _mk(clsname, kw, order)
    n = 3
    phi = np.array([[1.0, 0.5, -0.25], [0.0, 1.0, 2.0]])
    g = lambda nm: float(mdl.get(nm, 0) or 0)
    vec = lambda nm, k=3: np.array([g("%s_%d" % (nm, i)) for i in range(k)])
    F0 = vec("F0")
    d0 = v0 = None
    static_ic = False
    if ic == "dv":
        d0, v0 = vec("d0"), vec("v0")
    elif ic == "static":
        static_ic = True
    gen, d, v = ts.generator(nt, F0, d0, v0, static_ic)
    force = {0: F0}
    last = 0
    hist = []
    worst = 0.0
    where = ""
    flexd = ts.get_f2x(phi, velo=False)
    flexv = ts.get_f2x(phi, velo=True)
    for op in range(K):
        is_addon = last >= 1 and bool(mdl.get("addon%d" % op, False))
        f = vec("f%d" % op)
        if is_addon:
            bd_, bv_ = phi @ d[:, last], phi @ v[:, last]
            if order == 1:
                gg = vec("g%d" % op, 2)
                f = phi.T @ gg
            gen.send((-1, f))
            force[last] = force[last] + f
            hist.append("send(-1, %s)" % f.tolist())
            if order == 1:
                e1 = abs((phi @ d[:, last] - bd_) - flexd @ gg).max()
                e2 = abs((phi @ v[:, last] - bv_) - flexv @ gg).max()
                if max(e1, e2) > worst:
                    worst, where = max(e1, e2), "get_f2x after op %d" % op
        else:
            i = int(mdl.get("i%d" % op, last + 1) or 1)
            i = max(1, min(i, min(last + 1, nt - 1)))
            gen.send((i, f))
            force[i] = f
            last = i
            hist.append("send(%d, %s)" % (i, f.tolist()))
        Fm = np.column_stack([force[j] for j in range(last + 1)])
        sol = tsb.tsolve(Fm, d0, v0, static_ic)
        e = max(abs(d[:, :last + 1] - sol.d).max(), abs(v[:, :last + 1] - sol.v).max())
        if e > worst:
            worst, where = e, "d/v after op %d" % op
    fin = ts.finalize(get_force=True)
    Fm = np.column_stack([force[j] for j in range(last + 1)])
    sol = tsb.tsolve(Fm, d0, v0, static_ic)
    e = max(abs(fin.d[:, :last + 1] - sol.d).max(), abs(fin.v[:, :last + 1] - sol.v).max(),
            abs(fin.a[:, :last + 1] - sol.a).max(), abs(fin.force[:, :last + 1] - Fm).max())
    if e > worst:
        worst, where = e, "finalize"
    detail = "%s order=%d ic=%s F0=%s history=[%s]: max |generator - batch| = %.3e at %s" % (
        p["sysname"], order, ic, F0.tolist(), "; ".join(hist), worst, where)
    return worst > 0.5 * TOL, detail


REPLAY = {"generator-history": replay}


def jobs(tier, seed):
    q = tier == "quick"
    K = 4 if q else 5
    nt = 5 if q else 6
    out = []
    names = list(systems(tier))
    for si, name in enumerate(names):
        for order in (0, 1):
            ics = ["dv", "static", "zero"]
            if q:
                # rotate initial-condition styles over systems (seeded); thorough does all
                ics = [ics[(si + order + seed) % 3]]
            for ic in ics:
                out.append(H.Job("%s-o%d-%s" % (name, order, ic), job, name, order, K, nt, ic, tier, weight=K))
    return out


def extra_coverage(results):
    from pyyeti.ode import SolveUnc, SolveExp2, SolveCDF
    from pyyeti.ode._base_ode_class import _BaseODE
    fns = [SolveUnc.generator, SolveUnc._solve_real_unc_generator, SolveUnc._solve_real_unc_generator_cdforces,
           SolveUnc._solve_complex_unc_generator, SolveUnc.get_f2x, SolveUnc._get_f2x_real_unc, SolveUnc._get_f2x_complex_unc,
           SolveExp2.generator, SolveExp2._solve_se2_generator, SolveExp2.get_f2x, SolveCDF.generator,
           _BaseODE._init_dva_part, _BaseODE.finalize, _BaseODE._calc_acce_kdof, SolveUnc.tsolve, SolveExp2.tsolve,
           SolveUnc._solve_real_unc, SolveUnc._solve_real_unc_cdforces, SolveUnc._solve_complex_unc]
    return dict(functions_encoded=[H.fn_id(f) for f in fns])
