"""C03 - shock response spectrum: the response histories computed by srs.srs
equal the exact response of the damped oscillator to the linearly interpolated
base acceleration, the spectrum is the stated statistic over the stated window,
and the algebraic identities between spectra hold."""
import itertools
import math
import time
import types
from fractions import Fraction

import numpy as np
import z3

from vsym import sym as S
from vsym import engine as E
from vsym import harness as H
from vsym import odekit
from vsym.linform import coeff_norm1, flat as _flat

_FMEMO = {}
from vsym.npproxy import NPProxy, rebind, has_sym

PID = "C03"

META = dict(
    level="other",
    stubs=["scipy.signal.lfilter(b, a, x, axis=0) with concrete (b, a) and symbolic x -> direct-form difference equation in Python (validated against SciPy on every run)",
           "ndarray.max/min/mean of symbolic arrays -> If-chains / exact sums (no forking); np.sqrt -> non-negative root symbol with its defining square",
           "np.empty/np.zeros -> object arrays",
           "srs_frf: scipy.interpolate.interp1d (linear, fill 0) with concrete abscissae -> piecewise-linear combination of the symbolic ordinates; abs() of a complex symbolic value -> "
           "non-negative root symbol compared with other roots through the squares"],
    outside=["rolloff resampling (fft / lanczos / prefilter / linear): accuracy of resampling", "srsmap (FFT); vrs beyond concrete integration grids of 5-8 points with the PSD specified on the grid itself (linear=True), log-log PSD interpolation inside vrs, the step-size warning", "srs_frf beyond 2-4 FRF lines and 1-2 analysis frequencies; srs_frq=None, scale_by_Q_only, getresp",
             "the coefficient formulas between grid points (exp/sin/cos of Q, w, dT)", "parallel execution (C09)"],
    assumptions=["signal samples in [-1, 1]", "for ic in {zero, mshift} the input is taken as zero up to one sample before the first sample and linear in between "
                 "(what a ramp-invariant filter started from rest means); for ic in {shift, steady} the (shifted) input starts at zero at t = 0",
                 "total/residual windows (one appended cycle of ceil(sr/fn) samples) only at sr/fn <= 10", "tolerance: 1e-9 relative to the 1-norm of the reference linear form for sr/fn <= 100, 1e-6 for sr/fn = 2000 (conditioning of the ramp-invariant coefficients)"],
    reach_required=["frf", "frf-complex", "vrs", "hist-primary", "hist-total", "hist-residual", "ic-steady", "ic-mshift", "fn-zero", "peak-stat", "identities", "packaging"],
    trusted_base=["z3 5.1", "mpmath reference (van-Loan exponential, 80 digits)", "lfilter model (validated against SciPy each run)"],
)

STYPES = ("absacce", "relacce", "relvelo", "reldisp", "pvelo", "pacce")
ICS = ("zero", "shift", "mshift", "steady")
TIMES = ("primary", "total", "residual")
PEAKS = ("abs", "pos", "neg", "poss", "negs", "rms")


class SArr(np.ndarray):
    """object array whose reductions build If-chains instead of forking"""

    def _red(self, axis, pick):
        a = np.asarray(self)
        if axis is None:
            vals = list(a.ravel())
            return pick(vals)
        a = np.moveaxis(a, axis, 0)
        out = np.empty(a.shape[1:], dtype=object)
        for idx in np.ndindex(*a.shape[1:]):
            out[idx] = pick([a[(i,) + idx] for i in range(a.shape[0])])
        return out.view(SArr)

    def max(self, axis=None, **kw):
        return self._red(axis, _ifmax)

    def min(self, axis=None, **kw):
        return self._red(axis, _ifmin)

    def mean(self, axis=None, **kw):
        return self._red(axis, lambda v: sum(v[1:], v[0]) / len(v))


def _t(x):
    return S.lift(x)


def _ifmax(vals):
    r = _t(vals[0])
    for v in vals[1:]:
        v = _t(v)
        r = z3.If(v > r, v, r)
    return S.SymR(r)


def _ifmin(vals):
    r = _t(vals[0])
    for v in vals[1:]:
        v = _t(v)
        r = z3.If(v < r, v, r)
    return S.SymR(r)


class Sig:
    """scipy.signal stand-in: direct-form I difference equation along axis 0"""

    @staticmethod
    def lfilter(b, a, x, axis=0):
        import scipy.signal as ss
        if not (isinstance(x, np.ndarray) and x.dtype == object):
            return ss.lfilter(b, a, x, axis=axis)
        assert axis == 0
        b = [Fraction(float(v)) for v in b]
        a = [Fraction(float(v)) for v in a]
        y = np.empty(x.shape, dtype=object)
        n = x.shape[0]
        for i in range(n):
            acc = 0
            for k in range(len(b)):
                if i - k >= 0 and b[k] != 0:
                    acc = acc + b[k] * x[i - k]
            for k in range(1, len(a)):
                if i - k >= 0 and a[k] != 0:
                    acc = acc - a[k] * y[i - k]
            yi = acc / a[0] if a[0] != 1 else acc
            if not isinstance(yi, np.ndarray) and x.ndim > 1:
                yi = np.zeros(x.shape[1:], dtype=object) + yi
            # exact flat normal form (sum of coefficient * input sample): same value, far smaller terms
            if isinstance(yi, np.ndarray):
                for idx in np.ndindex(*yi.shape):
                    if S.is_sym(yi[idx]):
                        yi[idx] = S.SymR(_flat(S.lift(yi[idx]), _FMEMO))
            elif S.is_sym(yi):
                yi = S.SymR(_flat(S.lift(yi), _FMEMO))
            y[i] = yi
        return y.view(SArr)

    def __getattr__(self, name):
        import scipy.signal as ss
        return getattr(ss, name)


class NPS(NPProxy):
    def sqrt(self, a):
        """root symbols carry their radicand (`.of`) but the defining square is NOT put on
        the path condition: it would turn every later (linear) query into a non-linear one"""
        def one(v):
            if S.is_sym(v):
                r = S.eng().fresh("sqrt")
                S.eng().assume(r >= 0)
                return S.SymRoot(r, S.lift(v))
            return np.sqrt(float(v))
        if isinstance(a, np.ndarray) and a.dtype == object:
            out = np.empty(a.shape, dtype=object)
            for idx in np.ndindex(*a.shape):
                out[idx] = one(a[idx])
            return out
        return one(a) if S.is_sym(a) else np.sqrt(a)

    def vstack(self, tup):
        r = np.vstack(tup)
        return r.view(SArr) if r.dtype == object else r


_C = {}


def loaded():
    if "g" in _C:
        return _C["g"]
    import pyyeti.srs as m
    names = ["srs", "_process_ic", "_add_one_cycle", "_process_inputs", "_process_parallel", "_absmeth", "_posmeth", "_possmeth", "_negmeth",
             "_negsmeth", "_rmsmeth", "absacce", "relacce", "reldisp", "relvelo", "pvelo", "pacce"]
    g = rebind([getattr(m, n) for n in names], dict(np=NPS(), signal=Sig()))
    _C["g"] = g
    return g


def validate_lfilter():
    import scipy.signal as ss
    rng = np.random.RandomState(0)
    bad = 0
    for _ in range(20):
        b, a = rng.randn(3), np.r_[1.0, rng.randn(2) * 0.5]
        x = rng.randn(7, 2)
        want = ss.lfilter(b, a, x, axis=0)
        xo = np.empty(x.shape, dtype=object)
        for idx in np.ndindex(*x.shape):
            xo[idx] = Fraction(float(x[idx]))
        got = Sig.lfilter(b, a, xo, axis=0)
        if not np.allclose(np.array(got, dtype=float), want, rtol=1e-12, atol=1e-12):
            bad += 1
    return bad


def sigsym(N, Hc):
    z = [[z3.Real("x_%d_%d" % (i, j)) for j in range(Hc)] for i in range(N)]
    a = np.empty((N, Hc), dtype=object)
    for i in range(N):
        for j in range(Hc):
            a[i, j] = S.SymR(z[i][j])
    return z, a.view(SArr)


def reference(zcol, sr, fn, Q, stype, ic, timeopt, minf):
    """independent exact response (list of z3 terms over the window, the window's
    time vector) of  z'' + (w/Q) z' + w^2 z = -u(t)  for one signal column"""
    N = len(zcol)
    dT = 1.0 / sr
    w = 2 * math.pi * fn
    s1 = zcol[0]
    if ic in ("shift", "steady"):
        u = [x - s1 for x in zcol]
    elif ic == "mshift":
        mean = z3.Sum(zcol) / N
        u = [x - mean for x in zcol]
    else:
        u = list(zcol)
    M = N
    if timeopt != "primary" and minf is not None:
        nz = int(math.ceil(sr / minf))
        pad = (z3.RealVal(0) - s1) if ic == "steady" else z3.RealVal(0)
        u = u + [pad] * nz
    Ntot = len(u)
    Mm = np.array([[1.0]])
    Bm = np.array([[w / Q]])
    Km = np.array([[w * w]])
    Phi, G0, G1 = odekit.ref_operator(Mm, Bm, Km, dT, 1, [0])
    wq, wQ = Fraction(w), Fraction(w / Q)
    w2 = Fraction(w * w)
    # force = -u ; state at the fictitious sample -1 is rest with u = 0
    y = [z3.RealVal(0), z3.RealVal(0)]
    prev = z3.RealVal(0)
    out = []
    for k in range(Ntot):
        f0, f1 = -prev, -u[k]
        y = [z3.RealVal(Phi[r][0]) * y[0] + z3.RealVal(Phi[r][1]) * y[1] + z3.RealVal(G0[r][0]) * f0 + z3.RealVal(G1[r][0]) * f1 for r in range(2)]
        prev = u[k]
        zz, zd = y
        if stype == "reldisp":
            v = zz
        elif stype == "relvelo":
            v = zd
        elif stype == "relacce":
            v = -z3.RealVal(wQ) * zd - z3.RealVal(w2) * zz - u[k]
        elif stype == "absacce":
            v = -z3.RealVal(wQ) * zd - z3.RealVal(w2) * zz
        elif stype == "pvelo":
            v = z3.RealVal(wq) * zz
        else:
            v = z3.RealVal(w2) * zz
        if ic == "steady":
            # steady state under the constant base acceleration s1 before t = 0
            if stype == "reldisp":
                v = v - s1 / z3.RealVal(w2) if fn > 0 else v
            elif stype == "pvelo":
                v = v - s1 / z3.RealVal(wq) if fn > 0 else v
            elif stype == "pacce":
                v = v - s1
            elif stype == "absacce":
                v = v + s1
        out.append(v)
    if timeopt == "residual":
        return out[M:], [Fraction(k) / Fraction(sr) for k in range(M, Ntot)]
    return out, [Fraction(k) / Fraction(sr) for k in range(Ntot)]


def _stat(peak, vals):
    ts = [_t(v) for v in vals]
    ab = lambda t: z3.If(t >= 0, t, -t)
    mx = ts[0]
    mn = ts[0]
    amx = ab(ts[0])
    for t in ts[1:]:
        mx = z3.If(t > mx, t, mx)
        mn = z3.If(t < mn, t, mn)
        amx = z3.If(ab(t) > amx, ab(t), amx)
    return dict(abs=amx, pos=ab(mx), neg=ab(mn), poss=mx, negs=mn)[peak]


def hist_fn(Q, sr, freqs, N, Hc, combos, tolrel):
    """combos: list of (stype, ic, time, peak, eqsine)"""
    def fn(eng):
        S.set_engine(eng)
        g = loaded()
        z, sig = sigsym(N, Hc)
        for row in z:
            for v in row:
                eng.assume(z3.And(v >= -1, v <= 1))
        nzf = [f for f in freqs if f > 0]
        minf = min(nzf) if nzf else None
        obls = []
        for stype, ic, timeopt, peak, eqsine in combos:
            info = dict(Q=Q, sr=sr, freqs=list(freqs), N=N, H=Hc, stype=stype, ic=ic, time=timeopt, peak=peak, eqsine=eqsine)
            try:
                sh, resp = g["srs"](sig, sr, np.array(freqs, dtype=float), Q, ic=ic, stype=stype, peak=peak, eqsine=eqsine, time=timeopt,
                                    rolloff="none", getresp=True, parallel="no")
            except E.Inconclusive:
                raise
            except Exception as ex:
                obls.append(E.Obl("srs(%s) raises %r" % (info, ex), False, info=info))
                continue
            hist = resp["hist"]
            eng.tag("hist-" + timeopt)
            if ic in ("steady", "mshift"):
                eng.tag("ic-" + ic)
            for fi, fnq in enumerate(freqs):
                if fnq == 0:
                    eng.tag("fn-zero")
                    if stype in ("pvelo", "pacce", "absacce") or (ic == "steady" and stype in ("reldisp",)):
                        # documented degenerate cases at 0 Hz (zero filters / infinite steady offset): not compared
                        continue
                for h in range(Hc):
                    ref, tref = reference([z[i][h] for i in range(N)], sr, fnq, Q, stype, ic, timeopt, minf)
                    if eqsine:
                        ref = [r / Q for r in ref]
                    ok = hist.shape[0] == len(ref)
                    obls.append(E.Obl("srs %s/%s/%s: history length %d == %d" % (stype, ic, timeopt, hist.shape[0], len(ref)), ok, info=info))
                    if not ok:
                        continue
                    tt = resp["t"]
                    obls.append(E.Obl("srs %s/%s/%s: time vector of the window" % (stype, ic, timeopt),
                                      len(tt) == len(tref) and all(abs(Fraction(float(a)) - b) <= Fraction(1, 10 ** 12) for a, b in zip(tt, tref)), info=info))
                    for i in range(len(ref)):
                        scale = max(coeff_norm1(ref[i]), Fraction(1, 10 ** 6))
                        obls.append(E.Obl("srs %s/%s/%s f=%g col %d: hist[%d] equals the exact oscillator response" % (stype, ic, timeopt, fnq, h, i),
                                          odekit.within(hist[i, h, fi], ref[i], Fraction(tolrel) * scale), info=info))
                    if peak != "rms":
                        want = _stat(peak, [hist[i, h, fi] for i in range(hist.shape[0])])
                        obls.append(E.Obl("srs %s/%s/%s peak=%s f=%g col %d: spectrum is the stated statistic of the history" % (stype, ic, timeopt, peak, fnq, h),
                                          _t(sh[fi, h]) == want, info=info))
                    else:
                        ms = z3.Sum([_t(hist[i, h, fi]) * _t(hist[i, h, fi]) for i in range(hist.shape[0])]) / hist.shape[0]
                        v = sh[fi, h]
                        sq = v.of if isinstance(v, S.SymRoot) else _t(v) * _t(v)
                        obls.append(E.Obl("srs %s/%s/%s rms f=%g col %d: spectrum^2 is the mean square of the history" % (stype, ic, timeopt, fnq, h),
                                          sq == ms, info=info))
                    eng.tag("peak-stat")
        return obls
    return fn


def ident_fn(Q, sr, freqs, N):
    """identities between spectra of the same signal; packaging"""
    def fn(eng):
        S.set_engine(eng)
        g = loaded()
        z, sig = sigsym(N, 2)
        for row in z:
            for v in row:
                eng.assume(z3.And(v >= -1, v <= 1))
        fr = np.array(freqs, dtype=float)
        info = dict(Q=Q, sr=sr, freqs=list(freqs), N=N)
        run = lambda s, **kw: g["srs"](s, sr, fr, Q, rolloff="none", parallel="no", **kw)
        obls = []
        out = {}
        for stype in ("absacce", "reldisp"):
            for pk in ("abs", "pos", "neg"):
                out[(stype, pk)] = run(sig, stype=stype, peak=pk)
            for fi in range(len(freqs)):
                for h in range(2):
                    a_, p_, n_ = (_t(out[(stype, k)][fi, h]) for k in ("abs", "pos", "neg"))
                    obls.append(E.Obl("abs == max(pos, neg) [%s f%d c%d]" % (stype, fi, h), a_ == z3.If(p_ >= n_, p_, n_), info=info))
        # total window = primary window followed by the residual window (entry-wise on the
        # histories; with "spectrum = statistic of its window" this gives total = max(primary, residual))
        hh = {k: run(sig, stype="absacce", time=k, getresp=True) for k in TIMES}
        ht, hp, hr = (hh[k][1]["hist"] for k in ("total", "primary", "residual"))
        M = hp.shape[0]
        obls.append(E.Obl("total window length = primary + residual", ht.shape[0] == M + hr.shape[0], info=info))
        for fi in range(len(freqs)):
            for h in range(2):
                for i in range(min(ht.shape[0], M + hr.shape[0])):
                    other = hp[i, h, fi] if i < M else hr[i - M, h, fi]
                    obls.append(E.Obl("total history[%d] == %s history [f%d c%d]" % (i, "primary" if i < M else "residual", fi, h), _t(ht[i, h, fi]) == _t(other), info=info))
        rd = run(sig, stype="reldisp", getresp=True)[1]["hist"]
        pv = run(sig, stype="pvelo", getresp=True)[1]["hist"]
        pa = run(sig, stype="pacce", getresp=True)[1]["hist"]
        es, esr = run(sig, stype="absacce", eqsine=True, getresp=True)
        ab = out[("absacce", "abs")]
        abh = hh["primary"][1]["hist"]
        for fi, fnq in enumerate(freqs):
            w = 2 * math.pi * fnq
            for h in range(2):
                for i in range(rd.shape[0]):
                    obls.append(E.Obl("pvelo history == w * reldisp history [%d f%d c%d]" % (i, fi, h), S.close(pv[i, h, fi], rd[i, h, fi] * Fraction(w), 1e-9 * max(1.0, w)), info=info))
                    obls.append(E.Obl("pacce history == w^2 * reldisp history [%d f%d c%d]" % (i, fi, h), S.close(pa[i, h, fi], rd[i, h, fi] * Fraction(w * w), 1e-9 * max(1.0, w * w)), info=info))
                    obls.append(E.Obl("eqsine history == history / Q [%d f%d c%d]" % (i, fi, h), _t(esr["hist"][i, h, fi]) == _t(abh[i, h, fi]) / z3.RealVal(Fraction(Q)), info=info))
                obls.append(E.Obl("eqsine == srs/Q [f%d c%d]" % (fi, h), _t(es[fi, h]) == _t(ab[fi, h]) / z3.RealVal(Fraction(Q)), info=info))
        eng.tag("identities")
        # packaging: 1-D input == the single column; swapping columns swaps the output
        one = run(np.asarray(sig)[:, 0].view(SArr), stype="absacce")
        sw = run(np.asarray(sig)[:, ::-1].copy().view(SArr), stype="absacce")
        for fi in range(len(freqs)):
            obls.append(E.Obl("1-D input gives the first column's spectrum [f%d]" % fi, np.ndim(one) == 1 and _t(one[fi]) == _t(ab[fi, 0]), info=info))
            for h in range(2):
                obls.append(E.Obl("swapping signal columns swaps the spectra [f%d c%d]" % (fi, h), _t(sw[fi, 1 - h]) == _t(ab[fi, h]), info=info))
        # scaling
        sc = run(sig * 3, stype="absacce")
        for fi in range(len(freqs)):
            for h in range(2):
                obls.append(E.Obl("spectrum scales linearly with the input [f%d c%d]" % (fi, h), _t(sc[fi, h]) == 3 * _t(ab[fi, h]), info=info))
        eng.tag("packaging")
        return obls
    return fn


# ---------------------------------------------------------------------------
def exact_response_float(x, sr, fn, Q, stype, ic, timeopt, minf):
    """float version of `reference` via scipy (for replays): dense matrix exponential stepping"""
    import scipy.linalg as la
    x = np.asarray(x, float)
    N = len(x)
    dT = 1.0 / sr
    w = 2 * math.pi * fn
    s1 = x[0]
    if ic in ("shift", "steady"):
        u = x - s1
    elif ic == "mshift":
        u = x - x.mean()
    else:
        u = x.copy()
    M = N
    if timeopt != "primary" and minf is not None:
        nz = int(math.ceil(sr / minf))
        u = np.r_[u, np.zeros(nz) - (s1 if ic == "steady" else 0.0)]
    A = np.array([[0.0, 1.0], [-w * w, -w / Q]])
    Z = np.zeros((4, 4))
    Z[:2, :2] = A * dT
    Z[1, 2] = dT
    Z[2, 3] = 1.0
    Ez = la.expm(Z)
    Phi, G1s, G2s = Ez[:2, :2], Ez[:2, 2], Ez[:2, 3]
    y = np.zeros(2)
    prev = 0.0
    out = []
    for k in range(len(u)):
        y = Phi @ y + (G1s - G2s) * (-prev) + G2s * (-u[k])
        prev = u[k]
        zz, zd = y
        v = dict(reldisp=zz, relvelo=zd, relacce=-w / Q * zd - w * w * zz - u[k], absacce=-w / Q * zd - w * w * zz, pvelo=w * zz, pacce=w * w * zz)[stype]
        if ic == "steady":
            if stype == "reldisp" and fn > 0:
                v -= s1 / (w * w)
            elif stype == "pvelo" and fn > 0:
                v -= s1 / w
            elif stype == "pacce":
                v -= s1
            elif stype == "absacce":
                v += s1
        out.append(v)
    out = np.array(out)
    return out[M:] if timeopt == "residual" else out


def replay(p):
    import pyyeti.srs as m
    info = p["info"]
    mdl = p["model"]
    N, Hc = info["N"], info.get("H", 2)
    x = np.array([[float(Fraction(mdl.get("x_%d_%d" % (i, j), 0) or 0)) for j in range(Hc)] for i in range(N)])
    freqs = info["freqs"]
    Q, sr = info["Q"], info["sr"]
    nzf = [f for f in freqs if f > 0]
    minf = min(nzf) if nzf else None
    msgs = []
    if "stype" in info:
        combos = [(info["stype"], info["ic"], info["time"], info["peak"], info["eqsine"])]
    else:
        combos = [(s, "zero", t, "abs", False) for s in STYPES for t in TIMES]
    for stype, ic, timeopt, peak, eqsine in combos:
        try:
            sh, resp = m.srs(x, sr, freqs, Q, ic=ic, stype=stype, peak=peak, eqsine=eqsine, time=timeopt, rolloff="none", getresp=True, parallel="no")
        except Exception as ex:
            return True, "srs(%r, ...) raises %r" % (info, ex)
        for fi, fnq in enumerate(freqs):
            if fnq == 0 and (stype in ("pvelo", "pacce", "absacce") or (ic == "steady" and stype == "reldisp")):
                continue
            for h in range(Hc):
                ref = exact_response_float(x[:, h], sr, fnq, Q, stype, ic, timeopt, minf)
                if eqsine:
                    ref = ref / Q
                got = resp["hist"][:, h, fi]
                if len(got) != len(ref):
                    msgs.append("%s/%s/%s: history length %d, expected %d" % (stype, ic, timeopt, len(got), len(ref)))
                    continue
                sc = max(np.abs(ref).max(), 1e-6)
                tol = (1e-5 if sr / max(fnq, 1e-9) > 500 else 1e-7) * max(sc, np.abs(x).max() * (1 if stype in ("absacce", "relacce", "pacce") else 1e-9))
                err = np.abs(got - ref).max()
                if err > tol:
                    msgs.append("%s/%s/%s f=%g col %d: history differs from the exact oscillator response by %.3e (scale %.3e)" % (stype, ic, timeopt, fnq, h, err, sc))
                st = dict(abs=np.abs(got).max(), pos=abs(got.max()), neg=abs(got.min()), poss=got.max(), negs=got.min(), rms=math.sqrt((got ** 2).mean()))[peak]
                if abs(sh[fi, h] - st) > 1e-12 * max(1, abs(st)):
                    msgs.append("%s/%s/%s peak=%s f=%g col %d: spectrum %r is not the statistic %r of the returned history" % (stype, ic, timeopt, peak, fnq, h, sh[fi, h], st))
    if "stype" not in info:
        a2 = m.srs(x, sr, freqs, Q, rolloff="none", parallel="no")
        a1 = m.srs(x[:, 0], sr, freqs, Q, rolloff="none", parallel="no")
        asw = m.srs(x[:, ::-1].copy(), sr, freqs, Q, rolloff="none", parallel="no")
        if np.ndim(a1) != 1 or not np.allclose(a1, a2[:, 0], rtol=1e-12) or not np.allclose(asw[:, ::-1], a2, rtol=1e-12):
            msgs.append("packaging: 1-D / swapped-column spectra differ")
        for pkset in (("absacce",), ("reldisp",)):
            o = {k: m.srs(x, sr, freqs, Q, stype=pkset[0], peak=k, rolloff="none", parallel="no") for k in ("abs", "pos", "neg")}
            if not np.allclose(o["abs"], np.maximum(o["pos"], o["neg"]), rtol=1e-12):
                msgs.append("abs != max(pos, neg) for %s" % pkset[0])
        t_, p_, r_ = (m.srs(x, sr, freqs, Q, time=k, rolloff="none", parallel="no") for k in ("total", "primary", "residual"))
        if not np.allclose(t_, np.maximum(p_, r_), rtol=1e-12):
            msgs.append("total != max(primary, residual)")
        rd, pv, pa = (m.srs(x, sr, freqs, Q, stype=k, rolloff="none", parallel="no") for k in ("reldisp", "pvelo", "pacce"))
        w = 2 * np.pi * np.asarray(freqs)[:, None]
        if not np.allclose(pv, w * rd, rtol=1e-7, atol=1e-12) or not np.allclose(pa, w * w * rd, rtol=1e-7, atol=1e-12):
            msgs.append("pvelo/pacce != w, w^2 times reldisp")
    if msgs:
        return True, "srs on x=%r sr=%r freq=%r Q=%r: %s" % (x.tolist(), sr, freqs, Q, "; ".join(msgs[:4]))
    return False, "srs agrees with the exact response on the real code"


REPLAY = {"srs": replay}


def job_hist(Q, sr, freqs, N, Hc, combos, tolrel):
    eng = E.Engine(obl_timeout_ms=120000)
    eng.obl_mode = "each"
    res = eng.explore(hist_fn(Q, sr, freqs, N, Hc, combos, tolrel), max_cex=3)
    res["note"] = "Q=%g sr=%g freqs=%s N=%d H=%d, %d option combinations" % (Q, sr, freqs, N, Hc, len(combos))
    H.triage(res, "srs", replay, lambda c: dict(info=(c.get("info") or [dict(Q=Q, sr=sr, freqs=list(freqs), N=N, H=Hc)])[0], model=c["model"]))
    return res


def job_ident(Q, sr, freqs, N):
    eng = E.Engine(obl_timeout_ms=120000)
    res = eng.explore(ident_fn(Q, sr, freqs, N), max_cex=3)
    res["note"] = "identities Q=%g sr=%g freqs=%s N=%d" % (Q, sr, freqs, N)
    H.triage(res, "srs", replay, lambda c: dict(info=dict(Q=Q, sr=sr, freqs=list(freqs), N=N, H=2), model=c["model"]))
    return res


# ---------------------------------------------------------------------------
# srs_frf: frequencies and Q concrete, the FRF symbolic (magnitudes, or complex values)

class SqRoot(S.SymRoot):
    """non-negative root; compared with another root through the squares"""
    __slots__ = ()

    def _c2(s, o, f):
        return S.SymB(f(s.of, o.of)) if isinstance(o, S.SymRoot) else None

    def __ge__(s, o):
        r = s._c2(o, lambda a, b: a >= b)
        return r if r is not None else S.SymR.__ge__(s, o)

    def __gt__(s, o):
        r = s._c2(o, lambda a, b: a > b)
        return r if r is not None else S.SymR.__gt__(s, o)

    def __le__(s, o):
        r = s._c2(o, lambda a, b: a <= b)
        return r if r is not None else S.SymR.__le__(s, o)

    def __lt__(s, o):
        r = s._c2(o, lambda a, b: a < b)
        return r if r is not None else S.SymR.__lt__(s, o)

    __hash__ = S.SymR.__hash__


class NonNeg(S.SymR):
    __slots__ = ()

    def __abs__(s):
        return s

    __hash__ = S.SymR.__hash__


def sq_abs(x):
    if isinstance(x, np.ndarray) and x.dtype == object:
        out = np.empty(x.shape, dtype=object)
        for idx in np.ndindex(*x.shape):
            out[idx] = sq_abs(x[idx])
        return out
    if isinstance(x, S.SymC):
        r = S.eng().fresh("cabs")
        sq = x.re * x.re + x.im * x.im
        S.eng().assume(z3.And(r >= 0, r * r == sq))
        return SqRoot(r, sq)
    return abs(x)


class NPF(NPProxy):
    def abs(self, a):
        return sq_abs(a)


class _Interp1d:
    """scipy.interpolate.interp1d(x, y, axis=0, bounds_error=False, fill_value=0, assume_sorted=True), linear, concrete x"""

    def __init__(self, x, y, axis=0, bounds_error=False, fill_value=0, assume_sorted=True, kind="linear"):
        assert axis == 0 and kind == "linear" and not bounds_error
        self.x, self.y, self.fill = np.asarray(x, float), y, fill_value

    def __call__(self, xn):
        xn = np.asarray(xn, float)
        out = np.empty((len(xn),) + self.y.shape[1:], dtype=object)
        for k, v in enumerate(xn):
            if v < self.x[0] or v > self.x[-1]:
                out[k] = self.fill
                continue
            i = min(max(int(np.searchsorted(self.x, v, side="right")) - 1, 0), len(self.x) - 2)
            w = Fraction(float(v) - float(self.x[i])) / Fraction(float(self.x[i + 1]) - float(self.x[i]))
            out[k] = self.y[i] + (self.y[i + 1] - self.y[i]) * w
        return out


class _InterpMod:
    interp1d = _Interp1d


def _frf_ref(frf_frq, srs_frq, Q):
    """(analysis frequencies, exact transmissibility |1 + w^2/H| per (srs frequency, analysis frequency)) in 40 digits"""
    import mpmath as mp
    mp.mp.dps = 40
    p_peak = Q * np.sqrt(np.sqrt(1 + 2 / Q ** 2) - 1)
    ff = np.sort(np.hstack((frf_frq, p_peak * np.array(srs_frq))))
    pv = np.ones(len(ff), bool)
    pv[1:] = np.diff(ff) > 1e-5
    ff = ff[pv]
    T = []
    for fn_ in srs_frq:
        ws = 2 * mp.pi * mp.mpf(float(fn_))
        ks, bs = ws ** 2, ws / mp.mpf(Q)
        T.append([mp.sqrt((ks ** 2 + (bs * 2 * mp.pi * mp.mpf(float(v))) ** 2) / ((ks - (2 * mp.pi * mp.mpf(float(v))) ** 2) ** 2 + (bs * 2 * mp.pi * mp.mpf(float(v))) ** 2)) for v in ff])
    return ff, T


def frf_fn(frf_frq, srs_frq, Q, cplx):
    def fn(eng):
        import mpmath as mp
        S.set_engine(eng)
        import pyyeti.srs as srs
        f = rebind([srs.srs_frf], dict(np=NPF(), interp=_InterpMod, abs=sq_abs))["srs_frf"]
        n = len(frf_frq)
        info = dict(frf_frq=list(frf_frq), srs_frq=list(srs_frq), Q=Q, cplx=cplx)
        if cplx:
            re, im = [z3.Real("re%d" % i) for i in range(n)], [z3.Real("im%d" % i) for i in range(n)]
            for v in re + im:
                eng.assume(z3.And(v >= -1, v <= 1))
            frf = np.array([S.SymC(re[i], im[i]) for i in range(n)], dtype=object)
            mag = []
            for i in range(n):
                r = eng.fresh("mag")
                eng.assume(z3.And(r >= 0, r * r == re[i] * re[i] + im[i] * im[i]))
                mag.append(r)
        else:
            mag = [z3.Real("m%d" % i) for i in range(n)]
            for v in mag:
                eng.assume(z3.And(v >= 0, v <= 1))
            frf = np.array([NonNeg(v) for v in mag], dtype=object)
        try:
            shk = f(frf, np.array(frf_frq, float), np.array(srs_frq, float), Q)
        except E.Inconclusive:
            raise
        except Exception as ex:
            import traceback
            return [E.Obl("srs_frf raises %r (%s)" % (ex, traceback.format_exc()[-300:]), False, info=info)]
        eng.tag("frf-complex" if cplx else "frf")
        ff, T = _frf_ref(frf_frq, srs_frq, Q)

        def at(v):      # magnitude of the FRF, linearly interpolated between its lines, zero outside
            if v < frf_frq[0] or v > frf_frq[-1]:
                return z3.RealVal(0)
            i = max(0, min(int(np.searchsorted(frf_frq, v, side="right")) - 1, n - 2))
            w = Fraction(float(v) - float(frf_frq[i])) / Fraction(float(frf_frq[i + 1]) - float(frf_frq[i]))
            return mag[i] + (mag[i + 1] - mag[i]) * z3.RealVal(w)
        eps = z3.RealVal("1e-9")
        obls = [E.Obl("srs_frf: one value per analysis frequency", np.shape(shk) == (len(srs_frq), 1), info=info)]
        if np.shape(shk) != (len(srs_frq), 1):
            return obls
        for k in range(len(srs_frq)):
            cands = [z3.RealVal(Fraction(int(t * mp.mpf(10) ** 30), 10 ** 30)) * at(v) for t, v in zip(T[k], ff)]
            g = shk[k, 0]
            g2 = g.of if isinstance(g, S.SymRoot) else S.lift(g) * S.lift(g)
            for c, v in zip(cands, ff):
                obls.append(E.Obl("srs_frf[%g Hz] is at least the oscillator's response to the FRF magnitude at %.6g Hz" % (srs_frq[k], v), g2 >= c * c * (1 - eps), info=info))
            obls.append(E.Obl("srs_frf[%g Hz] is the largest of |H(f/fn)| interp(|FRF|)(f) over the analysis frequencies" % srs_frq[k], z3.Or([g2 <= c * c * (1 + eps) for c in cands]), info=info))
        return obls
    return fn


def replay_frf(p):
    import pyyeti.srs as srs
    mdl = p["model"]
    n = len(p["frf_frq"])
    g = lambda k: float(Fraction(mdl.get(k, 0) or 0))
    if p["cplx"]:
        frf = np.array([complex(g("re%d" % i), g("im%d" % i)) for i in range(n)])
    else:
        frf = np.array([g("m%d" % i) for i in range(n)])
    got = srs.srs_frf(frf, np.array(p["frf_frq"]), np.array(p["srs_frq"]), p["Q"])
    ff, T = _frf_ref(p["frf_frq"], p["srs_frq"], p["Q"])
    m = np.interp(ff, p["frf_frq"], np.abs(frf), left=0, right=0)
    msgs = []
    for k, fn_ in enumerate(p["srs_frq"]):
        want = max(float(t) * mv for t, mv in zip(T[k], m))
        if abs(got[k, 0] - want) > 1e-6 * max(want, 1e-12):
            msgs.append("srs_frf(%s at %s Hz, Q=%g)[%g Hz] = %r, max over f of |H(f/fn)| interp(|frf|)(f) = %r" % (frf.tolist(), p["frf_frq"], p["Q"], fn_, got[k, 0], want))
    if msgs:
        return True, "; ".join(msgs[:2])
    return False, "srs_frf fine on the real code"


def job_frf(frf_frq, srs_frq, Q, cplx):
    eng = E.Engine(obl_timeout_ms=120000, tactic="qfnra-nlsat")
    eng.obl_mode = "each"
    res = eng.explore(frf_fn(frf_frq, srs_frq, Q, cplx), max_cex=3)
    res["note"] = "srs_frf lines=%s srs_frq=%s Q=%g complex=%s" % (frf_frq, srs_frq, Q, cplx)

    def payload(c):
        d = dict((c.get("info") or [{}])[0])
        d["model"] = c["model"]
        return d
    H.triage(res, "frf", replay_frf, payload)
    return res


REPLAY["frf"] = replay_frf


# ---------------------------------------------------------------------------
# vrs and its Miles estimate: symbolic PSD values on a concrete, non-uniform integration grid

def _vrs_ref(freq, Fn, Q):
    """per analysis frequency fn the exact weights w_i = (1 + (p_i/Q)^2) / ((1 - p_i^2)^2 + (p_i/Q)^2) * dfreq_i, p_i = freq_i/fn,
    dfreq_i the width of the band centred on freq_i (half the distance between its neighbours; the first and the last
    band take the full first / last step, as the function's 'delta_f for area calculation' block states)"""
    import mpmath as mp
    mp.mp.dps = 40
    f = [mp.mpf(float(x)) for x in freq]
    n = len(f)
    d = [f[1] - f[0]] + [(f[k + 1] - f[k - 1]) / 2 for k in range(1, n - 1)] + [f[-1] - f[-2]]
    W = []
    for fn_ in Fn:
        row = []
        for k in range(n):
            p_ = f[k] / mp.mpf(float(fn_))
            row.append((1 + (p_ / Q) ** 2) / ((1 - p_ ** 2) ** 2 + (p_ / Q) ** 2) * d[k])
        W.append(row)
    return W


def vrs_fn(freq, Fn, Q, ncol, getresp):
    """PSD given on the integration grid itself (linear interpolation reproduces it), ncol = 0: the 1d second form of spec"""
    def fn(eng):
        import mpmath as mp
        S.set_engine(eng)
        import pyyeti.srs as srs
        import pyyeti.psd as psdm
        pf = rebind([psdm.proc_psd_spec, psdm.interp], dict(np=NPF(), interp1d=_Interp1d))
        psd_mod = types.SimpleNamespace(proc_psd_spec=pf["proc_psd_spec"], interp=pf["interp"])
        f = rebind([srs.vrs], dict(np=NPF(), interp=_InterpMod, psd=psd_mod))["vrs"]
        n, nc = len(freq), max(ncol, 1)
        info = dict(freq=list(freq), Fn=None if Fn is None else list(Fn), Q=Q, ncol=ncol, getresp=getresp)
        P = [[z3.Real("P%d_%d" % (i, j)) for j in range(nc)] for i in range(n)]
        for row in P:
            for v in row:
                eng.assume(z3.And(v >= 0, v <= 1))
        PS = np.empty((n, nc), dtype=object)
        for i in range(n):
            for j in range(nc):
                PS[i, j] = NonNeg(P[i][j])
        fr = np.array(freq, float)
        try:
            import warnings
            with warnings.catch_warnings():
                warnings.simplefilter("ignore", RuntimeWarning)     # the step-size warning (coarse grids on purpose)
                out = f((fr, PS if ncol else PS[:, 0]), fr, Q, True, Fn=None if Fn is None else np.array(Fn, float), getmiles=True, getresp=getresp)
        except E.Inconclusive:
            raise
        except Exception as ex:
            import traceback
            return [E.Obl("vrs raises %r (%s)" % (ex, traceback.format_exc()[-300:]), False, info=info)]
        eng.tag("vrs")
        z, zm = out[0], out[1]
        FN = list(freq) if Fn is None else list(Fn)
        shape = (len(FN), ncol) if ncol else (len(FN),)
        obls = [E.Obl("vrs: one value per analysis frequency and PSD", np.shape(z) == shape and np.shape(zm) == shape, info=info)]
        if np.shape(z) != shape or np.shape(zm) != shape:
            return obls
        z = np.asarray(z, dtype=object).reshape(len(FN), nc)
        zm = np.asarray(zm, dtype=object).reshape(len(FN), nc)
        # the integration grid is `freq` merged with Fn; the PSD there is the linear interpolation of the specification
        G = sorted(set(float(x) for x in freq) | set(float(x) for x in FN))
        W = _vrs_ref(G, FN, Q)
        q = lambda t: z3.RealVal(Fraction(int(t * mp.mpf(10) ** 30), 10 ** 30))

        def pint(v, j):
            i0 = max(0, min(int(np.searchsorted(freq, v, side="right")) - 1, n - 2))
            w = Fraction(float(v) - float(freq[i0])) / Fraction(float(freq[i0 + 1]) - float(freq[i0]))
            return P[i0][j] + (P[i0 + 1][j] - P[i0][j]) * z3.RealVal(w)
        eps = z3.RealVal("1e-9")
        sq = lambda g: g.of if isinstance(g, S.SymRoot) else S.lift(g) * S.lift(g)
        for k, fn_ in enumerate(FN):
            for j in range(nc):
                ref = z3.Sum([q(W[k][i]) * pint(G[i], j) for i in range(len(G))])
                g2 = sq(z[k, j])
                obls.append(E.Obl("vrs[%g Hz, PSD %d]^2 = sum_i |H(freq_i/fn)|^2 PSD(freq_i) dfreq_i" % (fn_, j), z3.And(g2 >= ref * (1 - eps), g2 <= ref * (1 + eps)), info=info))
                # Miles: pi/2 fn Q PSD(fn), PSD(fn) linearly interpolated on the grid
                pfn = pint(fn_, j)
                mref = q(mp.pi / 2 * mp.mpf(float(fn_)) * Q) * pfn
                m2 = sq(zm[k, j])
                obls.append(E.Obl("Miles estimate[%g Hz, PSD %d]^2 = pi/2 fn Q PSD(fn)" % (fn_, j), z3.And(m2 >= mref * (1 - eps), m2 <= mref * (1 + eps)), info=info))
        return obls
    return fn


def replay_vrs(p):
    import pyyeti.srs as srs
    mdl = p["model"]
    freq, Fn, Q, ncol = p["freq"], p["Fn"], p["Q"], p["ncol"]
    n, nc = len(freq), max(ncol, 1)

    def g(k, d):
        try:
            return float(Fraction(mdl[k]))
        except Exception:
            return d
    msgs = []
    for attempt in (0, 1):
        P = np.array([[g("P%d_%d" % (i, j), 0.0) if attempt == 0 else 0.2 + 0.1 * ((i * 7 + j * 3) % 5) for j in range(nc)] for i in range(n)])
        fr = np.array(freq, float)
        import warnings
        with warnings.catch_warnings():
            warnings.simplefilter("ignore", RuntimeWarning)
            out = srs.vrs((fr, P if ncol else P[:, 0]), fr, Q, True, Fn=None if Fn is None else np.array(Fn, float), getmiles=True, getresp=p["getresp"])
        z = np.asarray(out[0], float).reshape(-1, nc)
        zm = np.asarray(out[1], float).reshape(-1, nc)
        FN = freq if Fn is None else Fn
        G = sorted(set(float(x) for x in freq) | set(float(x) for x in FN))
        W = _vrs_ref(G, FN, Q)
        for k, fn_ in enumerate(FN):
            for j in range(nc):
                want = float(sum(W[k][i] * float(np.interp(G[i], freq, P[:, j])) for i in range(len(G))))
                if abs(z[k, j] ** 2 - want) > 1e-7 * max(want, 1e-12):
                    msgs.append("vrs(freq=%s, PSD=%s, Q=%g)[%g Hz]^2 = %r, sum_i |H|^2 PSD dfreq (centred band widths) = %r" % (freq, P[:, j].tolist(), Q, fn_, z[k, j] ** 2, want))
                pfn = float(np.interp(fn_, freq, P[:, j]))
                wantm = np.pi / 2 * fn_ * Q * pfn
                if abs(zm[k, j] ** 2 - wantm) > 1e-7 * max(wantm, 1e-12):
                    msgs.append("Miles estimate(freq=%s, PSD=%s, Q=%g)[%g Hz]^2 = %r, pi/2 fn Q PSD(fn) = %r" % (freq, P[:, j].tolist(), Q, fn_, zm[k, j] ** 2, wantm))
        if msgs:
            return True, "; ".join(msgs[:2])
    return False, "vrs fine on the real code"


def job_vrs(freq, Fn, Q, ncol, getresp):
    eng = E.Engine(obl_timeout_ms=120000)
    eng.obl_mode = "each"
    res = eng.explore(vrs_fn(freq, Fn, Q, ncol, getresp), max_cex=3)
    res["note"] = "vrs freq=%s Fn=%s Q=%g ncol=%d getresp=%s" % (freq, Fn, Q, ncol, getresp)

    def payload(c):
        d = dict((c.get("info") or [{}])[0])
        d["model"] = c["model"]
        return d
    H.triage(res, "vrs", replay_vrs, payload)
    return res


REPLAY["vrs"] = replay_vrs


def job_validate():
    bad = validate_lfilter()
    r = dict(paths=0, obligations=0, unsat=0, note="lfilter model vs scipy.signal.lfilter on 20 random filters: %d mismatches" % bad)
    if bad:
        r["crashed"] = True
        r["errors"] = ["lfilter model mismatch"]
    return r


def jobs(tier, seed):
    q = tier == "quick"
    out = [H.Job("validate-lfilter", job_validate, weight=1)]
    sr = 1000.0
    grid = [(5, 10.0), (0.51, 2.5), (50, 100.0), (5, 2000.0)] if q else [(Q, r) for Q in (0.51, 5, 50) for r in (2.5, 10.0, 100.0, 2000.0)]
    allc = [(s, ic, t) for s in STYPES for ic in ICS for t in TIMES]
    for gi, (Q, ratio) in enumerate(grid):
        fn = sr / ratio
        tol = 1e-6 if ratio > 500 else 1e-9
        freqs = (0.0, fn) if gi % 2 == 0 else (fn, 0.4 * fn)
        if ratio > 500:
            freqs = (fn,) if q else (fn, 2 * fn)
        # the padded cycle is ceil(sr/minf) samples: keep it short in the quick tier
        combos = []
        for k, (s, ic, t) in enumerate(allc):
            if q and (k + gi + seed) % 4 and not (ratio <= 10):
                continue
            if ratio > 10 and t != "primary":
                continue     # the appended cycle is ceil(sr/fn) samples: total/residual windows only for sr/fn <= 10
            combos.append((s, ic, t, PEAKS[(k + gi) % len(PEAKS)], False))   # eqsine is the identity kernel's subject
        chunks = [combos[i::6] for i in range(6)]
        for ci, ch in enumerate(chunks):
            if ch:
                out.append(H.Job("hist-Q%g-r%g-%d" % (Q, ratio, ci), job_hist, Q, sr, freqs, 3 if ratio <= 100 else 2, 2 if ratio <= 10 else 1, ch, tol, weight=len(ch) * (10 if ratio > 10 else 3)))
    out.append(H.Job("identities", job_ident, 10, sr, (100.0, 250.0), 3, weight=30))
    fr = [([10.0, 20.0], [12.0], 10, False), ([10.0, 20.0], [12.0], 10, True), ([5.0, 10.0, 20.0], [8.0], 25, True), ([5.0, 10.0, 20.0], [4.0, 15.0], 25, False)]
    if not q:
        fr += [([10.0, 20.0], [30.0], 5, True), ([5.0, 10.0, 20.0], [12.0], 10, True), ([5.0, 10.0, 20.0, 40.0], [25.0], 25, False)]
    for a in fr:
        out.append(H.Job("frf-%s-%s-%g-%s" % a, job_frf, *a, weight=20))
    # vrs: (integration grid [non-uniform], Fn or None, Q, PSD columns [0: 1d form], getresp)
    for a in [((10.0, 12.0, 15.0, 20.0, 28.0, 40.0), None, 10.0, 0, False), ((10.0, 12.0, 15.0, 20.0, 28.0, 40.0), (15.0, 24.0), 5.0, 2, True)] + \
            ([] if q else [((5.0, 6.0, 8.0, 11.0, 15.0, 20.0, 30.0, 45.0), (8.0, 12.5, 30.0), 25.0, 1, False), ((1.0, 2.0, 4.0, 8.0, 16.0), None, 0.75, 2, True)]):
        out.append(H.Job("vrs-%d-%s-%g-%d-%s" % (len(a[0]), "grid" if a[1] is None else len(a[1]), a[2], a[3], a[4]), job_vrs, *a, weight=10))
    if not q:
        out.append(H.Job("identities-2", job_ident, 0.6, sr, (40.0, 400.0), 4, weight=60))
    return out


def extra_coverage(results):
    import pyyeti.srs as m
    fns = [m.srs, m._process_ic, m._add_one_cycle, m._process_inputs, m.absacce, m.relacce, m.reldisp, m.relvelo, m.pvelo, m.pacce,
           m._absmeth, m._posmeth, m._possmeth, m._negmeth, m._negsmeth, m._rmsmeth]
    return dict(functions_encoded=[H.fn_id(f) for f in fns + [m.srs_frf]])
