"""C14 - rigid-body geometry and rectangular coordinate maps: rbgeom / rbmove
describe true rigid motions and are reference-point consistent; a location
entered in a rectangular system and queried back is the same point."""
import itertools
from fractions import Fraction

import numpy as np
import z3

from vsym import sym as S
from vsym import engine as E
from vsym import harness as H
from vsym.npproxy import NPProxy, rebind, has_sym

PID = "C14"

META = dict(
    level="other",
    stubs=["getcoordinates (cylindrical / spherical): math.atan2(a, b) -> an angle symbol t with side conditions a = rho sin t, b = rho cos t, rho > 0, sin^2 + cos^2 = 1 (sin t, cos t, rho symbols); "
           "math.sin / math.cos of that angle -> those symbols; of any other angle term -> one (sin, cos) symbol pair on the unit circle per distinct term; math.hypot / linalg.norm -> non-negative root symbols",
           "mkusetcoordinfo: linalg.norm -> non-negative root symbol with its defining square; np.cross -> written out on object arrays; .astype(float) on symbolic values -> identity (AST hook)",
           "np.zeros in rbgeom -> object array", "mkusetcoordinfo in getcoordinates -> returns the symbolic 5x3 coordinate-system record (origin + orthonormal transform) of the harness"],
    outside=["values of the trigonometric functions (angles are compared through their sines and cosines, i.e. modulo 360 degrees); curvilinear systems with a non-identity transform or as *reference* systems of mkusetcoordinfo", "mkusetcoordinfo: y and x axes of the A-B-C construction (nested root symbols: unknown from nlsat at 15 s), cylindrical / spherical reference systems, lookup by id in a USET table; build_coords / addgrid chains (pandas)",
             "rbgeom_uset (DataFrame), rbcoords, formrbe3 (least squares / LU), replace_basic_cs (raises on this NumPy: its two tests are baseline failures)"],
    assumptions=["curvilinear inverse maps: identity transform at the origin, point in [-10, 10]^3 at least 0.01 off the polar axis",
                 "curvilinear round trip: 0.1 <= r <= 10, angles in [-360, 360] degrees, spherical polar angle with sin(theta) >= 0.01",
                 "grid coordinates, reference points, rigid motion parameters in [-10, 10]; rectangular transform T from a list of five exact rational rotation matrices (the fully symbolic orthonormal T was inconclusive in nlsat), origin and point symbolic"],
    reach_required=["cylindrical", "spherical", "cylindrical-roundtrip", "spherical-roundtrip", "coordinfo", "coordinfo-identity-ref", "rbgeom-shift", "rbgeom-noshift", "rbgeom-partial-zero-ref", "rbgeom-gridref", "rbmove", "rect-roundtrip"],
    trusted_base=["z3 5.1 (nlsat)"],
)


def _n2p():
    import pyyeti.nastran.n2p as n2p
    return n2p


def _vec(name, n):
    return [z3.Real("%s%d" % (name, i)) for i in range(n)]


def _cross(a, b):
    return [a[1] * b[2] - a[2] * b[1], a[2] * b[0] - a[0] * b[2], a[0] * b[1] - a[1] * b[0]]


def rbgeom_fn(ngrid, refmode):
    """refmode: 'xyz' (symbolic reference location), 'zero' (default origin), 'grid' (reference = grid index)"""
    def fn(eng):
        S.set_engine(eng)
        n2p = _n2p()
        f = rebind([n2p.rbgeom, n2p.rbmove], dict(np=NPProxy()))
        g = [[z3.Real("g%d_%d" % (i, k)) for k in range(3)] for i in range(ngrid)]
        ref = _vec("ref", 3)
        t, w = _vec("t", 3), _vec("w", 3)
        for v in [x for row in g for x in row] + ref + t + w:
            eng.assume(z3.And(v >= -10, v <= 10))
        grids = np.array([[S.SymR(x) for x in row] for row in g], dtype=object)
        info = dict(ngrid=ngrid, refmode=refmode)
        try:
            if refmode == "xyz":
                rb = f["rbgeom"](grids, np.array([S.SymR(x) for x in ref], dtype=object))
                r0 = ref
            elif refmode == "zero":
                rb = f["rbgeom"](grids)
                r0 = [z3.RealVal(0)] * 3
            else:
                rb = f["rbgeom"](grids, ngrid - 1)
                r0 = g[ngrid - 1]
        except E.Inconclusive:
            raise
        except Exception as ex:
            import traceback
            return [E.Obl("rbgeom raises %r (%s)" % (ex, traceback.format_exc()[-300:]), False, info=info)]
        if refmode == "xyz":
            nz = [eng.decide(x != 0) for x in ref]
            eng.tag("rbgeom-shift" if all(nz) else ("rbgeom-noshift" if not any(nz) else "rbgeom-partial-zero-ref"))
        elif refmode == "grid":
            eng.tag("rbgeom-gridref")
        else:
            eng.tag("rbgeom-noshift")
        obls = [E.Obl("rbgeom: shape (6 ngrid) x 6", np.shape(rb) == (6 * ngrid, 6), info=info)]
        if np.shape(rb) != (6 * ngrid, 6):
            return obls
        # a rigid motion (translation t, small rotation w about the reference point)
        for i in range(ngrid):
            r = [g[i][k] - r0[k] for k in range(3)]
            wxr = _cross(w, r)
            for a in range(3):
                u = z3.Sum([S.lift(rb[6 * i + a, c]) * (t + w)[c] for c in range(6)])
                obls.append(E.Obl("rbgeom: grid %d translation %d = t + w x (r - ref)" % (i, a), u == t[a] + wxr[a], info=info))
                th = z3.Sum([S.lift(rb[6 * i + 3 + a, c]) * (t + w)[c] for c in range(6)])
                obls.append(E.Obl("rbgeom: grid %d rotation %d = w" % (i, a), th == w[a], info=info))
        if refmode == "xyz":
            # reference-point consistency: rbmove(rbgeom(g, p0), p0, p1) == rbgeom(g, p1)
            p1 = _vec("newref", 3)
            for v in p1:
                eng.assume(z3.And(v >= -10, v <= 10))
            try:
                p0a = np.array([S.SymR(x) for x in ref], dtype=object)
                p1a = np.array([S.SymR(x) for x in p1], dtype=object)
                moved = f["rbmove"](rb, p0a, p1a)
                direct = f["rbgeom"](grids, p1a)
            except E.Inconclusive:
                raise
            except Exception as ex:
                return obls + [E.Obl("rbmove raises %r" % (ex,), False, info=info)]
            eng.tag("rbmove")
            for idx in np.ndindex(6 * ngrid, 6):
                obls.append(E.Obl("rbmove(rbgeom(g, p0), p0, p1) == rbgeom(g, p1) %s" % (idx,), S.lift(moved[idx]) == S.lift(direct[idx]), info=info))
        return obls
    return fn


def replay_rbgeom(p):
    n2p = _n2p()
    mdl = p["model"]
    gf = lambda k: float(Fraction(mdl.get(k, 0) or 0))
    ng = p["ngrid"]
    grids = np.array([[gf("g%d_%d" % (i, k)) for k in range(3)] for i in range(ng)])
    ref = np.array([gf("ref%d" % k) for k in range(3)])
    new = np.array([gf("newref%d" % k) for k in range(3)])
    if p["refmode"] == "xyz":
        rb = n2p.rbgeom(grids, ref)
        r0 = ref
    elif p["refmode"] == "zero":
        rb = n2p.rbgeom(grids)
        r0 = np.zeros(3)
    else:
        rb = n2p.rbgeom(grids, ng - 1)
        r0 = grids[ng - 1]
    want = np.zeros((6 * ng, 6))
    for i in range(ng):
        r = grids[i] - r0
        want[6 * i:6 * i + 3, :3] = np.eye(3)
        want[6 * i + 3:6 * i + 6, 3:] = np.eye(3)
        want[6 * i:6 * i + 3, 3:] = -np.array([[0, -r[2], r[1]], [r[2], 0, -r[0]], [-r[1], r[0], 0]])
    if not np.allclose(rb, want, atol=1e-12):
        return True, "rbgeom(%r, ref=%r): modes are not the rigid motion about the reference point (max difference %.3e)" % (grids.tolist(), r0.tolist(), abs(rb - want).max())
    if p["refmode"] == "xyz":
        mv = n2p.rbmove(rb, ref, new)
        if not np.allclose(mv, n2p.rbgeom(grids, new), atol=1e-9):
            return True, "rbmove(rbgeom(g, %r), ., %r) != rbgeom(g, %r)" % (ref.tolist(), new.tolist(), new.tolist())
    return False, "rbgeom/rbmove fine on the real code"


def _rot(q):
    """exact rational rotation matrix of the integer quaternion q"""
    a, b, c, d = [Fraction(x) for x in q]
    n = a * a + b * b + c * c + d * d
    return [[(a * a + b * b - c * c - d * d) / n, 2 * (b * c - a * d) / n, 2 * (b * d + a * c) / n],
            [2 * (b * c + a * d) / n, (a * a - b * b + c * c - d * d) / n, 2 * (c * d - a * b) / n],
            [2 * (b * d - a * c) / n, 2 * (c * d + a * b) / n, (a * a - b * b - c * c + d * d) / n]]


QUATS = [(1, 0, 0, 0), (1, 2, 2, 4), (3, -1, 2, 5), (0, 1, 1, 0), (2, 3, -6, 1)]


def rect_fn(qi):
    def fn(eng):
        S.set_engine(eng)
        n2p = _n2p()
        # the general statement with a symbolic orthonormal T (T^T T = I as constraints) came back
        # `unknown` from nlsat at 120 s for two of its three components; T is therefore taken from a
        # list of exact rational rotation matrices, origin and point stay symbolic
        Tq = _rot(QUATS[qi])
        o, a = _vec("o", 3), _vec("a", 3)
        for v in o + a:
            eng.assume(z3.And(v >= -10, v <= 10))
        ci = np.empty((5, 3), dtype=object)
        ci[0] = [np.float64(7), np.float64(1), np.float64(0)]
        ci[1] = [S.SymR(x) for x in o]
        for i in range(3):
            ci[2 + i] = [Tq[i][j] for j in range(3)]
        info = dict(quat=list(QUATS[qi]))
        f = rebind([n2p._get_loc_a_basic, n2p.getcoordinates], dict(mkusetcoordinfo=lambda cs, uset, coordref: ci))
        try:
            loc = f["_get_loc_a_basic"](ci, np.array([S.SymR(x) for x in a], dtype=object))
            back = f["getcoordinates"](None, np.array([list(loc)], dtype=object), 7)
        except E.Inconclusive:
            raise
        except Exception as ex:
            import traceback
            return [E.Obl("rectangular map raises %r (%s)" % (ex, traceback.format_exc()[-300:]), False, info=info)]
        eng.tag("rect-roundtrip")
        obls = []
        for k in range(3):
            want = o[k] + z3.Sum([z3.RealVal(Tq[k][j]) * a[j] for j in range(3)])
            obls.append(E.Obl("location in basic = origin + T a [%d]" % k, S.lift(loc[k]) == want, info=info))
            obls.append(E.Obl("querying the point back in the same rectangular system returns the entered coordinates [%d]" % k, S.lift(np.ravel(back)[k]) == a[k], info=info))
        return obls
    return fn


def replay_rect(p):
    n2p = _n2p()
    rng = np.random.RandomState(2)
    Q, _ = np.linalg.qr(rng.randn(3, 3))
    o, a = rng.randn(3), rng.randn(3)
    ci = np.vstack(([7, 1, 0], o, Q))
    loc = n2p._get_loc_a_basic(ci, a)
    if not np.allclose(loc, o + Q @ a):
        return True, "_get_loc_a_basic: rectangular location is not origin + T a"
    return False, "rectangular map fine on the real code (round trip not replayed: getcoordinates needs a USET table)"


# ---------------------------------------------------------------------------
# mkusetcoordinfo: a rectangular system defined by points A, B, C given in a rectangular reference system

class NPC(NPProxy):
    """np stand-in for mkusetcoordinfo: cross products of object arrays written out (np.cross converts to float)"""

    def cross(self, a, b):
        a, b = np.asarray(a, dtype=object), np.asarray(b, dtype=object)
        return np.array([a[1] * b[2] - a[2] * b[1], a[2] * b[0] - a[0] * b[2], a[0] * b[1] - a[1] * b[0]], dtype=object)

    def array(self, a, dtype=None, **kw):
        return np.array(a, dtype=dtype, **kw) if dtype is object or not has_sym(a) else np.array(a, dtype=object)


class _Linalg:
    @staticmethod
    def norm(v):
        e = z3.Sum([S.lift(x) * S.lift(x) for x in v])
        return S.SymR(e).sqrt()


def coordinfo_fn(qi, ident_ref):
    def fn(eng):
        S.set_engine(eng)
        from vsym import astload
        n2p = _n2p()
        g = dict(n2p.mkusetcoordinfo.__globals__)
        g.update(np=NPC(), linalg=_Linalg)
        f = astload.load(n2p.mkusetcoordinfo, hooks=("astype",), globs=g)
        Tq = _rot(QUATS[0 if ident_ref else qi])
        o = _vec("o", 3)
        A, B, C = _vec("A", 3), _vec("B", 3), _vec("C", 3)
        for v in o + A + B + C:
            eng.assume(z3.And(v >= -10, v <= 10))
        ab = [B[k] - A[k] for k in range(3)]
        ac = [C[k] - A[k] for k in range(3)]
        n_ = _cross(ab, ac)
        # A, B, C span a plane (documented requirement of the A-B-C definition)
        eng.assume(z3.Sum([x * x for x in ab]) >= z3.RealVal("0.01"))
        eng.assume(z3.Sum([x * x for x in n_]) >= z3.RealVal("0.01"))
        ref = np.empty((5, 3), dtype=object)
        ref[0] = [5.0, 1.0, 0.0]
        ref[1] = [S.SymR(x) for x in o]
        for i in range(3):
            ref[2 + i] = [Tq[i][j] for j in range(3)]
        cord = np.empty((4, 3), dtype=object)
        cord[0] = [9, 1, 5]
        for r_, P in enumerate((A, B, C)):
            cord[1 + r_] = [S.SymR(x) for x in P]
        info = dict(kernel="coordinfo", quat=list(QUATS[0 if ident_ref else qi]))
        try:
            ci = f(cord, None, {5: ref})
        except E.Inconclusive:
            raise
        except Exception as ex:
            import traceback
            return [E.Obl("mkusetcoordinfo raises %r (%s)" % (ex, traceback.format_exc()[-300:]), False, info=info)]
        eng.tag("coordinfo-identity-ref" if ident_ref else "coordinfo")
        obls = [E.Obl("mkusetcoordinfo: 5 x 3 record with id and type", np.shape(ci) == (5, 3) and ci[0, 0] == 9 and ci[0, 1] == 1, info=info)]
        if np.shape(ci) != (5, 3):
            return obls
        Tg = [[z3.RealVal(Tq[i][j]) for j in range(3)] for i in range(3)]
        rot = lambda v: [z3.Sum([Tg[i][j] * v[j] for j in range(3)]) for i in range(3)]
        gab, gac, gn = rot(ab), rot(ac), rot(n_)
        T = [[S.lift(ci[2 + i, j]) for j in range(3)] for i in range(3)]
        col = lambda j: [T[i][j] for i in range(3)]
        dot = lambda u, v: z3.Sum([u[k] * v[k] for k in range(3)])
        for k in range(3):
            obls.append(E.Obl("origin in basic = reference origin + T_ref A [%d]" % k, S.lift(ci[1, k]) == o[k] + rot(A)[k], info=info))
        x, y, z = col(0), col(1), col(2)
        for k, c in enumerate(_cross(z, gab)):
            obls.append(E.Obl("z axis is parallel to A->B [%d]" % k, c == 0, info=info))
        obls.append(E.Obl("z axis points from A to B", dot(z, gab) > 0, info=info))
        obls.append(E.Obl("z axis has unit length", dot(z, z) == 1, info=info))
        # the y and x axes (normalised cross products of normalised vectors: nested root symbols) came back `unknown`
        # from both z3 cores at 15 s per obligation; they are outside the claim
        return obls
    return fn


def replay_coordinfo(p):
    n2p = _n2p()
    mdl = p["model"]
    gf = lambda k: float(Fraction(mdl.get(k, 0) or 0))
    o = np.array([gf("o%d" % k) for k in range(3)])
    A, B, C = [np.array([gf("%s%d" % (nm, k)) for k in range(3)]) for nm in "ABC"]
    Tq = np.array([[float(v) for v in row] for row in _rot(p["quat"])])
    if np.linalg.norm(np.cross(B - A, C - A)) < 1e-6:
        A, B, C = np.array([1.0, 2.0, 3.0]), np.array([2.0, 2.5, 3.0]), np.array([0.0, 4.0, 1.0])
    if not np.any(o):
        o = np.array([1.0, -2.0, 0.5])
    ref = np.vstack(([5, 1, 0], o, Tq))
    ci = n2p.mkusetcoordinfo(np.vstack(([9, 1, 5], A, B, C)), None, {5: ref})
    z = Tq @ (B - A)
    z /= np.linalg.norm(z)
    y = np.cross(z, Tq @ (C - A))
    y /= np.linalg.norm(y)
    x = np.cross(y, z)
    want = np.vstack(([9, 1, 0], o + Tq @ A, np.vstack((x, y, z)).T))
    if not np.allclose(ci, want, atol=1e-9):
        return True, "mkusetcoordinfo(A=%s, B=%s, C=%s in a rectangular reference system with origin %s): record differs from the geometric definition by %.3e (origin row %s, expected %s)" % (
            A.tolist(), B.tolist(), C.tolist(), o.tolist(), abs(ci - want).max(), ci[1].tolist(), want[1].tolist())
    return False, "mkusetcoordinfo fine on the real code"


# ---------------------------------------------------------------------------
# getcoordinates, cylindrical and spherical systems: the trigonometric functions are uninterpreted; what atan2 / sin /
# cos / hypot mean for the terms that occur is given as polynomial side conditions (sin^2 + cos^2 = 1, x = rho cos, y = rho sin)

ATAN2 = z3.Function("atan2", z3.RealSort(), z3.RealSort(), z3.RealSort())


class _Math:
    """stands for the module `math` inside getcoordinates"""
    pi = __import__("math").pi

    def __init__(self, eng):
        self.eng = eng
        self.angles = {}       # id of the angle symbol -> (sin symbol, cos symbol, rho symbol)
        self.calls = []        # (angle symbol, a, b) of every atan2(a, b)
        self.free = {}         # id of an angle term that is not an atan2 result -> (sin symbol, cos symbol, term)

    def atan2(self, a, b):
        a_, b_ = S.lift(a), S.lift(b)
        eng = self.eng
        t = eng.fresh("angle")          # the value of atan2(a, b): an angle symbol (the solver query stays free of uninterpreted functions)
        self.calls.append((t, a_, b_))
        sn, cs, rho = eng.fresh("sin"), eng.fresh("cos"), eng.fresh("rho")
        # for (b, a) != (0, 0): b = rho cos(t), a = rho sin(t), rho > 0, sin^2 + cos^2 = 1
        eng.assume(z3.And(rho > 0, sn * sn + cs * cs == 1, a_ == rho * sn, b_ == rho * cs))
        self.angles[t.get_id()] = (sn, cs, rho)
        return S.SymR(t)

    def _of(self, x):
        return self.angles.get(z3.simplify(S.lift(x)).get_id()) or self.angles.get(S.lift(x).get_id())

    def _pair(self, x):
        """(sin, cos) symbols of an angle term: those of the atan2 result, or a fresh pair on the unit circle per distinct term"""
        a = self._of(x)
        if a is not None:
            return a
        t = z3.simplify(S.lift(x))
        if t.get_id() not in self.free:
            sn, cs = self.eng.fresh("sin"), self.eng.fresh("cos")
            self.eng.assume(sn * sn + cs * cs == 1)
            self.free[t.get_id()] = (sn, cs, t)
        return self.free[t.get_id()]

    def sin(self, x):
        return S.SymR(self._pair(x)[0])

    def cos(self, x):
        return S.SymR(self._pair(x)[1])

    def hypot(self, a, b):
        eng = self.eng
        r = eng.fresh("hyp")
        eng.assume(z3.And(r >= 0, r * r == S.lift(a) * S.lift(a) + S.lift(b) * S.lift(b)))
        return S.SymR(r)


def curvi_fn(ctype):
    def fn(eng):
        S.set_engine(eng)
        from vsym import astload
        n2p = _n2p()
        mth = _Math(eng)
        g = dict(n2p.getcoordinates.__globals__)
        x, y, zc = z3.Real("x"), z3.Real("y"), z3.Real("z")
        for v in (x, y, zc):
            eng.assume(z3.And(v >= -10, v <= 10))
        # off the polar axis (the angle about it is undefined there)
        eng.assume(x * x + y * y >= z3.RealVal("0.0001"))
        ci = np.empty((5, 3), dtype=object)
        ci[0] = [np.float64(7), np.float64(ctype), np.float64(0)]
        ci[1] = [0.0, 0.0, 0.0]
        ci[2:] = [[1.0, 0.0, 0.0], [0.0, 1.0, 0.0], [0.0, 0.0, 1.0]]
        g.update(math=mth, linalg=_Linalg, mkusetcoordinfo=lambda cs, uset, coordref: ci, np=NPC())
        f = astload.load(n2p.getcoordinates, hooks=("astype",), globs=g)
        info = dict(kernel="curvi", ctype=ctype)
        try:
            out = f(None, np.array([[S.SymR(x), S.SymR(y), S.SymR(zc)]], dtype=object), 7)
        except E.Inconclusive:
            raise
        except ZeroDivisionError as ex:
            return [E.Obl("getcoordinates divides by zero: %r" % (ex,), False, info=info)]
        except Exception as ex:
            import traceback
            return [E.Obl("getcoordinates raises %r (%s)" % (ex, traceback.format_exc()[-300:]), False, info=info)]
        eng.tag("cylindrical" if ctype == 2 else "spherical")
        out = np.ravel(out)
        obls = [E.Obl("getcoordinates: three coordinates", len(out) == 3, info=info)]
        if len(out) != 3:
            return obls
        deg = lambda t: t * 180 / z3.RealVal(Fraction(_Math.pi))
        R, a1, a2 = [S.lift(v) for v in out]
        calls = mth.calls
        if ctype == 2:
            obls.append(E.Obl("cylindrical: R is the distance from the axis", z3.And(R >= 0, R * R == x * x + y * y), info=info))
            ok = len(calls) == 1
            obls.append(E.Obl("cylindrical: one atan2", ok, info=info))
            if ok:
                obls.append(E.Obl("cylindrical: theta = atan2(y, x) in degrees", z3.And(a1 == deg(calls[0][0]), calls[0][1] == y, calls[0][2] == x), info=info))
            obls.append(E.Obl("cylindrical: z unchanged", a2 == zc, info=info))
            return obls
        obls.append(E.Obl("spherical: R is the distance from the origin", z3.And(R >= 0, R * R == x * x + y * y + zc * zc), info=info))
        ok = len(calls) == 2
        obls.append(E.Obl("spherical: two atan2", ok, info=info))
        if not ok:
            return obls
        obls.append(E.Obl("spherical: phi = atan2(y, x) in degrees", z3.And(a2 == deg(calls[0][0]), calls[0][1] == y, calls[0][2] == x), info=info))
        # theta = atan2(rho, z) with rho the distance from the polar axis, however the code gets at rho
        sn, cs, rho = mth.angles[calls[0][0].get_id()]
        obls.append(E.Obl("spherical: theta = atan2(distance from the polar axis, z) in degrees (the quotient y/sin(phi) or x/cos(phi) "
                          "the code forms is that distance: its divisor is not zero)", z3.And(a1 == deg(calls[1][0]), calls[1][1] == rho, calls[1][2] == zc), info=info))
        return obls
    return fn



def curvi_rt_fn(ctype):
    """entered (r, theta[, phi]) -> basic -> queried back: same radius, same angles (their sines and cosines)"""
    def fn(eng):
        S.set_engine(eng)
        from vsym import astload
        n2p = _n2p()
        mth = _Math(eng)
        r, t1, t2 = z3.Real("r"), z3.Real("ang1"), z3.Real("ang2")
        eng.assume(z3.And(r >= z3.RealVal("0.1"), r <= 10, t1 >= -360, t1 <= 360, t2 >= -360, t2 <= 360))
        ci = np.empty((5, 3), dtype=object)
        ci[0] = [np.float64(7), np.float64(ctype), np.float64(0)]
        ci[1] = [0.0, 0.0, 0.0]
        ci[2:] = [[1.0, 0.0, 0.0], [0.0, 1.0, 0.0], [0.0, 0.0, 1.0]]
        g = dict(n2p.getcoordinates.__globals__)
        g.update(math=mth, linalg=_Linalg, mkusetcoordinfo=lambda cs, uset, coordref: ci, np=NPC())
        fwd = astload.load(n2p._get_loc_a_basic, hooks=("astype",), globs=g)
        inv = astload.load(n2p.getcoordinates, hooks=("astype",), globs=g)
        info = dict(kernel="curvi-rt", ctype=ctype)
        a = np.array([S.SymR(r), S.SymR(t1), S.SymR(t2)], dtype=object)
        try:
            loc = fwd(ci, a)
        except E.Inconclusive:
            raise
        except Exception as ex:
            import traceback
            return [E.Obl("_get_loc_a_basic raises %r (%s)" % (ex, traceback.format_exc()[-300:]), False, info=info)]
        a2r = z3.RealVal(Fraction(_Math.pi / 180.0))
        pairs = {z3.simplify(v[2]).get_id(): v for v in mth.free.values()}
        p1 = mth.free.get(z3.simplify(t1 * a2r).get_id())
        obls = []
        x, y, zc = [S.lift(v) for v in loc]
        if ctype == 2:
            obls.append(E.Obl("cylindrical forward map: the trigonometric functions are taken of theta in radians (one angle)", p1 is not None and len(mth.free) == 1, info=info))
            if p1 is None:
                return obls
            s1, c1, _ = p1
            obls.append(E.Obl("cylindrical forward map: x = r cos(theta), y = r sin(theta), z = z", z3.And(x == r * c1, y == r * s1, zc == t2), info=info))
        else:
            p2 = mth.free.get(z3.simplify(t2 * a2r).get_id())
            obls.append(E.Obl("spherical forward map: the trigonometric functions are taken of theta and phi in radians", p1 is not None and p2 is not None and len(mth.free) == 2, info=info))
            if p1 is None or p2 is None:
                return obls
            s1, c1, _ = p1
            s2, c2, _ = p2
            obls.append(E.Obl("spherical forward map: x = r sin(theta) cos(phi), y = r sin(theta) sin(phi), z = r cos(theta)",
                              z3.And(x == r * s1 * c2, y == r * s1 * s2, zc == r * c1), info=info))
            eng.assume(s1 >= z3.RealVal("0.01"))        # 0 < theta < 180: off the polar axis
        eng.tag("cylindrical-roundtrip" if ctype == 2 else "spherical-roundtrip")
        try:
            back = np.ravel(inv(None, np.array([list(loc)], dtype=object), 7))
        except E.Inconclusive:
            raise
        except Exception as ex:
            import traceback
            return obls + [E.Obl("getcoordinates raises %r (%s)" % (ex, traceback.format_exc()[-300:]), False, info=info)]
        R = S.lift(back[0])
        obls.append(E.Obl("round trip: the radius entered is returned", R == r, info=info))
        calls = mth.calls
        if ctype == 2:
            ok = len(calls) == 1
            obls.append(E.Obl("round trip: one atan2", ok, info=info))
            if ok:
                sn, cs, _ = mth.angles[calls[0][0].get_id()]
                obls.append(E.Obl("round trip: the returned angle has the sine and cosine of the entered one (same angle modulo 360 degrees)",
                                  z3.And(sn == s1, cs == c1, S.lift(back[1]) == calls[0][0] * 180 / z3.RealVal(Fraction(_Math.pi))), info=info))
            obls.append(E.Obl("round trip: z returned", S.lift(back[2]) == t2, info=info))
        else:
            ok = len(calls) == 2
            obls.append(E.Obl("round trip: two atan2", ok, info=info))
            if ok:
                sn, cs, _ = mth.angles[calls[0][0].get_id()]
                obls.append(E.Obl("round trip: the returned azimuth has the sine and cosine of the entered phi", z3.And(sn == s2, cs == c2), info=info))
                sn2, cs2, _ = mth.angles[calls[1][0].get_id()]
                obls.append(E.Obl("round trip: the returned polar angle has the sine and cosine of the entered theta", z3.And(sn2 == s1, cs2 == c1), info=info))
        return obls
    return fn


def replay_curvi(p):
    import math
    n2p = _n2p()
    mdl = p["model"]
    gf = lambda k: float(Fraction(mdl.get(k, 0) or 0))
    pts = [np.array([gf("x"), gf("y"), gf("z")])]
    # the model fixes signs / zero pattern; the angles it names are also tried exactly on the axes
    pts += [np.array([-2.0, 0.0, 1.0]), np.array([0.0, -3.0, 1.0]), np.array([0.0, 2.0, -1.0]), np.array([1.0, 1.0, 1.0])]
    ci = np.vstack(([7, p["ctype"], 0], np.zeros(3), np.eye(3)))
    msgs = []
    for q in pts:
        if q[0] == 0 and q[1] == 0:
            continue
        got = n2p.getcoordinates(None, q.reshape(1, 3), 7, {7: ci})
        if p["ctype"] == 2:
            want = [math.hypot(q[0], q[1]), math.degrees(math.atan2(q[1], q[0])), q[2]]
        else:
            want = [np.linalg.norm(q), math.degrees(math.atan2(math.hypot(q[0], q[1]), q[2])), math.degrees(math.atan2(q[1], q[0]))]
        if not np.allclose(np.ravel(got), want, atol=1e-9):
            msgs.append("getcoordinates(%s) in a %s system = %s, expected %s" % (q.tolist(), "cylindrical" if p["ctype"] == 2 else "spherical", np.ravel(got).tolist(), want))
    if msgs:
        return True, "; ".join(msgs[:2])
    return False, "getcoordinates fine on the real code"



def replay_curvi_rt(p):
    n2p = _n2p()
    mdl = p["model"]
    gf = lambda k, d: float(Fraction(mdl.get(k, d) if mdl.get(k) is not None else d))
    ci = np.vstack(([7, p["ctype"], 0], np.zeros(3), np.eye(3)))
    msgs = []
    # the model fixes sines and cosines, not the angle symbols: the axis directions (where sin or cos vanish) are tried as well
    cases = [[gf("r", 2.0), gf("ang1", 30.0), gf("ang2", 40.0)], [2.0, 30.0, 40.0], [1.5, 120.0, -75.0], [3.0, 179.0, 200.0 if p["ctype"] == 3 else 2.0]]
    cases += [[2.0, t, ph] for t in (90.0, 45.0) for ph in (0.0, 90.0, 180.0, 270.0, -90.0)] if p["ctype"] == 3 else [[2.0, t, 1.0] for t in (0.0, 90.0, 180.0, 270.0, -90.0)]
    for a in cases:
        a = np.array(a)
        if p["ctype"] == 3 and not (0 < a[1] < 180):
            continue
        loc = n2p._get_loc_a_basic(ci, a)
        t1, t2 = np.radians(a[1]), np.radians(a[2])
        want = [a[0] * np.cos(t1), a[0] * np.sin(t1), a[2]] if p["ctype"] == 2 else [a[0] * np.sin(t1) * np.cos(t2), a[0] * np.sin(t1) * np.sin(t2), a[0] * np.cos(t1)]
        if not np.allclose(loc, want, atol=1e-9):
            msgs.append("_get_loc_a_basic(%s) = %s, expected %s" % (a.tolist(), np.asarray(loc).tolist(), want))
        back = np.ravel(n2p.getcoordinates(None, np.asarray(loc, float).reshape(1, 3), 7, {7: ci}))
        d = back - a
        for k in ((1,) if p["ctype"] == 2 else (1, 2)):
            d[k] = (d[k] + 180) % 360 - 180
        if not np.allclose(d, 0, atol=1e-7):
            msgs.append("entered %s in a %s system, queried back %s" % (a.tolist(), "cylindrical" if p["ctype"] == 2 else "spherical", back.tolist()))
    if msgs:
        return True, "; ".join(msgs[:2])
    return False, "curvilinear round trip fine on the real code"


REPLAY = {"curvi-rt": replay_curvi_rt, "curvi": replay_curvi, "rbgeom": replay_rbgeom, "rect": replay_rect, "coordinfo": replay_coordinfo}


def job(kind, *args):
    eng = E.Engine(obl_timeout_ms=120000, tactic="qfnra-nlsat") if kind == "coordinfo" else E.Engine(obl_timeout_ms=120000)
    eng.obl_mode = "each"
    if kind == "curvi":
        eng = E.Engine(obl_timeout_ms=120000, tactic="qfnra-nlsat")
        eng.obl_mode = "each"
    if kind == "curvi-rt":
        eng = E.Engine(obl_timeout_ms=60000, tactic="qfnra-nlsat")
        eng.obl_mode = "each"
        res = eng.explore(curvi_rt_fn(*args), max_cex=3)
        res["note"] = "%s %s" % (kind, args)
        H.triage(res, "curvi-rt", replay_curvi_rt, lambda c: dict(ctype=args[0], model=c["model"]))
        return res
    fn = rbgeom_fn(*args) if kind == "rbgeom" else (coordinfo_fn(*args) if kind == "coordinfo" else (curvi_fn(*args) if kind == "curvi" else rect_fn(*args)))
    res = eng.explore(fn, max_cex=3)
    res["note"] = "%s %s" % (kind, args)

    def payload(c):
        d = dict((c.get("info") or [{}])[0])
        d["model"] = c["model"]
        return d
    H.triage(res, kind, REPLAY[kind], payload)
    return res


def jobs(tier, seed):
    out = []
    for ng in (1, 2) if tier == "quick" else (1, 2, 3, 4):
        for refmode in ("xyz", "zero", "grid"):
            out.append(H.Job("rbgeom-%d-%s" % (ng, refmode), job, "rbgeom", ng, refmode, weight=10 * ng))
    for qi in range(len(QUATS)):
        out.append(H.Job("rect-%d" % qi, job, "rect", qi, weight=5))
    out.append(H.Job("coordinfo-identity-ref", job, "coordinfo", 0, True, weight=10))
    out.append(H.Job("cylindrical", job, "curvi", 2, weight=5))
    out.append(H.Job("spherical", job, "curvi", 3, weight=5))
    out.append(H.Job("cylindrical-roundtrip", job, "curvi-rt", 2, weight=10))
    out.append(H.Job("spherical-roundtrip", job, "curvi-rt", 3, weight=20))
    for qi in (1, 2) if tier == "quick" else (1, 2, 3, 4):
        out.append(H.Job("coordinfo-%d" % qi, job, "coordinfo", qi, False, weight=10))
    return out


def extra_coverage(results):
    n2p = _n2p()
    return dict(functions_encoded=[H.fn_id(n2p.mkusetcoordinfo), H.fn_id(n2p.rbgeom), H.fn_id(n2p.rbmove), H.fn_id(n2p._get_loc_a_basic), H.fn_id(n2p.getcoordinates)])
