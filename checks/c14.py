"""C14 - rigid-body geometry and rectangular coordinate maps: rbgeom / rbmove
describe true rigid motions and are reference-point consistent; a location
entered in a rectangular system and queried back is the same point."""
import itertools
from fractions import Fraction

import numpy as np
import z3

from vsym import sym as S
from vsym import engine as E
from vsym import harness as H
from vsym.npproxy import NPProxy, rebind

PID = "C14"

META = dict(
    level="other",
    stubs=["np.zeros in rbgeom -> object array", "mkusetcoordinfo in getcoordinates -> returns the symbolic 5x3 coordinate-system record (origin + orthonormal transform) of the harness"],
    outside=["cylindrical and spherical branches (atan2, hypot, sin, cos of symbolic values)", "mkusetcoordinfo / build_coords (A-B-C construction: norms, cross products inside pandas-indexed tables)",
             "rbgeom_uset (DataFrame), rbcoords, formrbe3 (least squares / LU), replace_basic_cs (raises on this NumPy: its two tests are baseline failures)"],
    assumptions=["grid coordinates, reference points, rigid motion parameters in [-10, 10]; rectangular transform T from a list of five exact rational rotation matrices (the fully symbolic orthonormal T was inconclusive in nlsat), origin and point symbolic"],
    reach_required=["rbgeom-shift", "rbgeom-noshift", "rbgeom-partial-zero-ref", "rbgeom-gridref", "rbmove", "rect-roundtrip"],
    trusted_base=["z3 5.1 (nlsat)"],
)


def _n2p():
    import pyyeti.nastran.n2p as n2p
    return n2p


def _vec(name, n):
    return [z3.Real("%s%d" % (name, i)) for i in range(n)]


def _cross(a, b):
    return [a[1] * b[2] - a[2] * b[1], a[2] * b[0] - a[0] * b[2], a[0] * b[1] - a[1] * b[0]]


def rbgeom_fn(ngrid, refmode):
    """refmode: 'xyz' (symbolic reference location), 'zero' (default origin), 'grid' (reference = grid index)"""
    def fn(eng):
        S.set_engine(eng)
        n2p = _n2p()
        f = rebind([n2p.rbgeom, n2p.rbmove], dict(np=NPProxy()))
        g = [[z3.Real("g%d_%d" % (i, k)) for k in range(3)] for i in range(ngrid)]
        ref = _vec("ref", 3)
        t, w = _vec("t", 3), _vec("w", 3)
        for v in [x for row in g for x in row] + ref + t + w:
            eng.assume(z3.And(v >= -10, v <= 10))
        grids = np.array([[S.SymR(x) for x in row] for row in g], dtype=object)
        info = dict(ngrid=ngrid, refmode=refmode)
        try:
            if refmode == "xyz":
                rb = f["rbgeom"](grids, np.array([S.SymR(x) for x in ref], dtype=object))
                r0 = ref
            elif refmode == "zero":
                rb = f["rbgeom"](grids)
                r0 = [z3.RealVal(0)] * 3
            else:
                rb = f["rbgeom"](grids, ngrid - 1)
                r0 = g[ngrid - 1]
        except E.Inconclusive:
            raise
        except Exception as ex:
            import traceback
            return [E.Obl("rbgeom raises %r (%s)" % (ex, traceback.format_exc()[-300:]), False, info=info)]
        if refmode == "xyz":
            nz = [eng.decide(x != 0) for x in ref]
            eng.tag("rbgeom-shift" if all(nz) else ("rbgeom-noshift" if not any(nz) else "rbgeom-partial-zero-ref"))
        elif refmode == "grid":
            eng.tag("rbgeom-gridref")
        else:
            eng.tag("rbgeom-noshift")
        obls = [E.Obl("rbgeom: shape (6 ngrid) x 6", np.shape(rb) == (6 * ngrid, 6), info=info)]
        if np.shape(rb) != (6 * ngrid, 6):
            return obls
        # a rigid motion (translation t, small rotation w about the reference point)
        for i in range(ngrid):
            r = [g[i][k] - r0[k] for k in range(3)]
            wxr = _cross(w, r)
            for a in range(3):
                u = z3.Sum([S.lift(rb[6 * i + a, c]) * (t + w)[c] for c in range(6)])
                obls.append(E.Obl("rbgeom: grid %d translation %d = t + w x (r - ref)" % (i, a), u == t[a] + wxr[a], info=info))
                th = z3.Sum([S.lift(rb[6 * i + 3 + a, c]) * (t + w)[c] for c in range(6)])
                obls.append(E.Obl("rbgeom: grid %d rotation %d = w" % (i, a), th == w[a], info=info))
        if refmode == "xyz":
            # reference-point consistency: rbmove(rbgeom(g, p0), p0, p1) == rbgeom(g, p1)
            p1 = _vec("newref", 3)
            for v in p1:
                eng.assume(z3.And(v >= -10, v <= 10))
            try:
                p0a = np.array([S.SymR(x) for x in ref], dtype=object)
                p1a = np.array([S.SymR(x) for x in p1], dtype=object)
                moved = f["rbmove"](rb, p0a, p1a)
                direct = f["rbgeom"](grids, p1a)
            except E.Inconclusive:
                raise
            except Exception as ex:
                return obls + [E.Obl("rbmove raises %r" % (ex,), False, info=info)]
            eng.tag("rbmove")
            for idx in np.ndindex(6 * ngrid, 6):
                obls.append(E.Obl("rbmove(rbgeom(g, p0), p0, p1) == rbgeom(g, p1) %s" % (idx,), S.lift(moved[idx]) == S.lift(direct[idx]), info=info))
        return obls
    return fn


def replay_rbgeom(p):
    n2p = _n2p()
    mdl = p["model"]
    gf = lambda k: float(Fraction(mdl.get(k, 0) or 0))
    ng = p["ngrid"]
    grids = np.array([[gf("g%d_%d" % (i, k)) for k in range(3)] for i in range(ng)])
    ref = np.array([gf("ref%d" % k) for k in range(3)])
    new = np.array([gf("newref%d" % k) for k in range(3)])
    if p["refmode"] == "xyz":
        rb = n2p.rbgeom(grids, ref)
        r0 = ref
    elif p["refmode"] == "zero":
        rb = n2p.rbgeom(grids)
        r0 = np.zeros(3)
    else:
        rb = n2p.rbgeom(grids, ng - 1)
        r0 = grids[ng - 1]
    want = np.zeros((6 * ng, 6))
    for i in range(ng):
        r = grids[i] - r0
        want[6 * i:6 * i + 3, :3] = np.eye(3)
        want[6 * i + 3:6 * i + 6, 3:] = np.eye(3)
        want[6 * i:6 * i + 3, 3:] = -np.array([[0, -r[2], r[1]], [r[2], 0, -r[0]], [-r[1], r[0], 0]])
    if not np.allclose(rb, want, atol=1e-12):
        return True, "rbgeom(%r, ref=%r): modes are not the rigid motion about the reference point (max difference %.3e)" % (grids.tolist(), r0.tolist(), abs(rb - want).max())
    if p["refmode"] == "xyz":
        mv = n2p.rbmove(rb, ref, new)
        if not np.allclose(mv, n2p.rbgeom(grids, new), atol=1e-9):
            return True, "rbmove(rbgeom(g, %r), ., %r) != rbgeom(g, %r)" % (ref.tolist(), new.tolist(), new.tolist())
    return False, "rbgeom/rbmove fine on the real code"


def _rot(q):
    """exact rational rotation matrix of the integer quaternion q"""
    a, b, c, d = [Fraction(x) for x in q]
    n = a * a + b * b + c * c + d * d
    return [[(a * a + b * b - c * c - d * d) / n, 2 * (b * c - a * d) / n, 2 * (b * d + a * c) / n],
            [2 * (b * c + a * d) / n, (a * a - b * b + c * c - d * d) / n, 2 * (c * d - a * b) / n],
            [2 * (b * d - a * c) / n, 2 * (c * d + a * b) / n, (a * a - b * b - c * c + d * d) / n]]


QUATS = [(1, 0, 0, 0), (1, 2, 2, 4), (3, -1, 2, 5), (0, 1, 1, 0), (2, 3, -6, 1)]


def rect_fn(qi):
    def fn(eng):
        S.set_engine(eng)
        n2p = _n2p()
        # the general statement with a symbolic orthonormal T (T^T T = I as constraints) came back
        # `unknown` from nlsat at 120 s for two of its three components; T is therefore taken from a
        # list of exact rational rotation matrices, origin and point stay symbolic
        Tq = _rot(QUATS[qi])
        o, a = _vec("o", 3), _vec("a", 3)
        for v in o + a:
            eng.assume(z3.And(v >= -10, v <= 10))
        ci = np.empty((5, 3), dtype=object)
        ci[0] = [np.float64(7), np.float64(1), np.float64(0)]
        ci[1] = [S.SymR(x) for x in o]
        for i in range(3):
            ci[2 + i] = [Tq[i][j] for j in range(3)]
        info = dict(quat=list(QUATS[qi]))
        f = rebind([n2p._get_loc_a_basic, n2p.getcoordinates], dict(mkusetcoordinfo=lambda cs, uset, coordref: ci))
        try:
            loc = f["_get_loc_a_basic"](ci, np.array([S.SymR(x) for x in a], dtype=object))
            back = f["getcoordinates"](None, np.array([list(loc)], dtype=object), 7)
        except E.Inconclusive:
            raise
        except Exception as ex:
            import traceback
            return [E.Obl("rectangular map raises %r (%s)" % (ex, traceback.format_exc()[-300:]), False, info=info)]
        eng.tag("rect-roundtrip")
        obls = []
        for k in range(3):
            want = o[k] + z3.Sum([z3.RealVal(Tq[k][j]) * a[j] for j in range(3)])
            obls.append(E.Obl("location in basic = origin + T a [%d]" % k, S.lift(loc[k]) == want, info=info))
            obls.append(E.Obl("querying the point back in the same rectangular system returns the entered coordinates [%d]" % k, S.lift(np.ravel(back)[k]) == a[k], info=info))
        return obls
    return fn


def replay_rect(p):
    n2p = _n2p()
    rng = np.random.RandomState(2)
    Q, _ = np.linalg.qr(rng.randn(3, 3))
    o, a = rng.randn(3), rng.randn(3)
    ci = np.vstack(([7, 1, 0], o, Q))
    loc = n2p._get_loc_a_basic(ci, a)
    if not np.allclose(loc, o + Q @ a):
        return True, "_get_loc_a_basic: rectangular location is not origin + T a"
    return False, "rectangular map fine on the real code (round trip not replayed: getcoordinates needs a USET table)"


REPLAY = {"rbgeom": replay_rbgeom, "rect": replay_rect}


def job(kind, *args):
    eng = E.Engine(obl_timeout_ms=120000)
    eng.obl_mode = "each"
    fn = rbgeom_fn(*args) if kind == "rbgeom" else rect_fn(*args)
    res = eng.explore(fn, max_cex=3)
    res["note"] = "%s %s" % (kind, args)

    def payload(c):
        d = dict((c.get("info") or [{}])[0])
        d["model"] = c["model"]
        return d
    H.triage(res, kind, REPLAY[kind], payload)
    return res


def jobs(tier, seed):
    out = []
    for ng in (1, 2) if tier == "quick" else (1, 2, 3, 4):
        for refmode in ("xyz", "zero", "grid"):
            out.append(H.Job("rbgeom-%d-%s" % (ng, refmode), job, "rbgeom", ng, refmode, weight=10 * ng))
    for qi in range(len(QUATS)):
        out.append(H.Job("rect-%d" % qi, job, "rect", qi, weight=5))
    return out


def extra_coverage(results):
    n2p = _n2p()
    return dict(functions_encoded=[H.fn_id(n2p.rbgeom), H.fn_id(n2p.rbmove), H.fn_id(n2p._get_loc_a_basic), H.fn_id(n2p.getcoordinates)])
