"""C07 - matrix exponential, its integrals and the discretisations built on them:
Pade tables as rational functions of a symbolic scalar, one step of y' = Ay + Bu
on a concrete matrix grid against an mpmath reference, state-space conversions
with symbolic B, C, D."""
import math
import types
from fractions import Fraction
from math import factorial

import numpy as np
import z3

from vsym import sym as S
from vsym import engine as E
from vsym import harness as H
from vsym import odekit
from vsym.npproxy import NPProxy, rebind

PID = "C07"
KF_DEF = "C07-d2c-defective"
KF_PS = "C07-getEPQ1-singular-large-step"

META = dict(
    level="other",
    stubs=["Pade kernels: `self` of _ExpmIntPadeHelper replaced by a namespace whose A, A2..A10, ident are powers of one symbolic scalar; scipy's pade7/pade9 (U, V) and "
           "_smart_matrix_product replaced by the textbook [m/m] Pade numerators / scalar product",
           "la.lu_factor/lu_solve/solve with a concrete matrix and symbolic right-hand side -> multiplication by the concrete inverse",
           "np.dot on object arrays (NumPy's own)"],
    outside=["non-commuting matrix products inside the Pade evaluation beyond the concrete grid", "scaling-and-squaring recursion as a symbolic object (covered through the grid only)",
             "_geti2's three formulas as symbolic objects (grid only)", "correctness between grid matrices"],
    assumptions=["Pade kernels: scalar argument |a| <= theta_m (the thresholds that guard each branch), h = 1; e^a enclosed by its Taylor polynomial plus Lagrange remainder",
                 "grid: 2x2-4x4 matrices listed in the evidence, steps 1e-3..30; state-space kernels: concrete A, symbolic B, C, D in [-1, 1]"],
    reach_required=["pade3", "pade5", "pade7", "pade9", "pade13", "epq-pade-branch", "epq-ss-branch", "singular-A", "near-triangular", "tustin", "zoh", "foh", "zoha", "history"],
    trusted_base=["z3 5.1 (nlsat)", "mpmath expm (80 digits)", "textbook Pade coefficients of exp"],
)

THETA = {3: 1.495585217958292e-002, 5: 2.539398330063230e-001, 7: 9.504178996162932e-001, 9: 2.097847961257068e+000, 13: 4.25}
# [m/m] Pade numerator coefficients of exp (Higham 2005): N(x) = sum b_k x^k, D(x) = N(-x)
PADE_B = {
    7: (17297280., 8648640., 1995840., 277200., 25200., 1512., 56., 1.),
    9: (17643225600., 8821612800., 2075673600., 302702400., 30270240., 2162160., 110880., 3960., 90., 1.),
}


def _taylor(a, N, shift=0):
    """sum_{k=0}^{N} a^k / (k+shift)!  (shift=1: (e^a - 1)/a)"""
    t = z3.RealVal(0)
    p = z3.RealVal(1)
    for k in range(N + 1):
        t = t + p * z3.RealVal(Fraction(1, factorial(k + shift)))
        p = p * a
    return t


def pade_fn(order, sc=0):
    """sc: number of squarings handed to pade13_scaled_i (argument |a| <= theta_13 * 2^sc)"""
    def fn(eng):
        S.set_engine(eng)
        import pyyeti.expmint as em
        a = z3.Real("a")
        th = Fraction(THETA[order]) * 2 ** sc
        eng.assume(z3.And(a >= -th, a <= th))
        sa = S.SymR(a)
        pw = {1: sa}
        for k in range(2, 11):
            pw[k] = pw[k - 1] * sa
        ns = types.SimpleNamespace(A=sa, A2=pw[2], A3=pw[3], A4=pw[4], A5=pw[5], A6=pw[6], A8=pw[8], A10=pw[10], ident=1.0, structure=None)

        def padeUV(m):
            b = PADE_B[m]
            U = sum(b[k] * pw[k] for k in range(1, m + 1, 2))
            V = sum((b[k] * pw[k] if k else b[0]) for k in range(0, m + 1, 2))
            return U, V
        ns.pade7 = lambda: padeUV(7)
        ns.pade9 = lambda: padeUV(9)
        mfstub = types.SimpleNamespace(_smart_matrix_product=lambda A, B, alpha=None, structure=None: A * B)
        cls = em._ExpmIntPadeHelper
        f = {3: cls.pade3_i, 5: cls.pade5_i, 7: cls.pade7_i, 9: cls.pade9_i, 13: cls.pade13_scaled_i}[order]
        g = dict(f.__globals__)
        g["mf"] = mfstub
        f = types.FunctionType(f.__code__, g, f.__name__, f.__defaults__, f.__closure__)
        info = dict(order=order)
        try:
            U, V, P, Q = f(ns, sc, 1.0) if order == 13 else f(ns, 1.0)
        except E.Inconclusive:
            raise
        except Exception as ex:
            return [E.Obl("pade%d_i raises %r" % (order, ex), False, info=info)]
        eng.tag("pade%d" % order)
        U, V, P, Q = (S.lift(x) for x in (U, V, P, Q))
        if sc:
            # the scaled tables approximate exp(a / 2^sc) and its integral over a step of 2^-sc:
            # restate in the scaled variable b = a / 2^sc, |b| <= theta_13
            b = z3.Real("b")
            eng.assume(b * 2 ** sc == a)
            a_eff, th = b, Fraction(THETA[order])
            P = P * 2 ** sc
        else:
            a_eff = a
        N = {3: 16, 5: 22, 7: 30, 9: 40, 13: 60}[order]
        thf = float(th)
        rem = Fraction(3) ** math.ceil(thf) * th ** (N + 1) / factorial(N + 1)      # Lagrange remainder bound of the Taylor polynomials
        eps = Fraction(1, 10 ** 14) + rem * 4
        T0, T1 = _taylor(a_eff, N), _taylor(a_eff, N, 1)
        obls = [E.Obl("pade%d: denominators positive on |a| <= theta" % order, z3.And(V - U > 0, Q > 0), info=info)]
        d = (V + U) - T0 * (V - U)
        obls.append(E.Obl("pade%d: (V+U)/(V-U) = e^a to 1e-14 relative" % order, z3.And(d <= eps * T0 * (V - U), -d <= eps * T0 * (V - U)), info=info))
        d1 = P - T1 * Q
        obls.append(E.Obl("pade%d: P/Q = (e^a - 1)/a (the integral of e^(at) over [0,1]) to 1e-14 relative" % order, z3.And(d1 <= eps * T1 * Q, -d1 <= eps * T1 * Q), info=info))
        return obls
    return fn


def replay_pade(p):
    import pyyeti.expmint as em
    a = float(Fraction(p["model"].get("a", 0) or 0))
    A = np.array([[a]])
    E_, I_ = em.expmint(A, 1.0)
    ref = (math.expm1(a) / a) if a != 0 else 1.0
    msgs = []
    if abs(E_[0, 0] - math.exp(a)) > 1e-12 * math.exp(a):
        msgs.append("expmint([[%r]], 1) E = %r, e^a = %r" % (a, E_[0, 0], math.exp(a)))
    if abs(I_[0, 0] - ref) > 1e-12 * abs(ref):
        msgs.append("expmint([[%r]], 1) integral = %r, (e^a-1)/a = %r" % (a, I_[0, 0], ref))
    # the scalar run takes whichever branch its norm selects; also evaluate the order's table directly
    H_ = em._ExpmIntPadeHelper(A)
    order = p["order"]
    U, V, P, Q = getattr(H_, "pade%d_i" % order)(1.0) if order != 13 else H_.pade13_scaled_i(0, 1.0)
    e2, i2 = (V + U)[0, 0] / (V - U)[0, 0], P[0, 0] / Q[0, 0]
    if abs(e2 - math.exp(a)) > 1e-12 * math.exp(a) or abs(i2 - ref) > 1e-12 * abs(ref):
        msgs.append("pade%d tables at a=%r: E %r vs %r, integral %r vs %r" % (order, a, e2, math.exp(a), i2, ref))
    if msgs:
        return True, "; ".join(msgs)
    return False, "Pade tables fine at a=%r" % a


# ---------------------------------------------------------------------------
# K2: one step on the grid

def grid():
    g = {}
    g["osc-damped"] = np.array([[0., 1.], [-250., -1.5]])
    g["stiff"] = np.array([[-1000., 1.], [0., -0.01]])
    g["defective"] = np.array([[-2., 1.], [0., -2.]])
    g["singular-rb"] = np.array([[0., 1.], [0., 0.]])
    g["freefree"] = np.array([[0., 0., 1., 0.], [0., 0., 0., 1.], [-1., 1., 0., 0.], [1., -1., 0., 0.]]) * 1.0
    g["full3"] = np.array([[1., 2., 3.], [4., 5., 6.], [7., 8., 9.]])
    g["near-triangular"] = np.array([[-1., 50.], [-4e-9, -3.]])
    g["near-triangular-3"] = np.array([[-1., 5., 2.], [1e-9, -2., 7.], [0., -3e-10, -0.5]])
    g["upper"] = np.array([[-1., 5., 2.], [0., -2., 7.], [0., 0., -0.5]])
    return g


def _ref_step(A, h, Bm, dps=60):
    """exact  y1 = E y0 + G0 u0 + G1 u1  (first-order hold) and E, Gz (zero-order hold: y1 = E y0 + Gz u0)"""
    import mpmath as mp
    mp.mp.dps = dps
    n = A.shape[0]
    m = Bm.shape[1]
    N = n + 2 * m
    Z = mp.zeros(N)
    for i in range(n):
        for j in range(n):
            Z[i, j] = mp.mpf(float(A[i, j])) * h
        for j in range(m):
            Z[i, n + j] = mp.mpf(float(Bm[i, j])) * h
    for j in range(m):
        Z[n + j, n + m + j] = 1
    Ez = mp.expm(Z)
    q = odekit._toQ
    Em = [[q(Ez[i, j]) for j in range(n)] for i in range(n)]
    G1s = [[q(Ez[i, n + j]) for j in range(m)] for i in range(n)]
    G2s = [[q(Ez[i, n + m + j]) for j in range(m)] for i in range(n)]
    G0 = [[G1s[i][j] - G2s[i][j] for j in range(m)] for i in range(n)]
    return Em, G0, G2s, G1s


def step_fn(name, h, order, bmode, half, which):
    def fn(eng):
        S.set_engine(eng)
        import pyyeti.expmint as em
        A = grid()[name]
        n = A.shape[0]
        info = dict(matrix=name, h=h, order=order, bmode=bmode, half=half, which=which)
        if bmode == "B":
            Bm = np.arange(1, n * 2 + 1, dtype=float).reshape(n, 2) / (2 * n)
        elif half:
            Bm = np.eye(n)[:, :n // 2]
        else:
            Bm = np.eye(n)
        m = Bm.shape[1]
        y0 = odekit.zvec("y0", n)
        u0 = odekit.zvec("u0", m)
        u1 = odekit.zvec("u1", m)
        for v in y0 + u0 + u1:
            eng.assume(z3.And(v >= -1, v <= 1))
        fn_ = getattr(em, which)
        try:
            Eo, Po, Qo = fn_(A, h, order=order, B=(Bm if bmode == "B" else None), half=half)
        except Exception as ex:
            return [E.Obl("%s(%s, h=%g) raises %r" % (which, name, h, ex), False, info=info)]
        norm1 = h * np.linalg.norm(A, 1)
        eng.tag("epq-pade-branch" if norm1 <= 2.097847961257068 else "epq-ss-branch")
        if abs(np.linalg.det(A)) < 1e-12:
            eng.tag("singular-A")
        if name.startswith("near-tri"):
            eng.tag("near-triangular")
        Em, G0, G1, Gz = _ref_step(A, h, Bm)
        obls = []
        # recorded finding: the Pade route called directly (getEPQ1 / getEPQ_pow) on a singular A far above
        # the norm at which getEPQ itself would switch to the augmented-matrix route
        known = [(KF_PS, True)] if (which in ("getEPQ1", "getEPQ_pow") and abs(np.linalg.det(A)) < 1e-12 and norm1 > 20) else []
        for i in range(n):
            got = z3.Sum([z3.RealVal(Fraction(float(Eo[i, j]))) * y0[j] for j in range(n)] + [z3.RealVal(Fraction(float(Po[i, j]))) * u0[j] for j in range(m)]
                         + ([z3.RealVal(Fraction(float(Qo[i, j]))) * u1[j] for j in range(m)] if order == 1 else []))
            if order == 1:
                ref = z3.Sum([z3.RealVal(Em[i][j]) * y0[j] for j in range(n)] + [z3.RealVal(G0[i][j]) * u0[j] for j in range(m)] + [z3.RealVal(G1[i][j]) * u1[j] for j in range(m)])
            else:
                ref = z3.Sum([z3.RealVal(Em[i][j]) * y0[j] for j in range(n)] + [z3.RealVal(Gz[i][j]) * u0[j] for j in range(m)])
            scale = sum(abs(Fraction(x)) for x in Em[i]) + sum(abs(x) for x in (G0[i] + G1[i] if order == 1 else Gz[i])) + Fraction(1, 10 ** 6)
            tol = Fraction(1, 10 ** 9) * scale
            obls.append(E.Obl("%s on %s, h=%g, order %d: state %d after one step equals the exact hold solution" % (which, name, h, order, i),
                              odekit.within(got, ref, tol), known=known, info=info))
        return obls
    return fn


def replay_step(p):
    import pyyeti.expmint as em
    import scipy.linalg as la
    A = grid()[p["matrix"]]
    n = A.shape[0]
    h, order = p["h"], p["order"]
    if p["bmode"] == "B":
        Bm = np.arange(1, n * 2 + 1, dtype=float).reshape(n, 2) / (2 * n)
    elif p["half"]:
        Bm = np.eye(n)[:, :n // 2]
    else:
        Bm = np.eye(n)
    Eo, Po, Qo = getattr(em, p["which"])(A, h, order=order, B=(Bm if p["bmode"] == "B" else None), half=p["half"])
    Em, G0, G1, Gz = _ref_step(A, h, Bm)
    f = lambda M: np.array([[float(x) for x in r] for r in M])
    Em, G0, G1, Gz = f(Em), f(G0), f(G1), f(Gz)
    sc = max(np.abs(Em).max(), 1e-6)
    msgs = []
    if np.abs(Eo - Em).max() > 1e-9 * max(sc, np.abs(Em).sum(axis=1).max()):
        msgs.append("E differs from expm(A h) by %.3e" % np.abs(Eo - Em).max())
    if order == 1:
        if np.abs(Po - G0).max() > 1e-9 * max(np.abs(G0).sum(axis=1).max(), np.abs(Em).sum(axis=1).max()) or np.abs(Qo - G1).max() > 1e-9 * max(np.abs(G1).sum(axis=1).max(), np.abs(Em).sum(axis=1).max()):
            msgs.append("P, Q differ from the first-order-hold integrals by %.3e, %.3e" % (np.abs(Po - G0).max(), np.abs(Qo - G1).max()))
    elif np.abs(Po - Gz).max() > 1e-9 * max(np.abs(Gz).sum(axis=1).max(), np.abs(Em).sum(axis=1).max()):
        msgs.append("P differs from the zero-order-hold integral by %.3e" % np.abs(Po - Gz).max())
    if msgs:
        return True, "%s(%s, h=%g, order=%d, B=%s, half=%s): %s" % (p["which"], p["matrix"], h, order, p["bmode"], p["half"], "; ".join(msgs))
    return False, "one step fine on the real code"


# ---------------------------------------------------------------------------
# K3: state-space conversions

def _ss():
    import pyyeti.ssmodel as ssm
    import pyyeti.expmint as em
    ssm.np = odekit.NP
    ssm.la = odekit.LA
    return ssm


def ss_fn(name, h, method, prewarp):
    def fn(eng):
        S.set_engine(eng)
        ssm = _ss()
        A = grid()[name]
        n = A.shape[0]
        Bz, Cz, Dz = odekit.zmat("B", n, 1), odekit.zmat("C", 1, n), odekit.zmat("D", 1, 1)
        for row in Bz + Cz + Dz:
            for v in row:
                eng.assume(z3.And(v >= -1, v <= 1))
        info = dict(matrix=name, h=h, method=method, prewarp=prewarp)
        try:
            sysc = ssm.SSModel(A.copy(), odekit.sarr(Bz), odekit.sarr(Cz), odekit.sarr(Dz))
            z = sysc.c2d(h, method=method, prewarp=prewarp) if method == "tustin" else sysc.c2d(h, method=method)
            snap = [np.array(x, dtype=object, copy=True) for x in (z.A, z.B, z.C, z.D)]
            back = z.d2c(method=method, prewarp=prewarp) if method == "tustin" else z.d2c(method=method)
            back2 = z.d2c(method=method, prewarp=prewarp) if method == "tustin" else z.d2c(method=method)
            z2 = sysc.c2d(h, method=method, prewarp=prewarp) if method == "tustin" else sysc.c2d(h, method=method)
        except E.Inconclusive:
            raise
        except Exception as ex:
            import traceback
            return [E.Obl("c2d/d2c(%s) raises %r (%s)" % (method, ex, traceback.format_exc()[-300:]), False, info=info)]
        eng.tag(method)
        eng.tag("history")
        obls = []
        tol = 1e-8

        known = [(KF_DEF, True)] if (name == "defective" and method != "tustin") else []

        def cmp(what, X, Y, kn=()):
            X, Y = np.asarray(X, dtype=object), np.asarray(Y, dtype=object)
            if X.shape != Y.shape:
                obls.append(E.Obl("%s: shape" % what, False, info=info))
                return
            for idx in np.ndindex(*X.shape):
                obls.append(E.Obl("%s %s" % (what, idx), S.close(X[idx], Y[idx], tol), known=list(kn), info=info))
        cmp("d2c(c2d(sys)).A == A [%s]" % method, back.A, A, known)
        cmp("d2c(c2d(sys)).B == B [%s]" % method, back.B, odekit.sarr(Bz), known)
        cmp("d2c(c2d(sys)).C == C [%s]" % method, back.C, odekit.sarr(Cz), known)
        cmp("d2c(c2d(sys)).D == D [%s]" % method, back.D, odekit.sarr(Dz), known)
        # converting twice gives the same model and leaves the converted one untouched
        for nm, X, Y in (("A", back.A, back2.A), ("B", back.B, back2.B), ("C", back.C, back2.C), ("D", back.D, back2.D)):
            cmp("second d2c equals the first: %s" % nm, X, Y)
        for nm, X, Y in zip("ABCD", snap, (z.A, z.B, z.C, z.D)):
            cmp("d2c leaves the discrete model's %s unchanged" % nm, X, Y)
        for nm, X, Y in (("A", z.A, z2.A), ("B", z.B, z2.B), ("C", z.C, z2.C), ("D", z.D, z2.D)):
            cmp("second c2d equals the first: %s" % nm, X, Y)
        if method == "zoh":
            # sampled response to a piecewise-constant input: x1 = Ad x0 + Bd u0
            Bm = np.zeros((n, 1))
            Em, G0, G1, Gz = _ref_step(A, h, np.eye(n))
            for i in range(n):
                ref = z3.Sum([z3.RealVal(Gz[i][j]) * Bz[j][0] for j in range(n)])
                obls.append(E.Obl("zoh: Bd row %d is the exact input integral" % i, S.close(z.B[i, 0], S.SymR(ref), tol), info=info))
                for j in range(n):
                    obls.append(E.Obl("zoh: Ad == expm(A h) [%d,%d]" % (i, j), abs(Fraction(float(z.A[i, j])) - Em[i][j]) <= Fraction(tol) * (1 + abs(Em[i][j])), info=info))
        if method == "tustin":
            # bilinear equivalence at a few points of the unit circle: Hd(z) == Hc(k (z-1)/(z+1))
            k = 2 / h if not prewarp else prewarp / math.tan(prewarp * h / 2)
            for th in (0.3, 1.1):
                zc = complex(math.cos(th), math.sin(th))
                s = k * (zc - 1) / (zc + 1)
                Md = np.linalg.inv(zc * np.eye(n) - np.asarray(z.A, dtype=float))
                Mc = np.linalg.inv(s * np.eye(n) - A)
                Hd = sum(S.SymC.const(1) * z.C[0, i] * complex(Md[i, j]) * z.B[j, 0] for i in range(n) for j in range(n)) + z.D[0, 0]
                Hc = sum(S.SymC.const(1) * S.SymR(Cz[0][i]) * complex(Mc[i, j]) * S.SymR(Bz[j][0]) for i in range(n) for j in range(n)) + S.SymR(Dz[0][0])
                obls.append(E.Obl("tustin: discrete transfer function at z=e^(i %.1f) equals the continuous one at the bilinear image" % th,
                                  S.close(Hd, Hc if isinstance(Hc, S.SymC) else S.SymC(S.lift(Hc), z3.RealVal(0)), 1e-7), info=info))
        return obls
    return fn


def replay_ss(p):
    import importlib
    import pyyeti.ssmodel as ssm0
    import numpy
    import scipy.linalg
    ssm0.np, ssm0.la = numpy, scipy.linalg
    mdl = p["model"]
    A = grid()[p["matrix"]]
    n = A.shape[0]
    gf = lambda k: float(Fraction(mdl.get(k, 0) or 0))
    B = np.array([[gf("B_%d_0" % i)] for i in range(n)])
    C = np.array([[gf("C_0_%d" % i) for i in range(n)]])
    D = np.array([[gf("D_0_0")]])
    if not B.any():
        B = np.arange(1, n + 1, dtype=float).reshape(n, 1) / n
    if not C.any():
        C = np.arange(n, 0, -1, dtype=float).reshape(1, n) / n
    if not D.any():
        D = np.array([[0.5]])
    method, h, pw = p["method"], p["h"], p["prewarp"]
    kw = dict(method=method, prewarp=pw) if method == "tustin" else dict(method=method)
    try:
        sysc = ssm0.SSModel(A.copy(), B, C, D)
        z = sysc.c2d(h, **kw)
        snap = [np.array(x, copy=True) for x in (z.A, z.B, z.C, z.D)]
        b1 = z.d2c(**kw)
        b2 = z.d2c(**kw)
    except Exception as ex:
        return True, "c2d/d2c(%s) on %s raises %r" % (method, p["matrix"], ex)
    finally:
        _ss()
    msgs = []
    for nm, X, Y in zip("ABCD", (b1.A, b1.B, b1.C, b1.D), (A, B, C, D)):
        if not np.allclose(X, Y, rtol=1e-7, atol=1e-7):
            msgs.append("d2c(c2d(sys)).%s differs by %.3e" % (nm, np.abs(X - Y).max()))
    for nm, X, Y in zip("ABCD", (b1.A, b1.B, b1.C, b1.D), (b2.A, b2.B, b2.C, b2.D)):
        if not np.allclose(X, Y, rtol=1e-9, atol=1e-9):
            msgs.append("a second d2c returns a different %s (differs by %.3e)" % (nm, np.abs(X - Y).max()))
    for nm, X, Y in zip("ABCD", snap, (z.A, z.B, z.C, z.D)):
        if not np.array_equal(X, Y):
            msgs.append("d2c modified the discrete model's %s" % nm)
    if msgs:
        return True, "SSModel %s (h=%g, prewarp=%r) on %s: %s" % (method, h, pw, p["matrix"], "; ".join(msgs[:3]))
    return False, "state-space conversion fine on the real code"


REPLAY = {"pade": replay_pade, "step": replay_step, "ss": replay_ss}


def job(kind, *args):
    # the Pade obligations are univariate polynomial inequalities: nlsat decides them at once,
    # the incremental core does not
    eng = E.Engine(obl_timeout_ms=300000, tactic="qfnra-nlsat") if kind == "pade" else E.Engine(obl_timeout_ms=60000)
    eng.obl_mode = "each"
    fn = dict(pade=pade_fn, step=step_fn, ss=ss_fn)[kind](*args)
    res = eng.explore(fn, max_cex=3)
    res["note"] = "%s %s" % (kind, str(args)[:100])

    def payload(c):
        d = dict((c.get("info") or [{}])[0])
        d["model"] = c["model"]
        return d
    H.triage(res, kind, REPLAY[kind], payload)
    return res


def job_steps(items):
    res = None
    for it in items:
        r = job("step", *it)
        if res is None:
            res = r
        else:
            E.merge(res, r)
            for k in ("violations", "known_hits", "unreproduced"):
                res[k] = res.get(k, []) + r.get(k, [])
    res["note"] = "%d one-step comparisons" % len(items)
    return res


def jobs(tier, seed):
    q = tier == "quick"
    out = []
    for order in (3, 5, 7, 9, 13):
        out.append(H.Job("pade%d" % order, job, "pade", order, weight=50 * order))
    if not q:
        for sc in (1, 2, 3):
            out.append(H.Job("pade13-scaled-%d" % sc, job, "pade", 13, sc, weight=800))
    items = []
    hs = {"osc-damped": (1e-3, 0.05, 1.0), "stiff": (1e-3, 0.05, 1.0), "defective": (0.05, 1.0, 30.0), "singular-rb": (0.05, 1.0, 30.0), "freefree": (0.05, 1.0, 30.0),
          "full3": (1e-3, 0.05, 0.5), "near-triangular": (1e-3, 0.05, 1.0), "near-triangular-3": (0.05, 1.0), "upper": (0.05, 1.0)}
    if not q:
        hs = {k: tuple(sorted(set(v + (1e-6, 2e-3, 0.3, 2.5)))) for k, v in hs.items()}
    for name, hl in hs.items():
        for h in hl:
            for order in (0, 1):
                for which in ("getEPQ", "getEPQ1", "getEPQ2", "getEPQ_pow"):
                    if which == "getEPQ_pow" and h * np.linalg.norm(grid()[name], 1) > 40:
                        continue
                    for bmode, half in (("none", False), ("B", False), ("none", True)):
                        if half and grid()[name].shape[0] % 2:
                            continue
                        k = len(items)
                        if q and which != "getEPQ" and (k + seed) % 5:
                            continue
                        items.append((name, h, order, bmode, half, which))
    forced = [("freefree", 30.0, 1, "none", False, "getEPQ1"), ("freefree", 30.0, 1, "none", False, "getEPQ"), ("freefree", 30.0, 0, "B", False, "getEPQ2")]
    items += [f for f in forced if f not in items]
    for i in range(14):
        ch = items[i::14]
        if ch:
            out.append(H.Job("steps-%d" % i, job_steps, ch, weight=len(ch) * 3))
    # steps with h*||A||_1 <= 2 so that getEPQ takes the route that accepts a symbolic B
    for name, h in (("osc-damped", 0.005), ("defective", 0.3), ("full3", 0.05)) if q else (("osc-damped", 0.005), ("defective", 0.3), ("full3", 0.05), ("stiff", 0.001), ("upper", 0.2)):
        for method, pw in (("tustin", 0), ("tustin", 12.0), ("zoh", 0), ("foh", 0), ("zoha", 0)):
            out.append(H.Job("ss-%s-%s-%s" % (name, method, pw), job, "ss", name, h, method, pw, weight=20))
    return out


def extra_coverage(results):
    import pyyeti.expmint as em
    import pyyeti.ssmodel as ssm
    c = em._ExpmIntPadeHelper
    fns = [c.pade3_i, c.pade5_i, c.pade7_i, c.pade9_i, c.pade13_scaled_i, em.expmint, em._geti2, em.getEPQ, em.getEPQ1, em.getEPQ2, em.getEPQ_pow, em._procBhalf,
           ssm.SSModel.c2d, ssm.SSModel.d2c]
    return dict(functions_encoded=[H.fn_id(f) for f in fns], grid={k: v.tolist() for k, v in grid().items()})
