"""C10 - cycle-counting pipeline: reversal-point selection (both findap
definitions), binning (getbins/_binify/binify) and the per-frequency counting
kernel of fdepsd, on symbolic signals / cycle tables."""
import ast
import math
import time
import types
from fractions import Fraction

import numpy as np
import z3

from vsym import sym as S
from vsym import engine as E
from vsym import harness as H
from vsym.npproxy import NPProxy, rebind, has_sym

PID = "C10"

META = dict(
    level="other",
    stubs=["np.digitize -> its documented contract as comparison code", "np.linspace(a, b, n) with symbolic end points -> exact affine spacing with exact end point",
           "np.sign on symbolic values -> comparison code", "signal.lfilter in fdepsd._dofde -> returns the symbolic response history (the filter is C03's subject)",
           "cyclecount.rainflow inside _dofde -> the real py_rain._rainflow2 on the symbolic reversal points (C05 shows C == Python)", "G2 block: np.log of the (concrete) counts -> NumPy; comparisons of amplitude arrays decided element by element; np.interp -> its piecewise-linear contract",
           "the numba definition of findap is compiled from the `else:` branch of cyclecount.py's AST with numba_bool = bool (numba is not installed)"],
    outside=["G1, G4, G8, G12 and the damage-equivalent PSD formulas of fdepsd (logs, roots); for G2 only homogeneity of its block is claimed, on three count profiles", "scaling with input amplitude squared of the other outputs",
             "bins lying exactly on the small-cycle cut Amax/3 (inclusion hinges on floating-point rounding of the bin amplitude)",
             "detrend / filter / rolloff options of fdepsd", "pandas labelling of binify"],
    assumptions=["signal samples in [-100, 100]; tol concrete (1e-6, 0, and 0.25 to make sub-tolerance regions large)",
                 "_dofde kernel: the response has no non-zero step below findap's tolerance (that region belongs to the recorded findap findings)"],
    reach_required=["g2-homogeneous", "findap-plateau", "findap-alternating", "findap-subtol-step", "binify-auto", "binify-explicit-outside", "binify-right", "binify-left", "dofde"],
    trusted_base=["z3 5.1", "CPython 3.12", "NumPy array semantics on dtype=object"],
)

KF_DRIFT = "C10-findap-subtol-drift"
KF_VARIANT = "C10-findap-numba-variant"


class NPX(NPProxy):
    def sign(self, a):
        if isinstance(a, np.ndarray) and a.dtype == object:
            out = np.empty(a.shape, dtype=np.int64)
            for idx in np.ndindex(*a.shape):
                x = a[idx]
                out[idx] = 1 if bool(x > 0) else (-1 if bool(x < 0) else 0)
            return out
        return np.sign(a)

    def linspace(self, a, b, num=50, **kw):
        if has_sym(a) or has_sym(b):
            out = np.empty(num, dtype=object)
            for k in range(num):
                out[k] = a + (b - a) * Fraction(k, num - 1) if k < num - 1 else b
            if num > 0:
                out[0] = a
            return out
        return np.linspace(a, b, num, **kw)

    def var(self, a, ddof=0, **kw):
        if isinstance(a, np.ndarray) and a.dtype == object:
            n = a.size
            m = sum(a.ravel()) / n
            return sum((x - m) * (x - m) for x in a.ravel()) / (n - ddof)
        return np.var(a, ddof=ddof, **kw)


_C = {}


def variants():
    """(default findap, numba-definition findap) rebuilt from the working tree"""
    if "v" in _C:
        return _C["v"]
    import pyyeti.cyclecount as cc
    import pyyeti.locate as loc
    npx = NPX()
    fu = rebind([loc.find_unique], dict(np=npx))["find_unique"]
    shim = types.SimpleNamespace(find_unique=fu)
    tree = ast.parse(open(cc.__file__).read())
    defs = {}
    for node in tree.body:
        if isinstance(node, ast.If) and isinstance(node.test, ast.UnaryOp):     # `if not HAVE_NUMBA:`
            for n2 in node.body:
                if isinstance(n2, ast.FunctionDef) and n2.name == "findap":
                    defs["default"] = n2
            for n2 in node.orelse:
                if isinstance(n2, ast.FunctionDef) and n2.name == "findap":
                    defs["numba"] = n2
    out = {}
    real = {}
    for k, fd in defs.items():
        mod = ast.Module(body=[fd], type_ignores=[])
        g = dict(np=npx, numba_bool=bool, locate=shim)
        exec(compile(mod, "<cyclecount.findap:%s>" % k, "exec"), g)
        out[k] = g["findap"]
        g2 = dict(np=np, numba_bool=bool, locate=loc)
        exec(compile(mod, "<cyclecount.findap:%s>" % k, "exec"), g2)
        real[k] = g2["findap"]
    _C["v"] = (out, real, {k: H.src_hash(cc.findap) if k == "default" else "ast:" + str(hash(ast.dump(fd)) & 0xFFFFFF) for k, fd in defs.items()})
    return _C["v"]


def _absz(t):
    return z3.If(t >= 0, t, -t)


def findap_fn(L, tol, which):
    """which: 'default' | 'numba' | 'both'"""
    def fn(eng):
        S.set_engine(eng)
        sym, _real, _ = variants()
        ys = [z3.Real("y%d" % i) for i in range(L)]
        for v in ys:
            eng.assume(z3.And(v >= -100, v <= 100))
        y = np.empty(L, dtype=object)
        for i in range(L):
            y[i] = S.SymR(ys[i])
        info = dict(L=L, tol=tol, which=which)
        # regions of the recorded findings, over the inputs
        d = [ys[i + 1] - ys[i] for i in range(L - 1)]
        if L > 1:
            # same operations as locate.find_unique: the comparisons are decided (and
            # cached) by the engine, so stol is a single term on each path
            stol = S.lift(abs(tol * abs(np.diff(y)).max()))
        else:
            stol = z3.RealVal(0)
        small = [z3.And(_absz(t) <= stol) for t in d]
        smallnz = [z3.And(t != 0, _absz(t) <= stol) for t in d]
        drift = z3.Or([z3.And([smallnz[i], smallnz[j]] + [small[k] for k in range(i + 1, j)])
                       for i in range(L - 1) for j in range(i + 1, L - 1)] + [z3.BoolVal(False)])
        anysub = z3.Or(smallnz + [z3.BoolVal(False)])
        res = {}
        for k in (("default", "numba") if which == "both" else (which,)):
            try:
                res[k] = [bool(b) for b in sym[k](y, tol)]
            except (E.Inconclusive,):
                raise
            except Exception as ex:
                return [E.Obl("findap[%s] raises %r" % (k, ex), False, info=info)]
        obls = []
        for k, p in res.items():
            known = [(KF_DRIFT, drift)] if k == "default" else [(KF_VARIANT, anysub)]
            sel = [i for i in range(L) if p[i]]
            obls.append(E.Obl("findap[%s]: first sample selected" % k, bool(p[0]), info=info))
            for a_, b_, c_ in zip(sel, sel[1:], sel[2:]):
                obls.append(E.Obl("findap[%s]: selected points %d,%d,%d alternate strictly" % (k, a_, b_, c_),
                                  z3.Or(z3.And(ys[b_] > ys[a_], ys[c_] < ys[b_]), z3.And(ys[b_] < ys[a_], ys[c_] > ys[b_])), known=known, info=info))
            if len(sel) == 2:
                obls.append(E.Obl("findap[%s]: two selected points differ" % k, ys[sel[0]] != ys[sel[1]], known=known, info=info))
            mx, mn = ys[0], ys[0]
            for i in range(1, L):
                mx = z3.If(ys[i] > mx, ys[i], mx)
                mn = z3.If(ys[i] < mn, ys[i], mn)
            if sel:
                obls.append(E.Obl("findap[%s]: global max within tol of a selected point" % k, z3.Or([ys[i] >= mx - stol for i in sel]), known=known, info=info))
                obls.append(E.Obl("findap[%s]: global min within tol of a selected point" % k, z3.Or([ys[i] <= mn + stol for i in sel]), known=known, info=info))
        if which == "both":
            obls.append(E.Obl("findap: default and numba definitions select the same points (%s vs %s)" % (res["default"], res["numba"]),
                              res["default"] == res["numba"], known=[(KF_VARIANT, anysub)], info=info))
        p0 = list(res.values())[0]
        if not all(p0):
            eng.tag("findap-plateau")
        if sum(p0) >= 3:
            eng.tag("findap-alternating")
        return obls
    return fn


def _subtol_tag_fn(L, tol):
    """reachability twin: a nonzero sub-tolerance step exists on some path"""
    def fn(eng):
        S.set_engine(eng)
        ys = [z3.Real("y%d" % i) for i in range(L)]
        y = np.empty(L, dtype=object)
        for i in range(L):
            y[i] = S.SymR(ys[i])
        sym, _, _ = variants()
        sym["default"](y, tol)
        d0 = ys[1] - ys[0]
        if eng.decide(z3.And(d0 != 0, _absz(d0) <= _absz(ys[2] - ys[1]) * z3.RealVal(Fraction(tol)))):
            eng.tag("findap-subtol-step")
        return [E.Obl("trivial", True)]
    return fn


def replay_findap(p):
    _sym, real, _ = variants()
    mdl = p["model"]
    L, tol, which = p["L"], p["tol"], p["which"]
    y = np.array([float(Fraction(mdl.get("y%d" % i, 0) or 0)) for i in range(L)])
    msgs = []
    res = {}
    for k in (("default", "numba") if which == "both" else (which,)):
        try:
            res[k] = [bool(b) for b in real[k](y.copy(), tol)]
        except Exception as ex:
            return True, "findap[%s](%r, %r) raises %r" % (k, y.tolist(), tol, ex)
    d = np.abs(np.diff(y))
    stol = tol * d.max() if L > 1 else 0.0
    for k, pv in res.items():
        sel = [i for i in range(L) if pv[i]]
        if not pv[0]:
            msgs.append("[%s] first sample not selected" % k)
        for a_, b_, c_ in zip(sel, sel[1:], sel[2:]):
            if not (y[b_] - y[a_]) * (y[c_] - y[b_]) < 0:
                msgs.append("[%s] selected %s do not alternate" % (k, sel))
                break
        if len(sel) == 2 and y[sel[0]] == y[sel[1]]:
            msgs.append("[%s] two equal points selected" % k)
        if sel and not any(y[i] >= y.max() - stol * (1 + 1e-9) for i in sel):
            msgs.append("[%s] global max %r missed by %r > tol*max|dy| = %r (selected %s)" % (k, y.max(), y.max() - max(y[i] for i in sel), stol, sel))
        if sel and not any(y[i] <= y.min() + stol * (1 + 1e-9) for i in sel):
            msgs.append("[%s] global min %r missed (selected %s)" % (k, y.min(), sel))
    if which == "both" and res["default"] != res["numba"]:
        msgs.append("variants differ: default %s numba %s" % (np.nonzero(res["default"])[0].tolist(), np.nonzero(res["numba"])[0].tolist()))
    if msgs:
        return True, "findap(%r, tol=%r): %s" % (y.tolist(), tol, "; ".join(msgs))
    return False, "findap(%r, tol=%r) fine on the real code" % (y.tolist(), tol)


def _refine_findap(L, tol):
    """ask for a model whose strict path atoms keep a margin so that it survives
    conversion to doubles: inputs on a 2^-10 grid"""
    def r(eng):
        out = []
        for i in range(L):
            k = z3.Int("yi%d" % i)
            out.append(z3.Real("y%d" % i) * (1024 if tol > 1e-3 else 2 ** 24) == z3.ToReal(k))
        return out
    return r


def job_findap(L, tol, which, split_depth=None, roots=None):
    eng = E.Engine(obl_timeout_ms=8000)
    eng.refine = _refine_findap(L, tol)
    res = eng.explore(findap_fn(L, tol, which), max_cex=4, roots=roots, split_depth=split_depth)
    res["note"] = "findap %s L=%d tol=%g" % (which, L, tol)
    if split_depth is not None and res["roots"]:
        rs = res.pop("roots")
        res["spawn"] = [("findap-%s-%d-%g-sub%d" % (which, L, tol, i), job_findap, (L, tol, which), dict(roots=rs[i::16])) for i in range(16) if rs[i::16]]
    res["roots"] = []
    H.triage(res, "findap", replay_findap, lambda c: dict(L=L, tol=tol, which=which, model=c["model"]))
    # a known-finding hit only counts if it is listed
    return res


def job_subtol():
    eng = E.Engine()
    res = eng.explore(_subtol_tag_fn(3, 0.25))
    res["note"] = "reachability twin for sub-tolerance steps"
    return res


# ---------------------------------------------------------------------------
# K2 binify

def _cc():
    if "cc" not in _C:
        import pyyeti.cyclecount as cc
        npx = NPX()
        fns = [cc.getbins, cc._binify, cc.binify, cc._getlabels]
        g = rebind(fns, dict(np=npx, maxmin=lambda x: (x.max(), x.min())))
        _C["cc"] = g
    return _C["cc"]


def binify_fn(ncyc, nb_amp, nb_mean, right, explicit):
    def fn(eng):
        S.set_engine(eng)
        g = _cc()
        rf = np.empty((ncyc, 3), dtype=object)
        cyc = []
        for i in range(ncyc):
            a, m, c = z3.Real("amp%d" % i), z3.Real("mean%d" % i), z3.Real("cnt%d" % i)
            eng.assume(z3.And(a >= 0, a <= 10, m >= -10, m <= 10, c >= 0, c <= 1))
            rf[i] = [S.SymR(a), S.SymR(m), S.SymR(c)]
            cyc.append((a, m, c))
        info = dict(ncyc=ncyc, nb_amp=nb_amp, nb_mean=nb_mean, right=right, explicit=explicit)
        if explicit:
            ab = [z3.Real("ab%d" % k) for k in range(nb_amp + 1)]
            mb = [z3.Real("mb%d" % k) for k in range(nb_mean + 1)]
            for bb in (ab, mb):
                for k in range(len(bb)):
                    eng.assume(z3.And(bb[k] >= -12, bb[k] <= 12))
                for k in range(len(bb) - 1):
                    eng.assume(bb[k] < bb[k + 1])
            ampbins = np.array([S.SymR(t) for t in ab], dtype=object)
            meanbins = np.array([S.SymR(t) for t in mb], dtype=object)
        else:
            ampbins, meanbins = nb_amp, nb_mean
        try:
            table, ampb, aveb = g["binify"](rf, ampbins, meanbins, right, 3, True, False, True)
        except E.Inconclusive:
            raise
        except Exception as ex:
            return [E.Obl("binify raises %r" % (ex,), False, info=info)]
        eng.tag("binify-explicit-outside" if explicit else "binify-auto")
        eng.tag("binify-right" if right else "binify-left")
        at = [S.lift(x) for x in ampb]
        mt = [S.lift(x) for x in aveb]
        obls = [E.Obl("binify: table shape %s == (%d, %d)" % (np.shape(table), nb_mean, nb_amp), tuple(np.shape(table)) == (nb_mean, nb_amp), info=info)]
        if tuple(np.shape(table)) != (nb_mean, nb_amp):
            return obls

        def inside(v, lo, hi):
            return z3.And(v > lo, v <= hi) if right else z3.And(v >= lo, v < hi)
        tot = z3.RealVal(0)
        for bm in range(nb_mean):
            for br in range(nb_amp):
                want = z3.Sum([z3.If(z3.And(inside(a, at[br], at[br + 1]), inside(m, mt[bm], mt[bm + 1])), c, 0) for a, m, c in cyc])
                obls.append(E.Obl("binify: cell (%d,%d) holds the cycles of its documented half-open interval" % (bm, br), S.lift(table[bm, br]) == want, info=info))
                tot = tot + S.lift(table[bm, br])
        if not explicit:
            obls.append(E.Obl("binify: automatic bins conserve the total count", tot == z3.Sum([c for _, _, c in cyc]), info=info))
        else:
            allin = z3.And([z3.And(inside(a, at[0], at[-1]), inside(m, mt[0], mt[-1])) for a, m, c in cyc])
            obls.append(E.Obl("binify: explicit bins conserve the total when they cover the data", z3.Implies(allin, tot == z3.Sum([c for _, _, c in cyc])), info=info))
        return obls
    return fn


def replay_binify(p):
    import pyyeti.cyclecount as cc
    mdl = p["model"]
    n, na, nm, right, explicit = p["ncyc"], p["nb_amp"], p["nb_mean"], p["right"], p["explicit"]
    gf = lambda k, d=0.0: float(Fraction(mdl.get(k, d) or 0))
    rf = np.array([[gf("amp%d" % i), gf("mean%d" % i), gf("cnt%d" % i)] for i in range(n)])
    if explicit:
        ab = [gf("ab%d" % k) for k in range(na + 1)]
        mb = [gf("mb%d" % k) for k in range(nm + 1)]
    else:
        ab, mb = na, nm
    try:
        table, ampb, aveb = cc.binify(rf, ab, mb, right=right, retbins=True, use_pandas=False)
    except Exception as ex:
        return True, "binify(%r, %r, %r, right=%r) raises %r" % (rf.tolist(), ab, mb, right, ex)
    want = np.zeros((nm, na))
    for a, m, c in rf:
        for bm in range(nm):
            for br in range(na):
                ina = (ampb[br] < a <= ampb[br + 1]) if right else (ampb[br] <= a < ampb[br + 1])
                inm = (aveb[bm] < m <= aveb[bm + 1]) if right else (aveb[bm] <= m < aveb[bm + 1])
                if ina and inm:
                    want[bm, br] += c
    if table.shape != want.shape or not np.allclose(table, want, atol=1e-12):
        return True, "binify(%r, %r, %r, right=%r) = %r, interval rule gives %r" % (rf.tolist(), ab, mb, right, table.tolist(), want.tolist())
    return False, "binify fine on the real code"


def job_binify(ncyc, na, nm, right, explicit, split_depth=None, roots=None):
    eng = E.Engine()
    res = eng.explore(binify_fn(ncyc, na, nm, right, explicit), max_cex=3, roots=roots, split_depth=split_depth)
    res["note"] = "binify %d cycles, %dx%d bins, right=%s, explicit=%s" % (ncyc, na, nm, right, explicit)
    if split_depth is not None and res["roots"]:
        rs = res.pop("roots")
        res["spawn"] = [("binify-%s-sub%d" % ((ncyc, na, nm, right, explicit), i), job_binify, (ncyc, na, nm, right, explicit), dict(roots=rs[i::16])) for i in range(16) if rs[i::16]]
    res["roots"] = []
    H.triage(res, "binify", replay_binify, lambda c: dict(ncyc=ncyc, nb_amp=na, nb_mean=nm, right=right, explicit=explicit, model=c["model"]))
    return res


# ---------------------------------------------------------------------------
# K3 fdepsd._dofde counting invariants

def dofde_fn(N, nbins):
    def fn(eng):
        S.set_engine(eng)
        import pyyeti.fdepsd as fd
        import pyyeti.rainflow.py_rain as pr
        sym, _, _ = variants()
        npx = NPX()
        rs = [z3.Real("r%d" % i) for i in range(N)]
        for v in rs:
            eng.assume(z3.And(v >= -10, v <= 10))
        resp = np.empty(N, dtype=object)
        for i in range(N):
            resp[i] = S.SymR(rs[i])
        eng.assume(z3.Or([v != rs[0] for v in rs[1:]]))     # at least one cycle
        rain2 = rebind([pr._rainflow2], dict(np=npx))["_rainflow2"]

        def rainflow(peaks, getoffsets=False, use_pandas=True):
            rf, os_ = rain2(np.asarray(peaks, dtype=object), len(peaks))
            return dict(amp=rf[:, 0], mean=rf[:, 1], count=rf[:, 2])
        # precondition: no non-zero sub-tolerance step (the region of the recorded findap findings)
        dd = [rs[i + 1] - rs[i] for i in range(N - 1)]
        md = z3.RealVal(0)
        for t_ in dd:
            md = z3.If(_absz(t_) > md, _absz(t_), md)
        eng.assume(z3.And([z3.Or(t_ == 0, _absz(t_) > md * z3.RealVal(Fraction(1e-6))) for t_ in dd]))
        ccshim = types.SimpleNamespace(findap=lambda y, tol=1e-6: np.array(sym["default"](y, tol)), rainflow=rainflow)
        sig = types.SimpleNamespace(lfilter=lambda b, a, x: resp)
        ASV = np.zeros((3, 1), dtype=object)
        BinAmps = np.zeros((1, nbins), dtype=object)
        BinAmps += np.array([Fraction(k, nbins) for k in range(nbins)], dtype=object)
        Count = np.zeros((1, nbins), dtype=object)
        f = rebind([fd._dofde], dict(np=npx, signal=sig, cyclecount=ccshim, WN_=np.array([10.0]), SIG_=None, ASV_=ASV, BinAmps_=BinAmps, Count_=Count))["_dofde"]
        try:
            f((0, (lambda Q, dT, wn: (None, None), 10, 0.01, False)))
        except E.Inconclusive:
            raise
        except Exception as ex:
            return [E.Obl("_dofde raises %r" % (ex,), False, info=dict(N=N, nbins=nbins))]
        eng.tag("dofde")
        info = dict(N=N, nbins=nbins)
        obls = []
        cnt = [S.lift(Count[0, k]) for k in range(nbins)]
        for k in range(nbins - 1):
            obls.append(E.Obl("_dofde: cumulative count non-increasing in amplitude (%d)" % k, cnt[k] >= cnt[k + 1], info=info))
        # reversal points = N-? ; total count = (number of reversals - 1)/2 : Count[:,0] is the total
        amax, srs, = S.lift(ASV[0, 0]), S.lift(ASV[1, 0])
        obls.append(E.Obl("_dofde: largest cycle amplitude <= SRS peak", amax <= srs, info=info))
        mxabs = z3.RealVal(0)
        for v in rs:
            mxabs = z3.If(_absz(v) > mxabs, _absz(v), mxabs)
        obls.append(E.Obl("_dofde: SRS peak is max |response|", srs == mxabs, info=info))
        mx, mn = rs[0], rs[0]
        for v in rs[1:]:
            mx = z3.If(v > mx, v, mx)
            mn = z3.If(v < mn, v, mn)
        obls.append(E.Obl("_dofde: largest amplitude is half the response range", amax == (mx - mn) / 2, info=info))
        obls.append(E.Obl("_dofde: Count[:,0] > 0 is the total cycle count (multiple of 1/2)", z3.And(cnt[0] > 0, z3.IsInt(2 * cnt[0])), info=info))
        obls.append(E.Obl("_dofde: top bin counts at most the total", cnt[-1] <= cnt[0], info=info))
        for k in range(nbins):
            obls.append(E.Obl("_dofde: bin amplitude %d is k/nbins of the max amplitude" % k, S.lift(BinAmps[0, k]) == amax * z3.RealVal(Fraction(k, nbins)), info=info))
        return obls
    return fn


def replay_dofde(p):
    import pyyeti.fdepsd as fd
    import pyyeti.cyclecount as cc
    mdl = p["model"]
    N, nbins = p["N"], p["nbins"]
    r = np.array([float(Fraction(mdl.get("r%d" % i, 0) or 0)) for i in range(N)])
    import types as _t
    ASV = np.zeros((3, 1))
    BinAmps = np.zeros((1, nbins)) + np.arange(nbins) / nbins
    Count = np.zeros((1, nbins))
    g = dict(fd._dofde.__globals__)
    g.update(signal=_t.SimpleNamespace(lfilter=lambda b, a, x: r), WN_=np.array([10.0]), SIG_=None, ASV_=ASV, BinAmps_=BinAmps, Count_=Count)
    f = _t.FunctionType(fd._dofde.__code__, g)
    try:
        f((0, (lambda Q, dT, wn: (None, None), 10, 0.01, False)))
    except Exception as ex:
        return True, "_dofde on response %r raises %r" % (r.tolist(), ex)
    bad = []
    if np.any(np.diff(Count[0]) > 1e-12):
        bad.append("counts increase with amplitude: %r" % Count[0].tolist())
    if ASV[0, 0] > ASV[1, 0] + 1e-12:
        bad.append("Amax %r > SRS %r" % (ASV[0, 0], ASV[1, 0]))
    if abs(ASV[0, 0] - (r.max() - r.min()) / 2) > 1e-9:
        bad.append("Amax %r != range/2 %r" % (ASV[0, 0], (r.max() - r.min()) / 2))
    if bad:
        return True, "_dofde(%r): %s" % (r.tolist(), "; ".join(bad))
    return False, "_dofde fine on the real code"


def job_dofde(N, nbins, split_depth=None, roots=None):
    eng = E.Engine()
    res = eng.explore(dofde_fn(N, nbins), max_cex=3, roots=roots, split_depth=split_depth)
    res["note"] = "_dofde N=%d nbins=%d" % (N, nbins)
    if split_depth is not None and res["roots"]:
        rs = res.pop("roots")
        res["spawn"] = [("dofde-%d-%d-sub%d" % (N, nbins, i), job_dofde, (N, nbins), dict(roots=rs[i::16])) for i in range(16) if rs[i::16]]
    res["roots"] = []
    H.triage(res, "dofde", replay_dofde, lambda c: dict(N=N, nbins=nbins, model=c["model"]))
    return res


# ---------------------------------------------------------------------------
# K4: the G2 block of fdepsd (compiled from the function's AST): G2max is homogeneous of degree 2 in the
# response amplitude, i.e. scaling the signal scales every PSD output by the square

def _g2_block():
    """(function g2(Amax, BinAmps, Count, LF, np) -> G2max compiled from fdepsd's statements, source hash)"""
    if "g2" in _C:
        return _C["g2"]
    import ast
    import hashlib
    import inspect
    import textwrap
    import pyyeti.fdepsd as fd
    tree = ast.parse(textwrap.dedent(inspect.getsource(fd.fdepsd)))
    body = tree.body[0].body
    k = next(i for i, st in enumerate(body) if isinstance(st, ast.Assign) and isinstance(st.targets[0], ast.Name) and st.targets[0].id == "G2max")
    stmts = body[k:k + 2]
    assert isinstance(stmts[1], ast.For)
    fn = ast.FunctionDef(name="g2", args=ast.arguments(posonlyargs=[], args=[ast.arg(a) for a in ("Amax", "BinAmps", "Count", "LF", "np")], kwonlyargs=[], kw_defaults=[], defaults=[]),
                         body=stmts + [ast.Return(ast.Name("G2max", ast.Load()))], decorator_list=[], type_params=[])
    mod = ast.Module(body=[fn], type_ignores=[])
    ast.fix_missing_locations(mod)
    g = {}
    exec(compile(mod, "<fdepsd: G2 block>", "exec"), g)
    _C["g2"] = (g["g2"], hashlib.sha256(ast.unparse(mod).encode()).hexdigest()[:12])
    return _C["g2"]


class DArr(np.ndarray):
    """object array whose comparisons are decided element by element (boolean masks stay NumPy's)"""

    def _cmp(self, o, f):
        a = np.asarray(self)
        ob = np.broadcast_to(np.asarray(o, dtype=object), a.shape)
        out = np.zeros(a.shape, bool)
        for idx in np.ndindex(*a.shape):
            out[idx] = bool(f(a[idx], ob[idx]))
        return out

    def __ge__(self, o):
        return self._cmp(o, lambda x, y: x >= y)

    def __gt__(self, o):
        return self._cmp(o, lambda x, y: x > y)

    def __le__(self, o):
        return self._cmp(o, lambda x, y: x <= y)

    def __lt__(self, o):
        return self._cmp(o, lambda x, y: x < y)


G2_CASES = {
    # (Amax per frequency, cumulative counts per bin); bin amplitudes are Amax * (k+1)/nbins as in fdepsd
    # 7 bins: no bin amplitude equals Amax/3 (the small-cycle cut), where inclusion would hinge on floating-point rounding
    "g2-above": ([2.0], [[1000, 600, 300, 120, 30, 6, 1]]),
    "g2-below": ([0.5], [[1000, 20, 6, 3, 2, 2, 1]]),
    "two-freq": ([3.0, 0.25], [[500, 200, 90, 30, 8, 3, 2], [64, 32, 16, 8, 4, 2, 1]]),
}
G2_CASES_THOROUGH = {
    "g2-last-bin": ([1.25], [[4000, 900, 400, 200, 120, 80, 60]]),
    "g2-near-flat": ([7.0], [[12, 11, 10, 10, 10, 10, 9]]),
    "three-freq": ([0.01, 40.0, 2.5], [[2000, 1000, 400, 100, 20, 4, 1], [300, 250, 200, 100, 50, 20, 10], [90, 70, 50, 30, 10, 5, 1]]),
}


class NPG(NPProxy):
    def log(self, x):
        return np.log(np.asarray(x, dtype=float))


def g2_fn(case):
    def fn(eng):
        S.set_engine(eng)
        g2, _ = _g2_block()
        amax, counts = (G2_CASES.get(case) or G2_CASES_THOROUGH[case])
        LF, nb = len(amax), len(counts[0])
        base_A = np.array(amax)
        base_B = np.array([[a * (k + 1) / nb for k in range(nb)] for a in amax])
        cnt = np.array(counts, dtype=float)
        want = g2(base_A.copy(), base_B.copy(), cnt, LF, np)            # the same statements on the unscaled data
        c = z3.Real("scale")
        eng.assume(z3.And(c >= z3.RealVal("0.001"), c <= 10000))
        A = np.array([S.SymR(c) * float(a) for a in base_A], dtype=object).view(DArr)
        B = np.empty(base_B.shape, dtype=object)
        for idx in np.ndindex(*base_B.shape):
            B[idx] = S.SymR(c) * float(base_B[idx])
        info = dict(case=case)
        try:
            got = g2(A, B.view(DArr), cnt, LF, NPG())
        except E.Inconclusive:
            raise
        except Exception as ex:
            import traceback
            return [E.Obl("G2 block raises %r (%s)" % (ex, traceback.format_exc()[-300:]), False, info=info)]
        eng.tag("g2-homogeneous")
        obls = []
        for j in range(LF):
            w = z3.RealVal(Fraction(float(want[j]))) * c * c
            obls.append(E.Obl("G2max[%d] of the signal scaled by c equals c^2 times G2max of the signal (1e-9 relative)" % j,
                              z3.And(S.lift(got[j]) - w <= w * z3.RealVal("1e-9"), w - S.lift(got[j]) <= w * z3.RealVal("1e-9")), info=info))
        return obls
    return fn


def replay_g2(p):
    """the whole fdepsd on a signal and on the same signal scaled by the model's factor"""
    import pyyeti.fdepsd as fd
    c = float(Fraction(p["model"].get("scale", 100) or 100))
    rng = np.random.RandomState(5)
    sr = 200.0
    sig = rng.randn(int(sr * 8))
    freq = np.array([5.0, 12.0, 30.0])
    msgs = []
    for resp in ("absacce", "pvelo"):
        a = fd.fdepsd(sig, sr, freq, 10, resp=resp, verbose=False)
        b = fd.fdepsd(sig * c, sr, freq, 10, resp=resp, verbose=False)
        for nm in ("G1", "G2", "G4", "G8", "G12"):
            pa, pb = np.asarray(a.psd[nm]), np.asarray(b.psd[nm])
            if not np.allclose(pb, pa * c * c, rtol=1e-8):
                msgs.append("fdepsd(resp=%r) of a signal scaled by %g: %s is %s, %g^2 times the unscaled %s is %s" % (resp, c, nm, pb.tolist(), c, nm, (pa * c * c).tolist()))
    if msgs:
        return True, "; ".join(msgs[:2])
    return False, "fdepsd scales with the square of the amplitude on the real code"


def job_g2(case):
    eng = E.Engine(obl_timeout_ms=60000)
    eng.obl_mode = "each"
    res = eng.explore(g2_fn(case), max_cex=3)
    res["note"] = "G2 block, case %s" % case
    H.triage(res, "g2", replay_g2, lambda c: dict(case=case, model=c["model"]))
    return res


REPLAY = {"g2": replay_g2, "findap": replay_findap, "binify": replay_binify, "dofde": replay_dofde}


def jobs(tier, seed):
    q = tier == "quick"
    out = [H.Job("findap-subtol-twin", job_subtol, weight=1)]
    for L in range(1, (6 if q else 8) + 1):
        for tol in (1e-6, 0.25, 0.0):
            out.append(H.Job("findap-both-%d-%g" % (L, tol), job_findap, L, tol, "both", split_depth=8 if L >= 6 else None, weight=3 ** L))
    for right in (True, False):
        out.append(H.Job("binify-auto-%s" % right, job_binify, 3, 2, 2, right, False, split_depth=6, weight=300))
        out.append(H.Job("binify-explicit-%s" % right, job_binify, 2 if q else 3, 2, 1, right, True, split_depth=6, weight=300))
        if not q:
            out.append(H.Job("binify-auto-4-%s" % right, job_binify, 4, 3, 2, right, False, split_depth=8, weight=900))
    for case in list(G2_CASES) + ([] if q else list(G2_CASES_THOROUGH)):
        out.append(H.Job("g2-%s" % case, job_g2, case, weight=5))
    out.append(H.Job("dofde-4", job_dofde, 4, 3, split_depth=6, weight=200))
    if not q:
        out.append(H.Job("dofde-5", job_dofde, 5, 4, split_depth=8, weight=900))
    return out


def extra_coverage(results):
    import pyyeti.cyclecount as cc
    import pyyeti.locate as loc
    import pyyeti.fdepsd as fd
    _, _, ids = variants()
    return dict(functions_encoded=["fdepsd.fdepsd[G2 block, from the function's AST]@" + _g2_block()[1], H.fn_id(loc.find_unique), H.fn_id(cc.getbins), H.fn_id(cc._binify), H.fn_id(cc.binify), H.fn_id(fd._dofde),
                                   "cyclecount.findap[default]@" + ids.get("default", "?"), "cyclecount.findap[numba definition, from AST]@" + ids.get("numba", "?")])
