"""C02 - frequency-domain solvers satisfy the dynamic-stiffness equation; incrb /
rf_disp_only rules; SolveUnc.fsolve == FreqDirect.fsolve; solvepsd bookkeeping."""
import itertools
import time
from fractions import Fraction
from types import SimpleNamespace

import numpy as np
import z3

from vsym import sym as S
from vsym import engine as E
from vsym import harness as H
from vsym import odekit as O
from vsym.linform import coeff_norm1

PID = "C02"
RTOL = 1e-9
INCRB = ["", "d", "v", "a", "dv", "da", "va", "dva"]

META = dict(
    level="other",
    stubs=["np.zeros/empty -> object arrays", "scipy.linalg.lu_solve/solve with concrete (complex) matrix and symbolic rhs -> inverse multiply",
           "solvepsd kernel: fs.fsolve replaced by a stub returning fresh complex symbols per (force, dof, frequency)",
           "abs() of a symbolic complex / np.sqrt -> fresh non-negative root with its defining square"],
    bounds=dict(quick="8 systems (real/complex, diagonal/coupled, rb/rf layouts, n <= 4) x freq {0, 0.3, 7, 90} Hz x 8 incrb subsets x rf_disp_only; "
                      "complex force in the unit box; solvepsd: 2 forces x 3 freqs x 2 rows x 3 dof",
                thorough="13 systems, + pre_eig variants"),
    outside=["systems between grid points for the coupled (eigen) path", "damped rigid-body modes in the frequency domain (pyYeti computes a = F/m)"],
    assumptions=["tolerance 1e-9 relative to the 1-norm of the reference linear form (floor: 1e-3 of the row's largest form)"],
    reach_required=["SolveUnc", "FreqDirect", "rb", "rf", "coupled", "complex-system", "zero-frequency", "pre_eig", "solvepsd", "history"],
)


def systems(tier):
    G = {}
    m4 = np.array([1.0, 2.0, 3.0, 1.5])
    k4 = np.array([0.0, 400.0, 900.0, 4.0e5])
    b4 = np.array([0.0, 1.0, 12.0, 30.0])
    G["diag-rb-el-rf"] = dict(m=m4, b=b4, k=k4, rf=[3])
    G["diag-mNone"] = dict(m=None, b=np.array([0.0, 0.8, 5.0]), k=np.array([0.0, 300.0, 2500.0]))
    G["diag-complex-k"] = dict(m=np.array([1.0, 2.0]), b=np.array([0.5, 1.0]), k=np.array([300.0, 900.0]) * (1 + 0.05j))
    kc3 = np.array([[300.0, -100.0, 0.0], [-100.0, 500.0, -50.0], [0.0, -50.0, 900.0]])
    mc3 = np.array([[2.0, 0.2, 0.0], [0.2, 3.0, 0.1], [0.0, 0.1, 1.5]])
    bc3 = np.array([[0.9, 0.1, 0.0], [0.1, 2.0, 0.5], [0.0, 0.5, 4.0]])
    G["coupled-3"] = dict(m=mc3, b=bc3, k=kc3)
    G["coupled-rb-modal"] = dict(m=None, k=np.array([[0.0, 0, 0], [0, 300.0, -40.0], [0, -40.0, 700.0]]),
                                 b=np.array([[0.0, 0, 0], [0, 2.0, 0.5], [0, 0.5, 4.0]]))
    G["coupled-rf"] = dict(m=np.array([2.0, 3.0, 1.5]), k=np.array([200.0, 300.0, 4.0e5]),
                           b=np.array([[1.0, 0.3, 0.0], [0.3, 2.0, 0.0], [0.0, 0.0, 5.0]]), rf=[2])
    G["coupled-complex-b"] = dict(m=np.array([1.0, 2.0]), k=np.array([[300.0, -50.0], [-50.0, 500.0]]),
                                  b=np.array([[1.0 + 0.2j, 0.3], [0.3, 2.0 - 0.1j]]))
    G["rf-only"] = dict(m=np.array([1.0, 1.0]), b=np.array([1.0, 1.0]), k=np.array([3.0e5, 5.0e5]), rf=[0, 1])
    if tier == "thorough":
        G["diag-2rb"] = dict(m=np.array([2.0, 4.0, 1.0]), b=np.array([0.0, 0.0, 2.0]), k=np.array([0.0, 0.0, 700.0]))
        G["coupled-2"] = dict(m=np.array([[2.0, 0.5], [0.5, 3.0]]), k=np.array([[50.0, -20.0], [-20.0, 40.0]]), b=np.array([[1.1, -0.35], [-0.35, 1.1]]))
        G["coupled-complex-mk"] = dict(m=np.array([[1.0, 0.1j], [-0.1j, 2.0]]), k=np.array([[300.0 + 9j, -50.0], [-50.0, 500.0 + 15j]]), b=np.array([[1.0, 0.3], [0.3, 2.0]]))
        G["coupled-4"] = dict(m=np.diag([1.0, 2.0, 1.5, 1.0]) + 0.05, k=np.array([[400.0, -100, 0, 0], [-100, 500.0, -80, 0], [0, -80, 600.0, -60], [0, 0, -60, 300.0]]),
                              b=np.diag([1.0, 2.0, 1.0, 0.5]) + 0.1)
        G["diag-interleaved-rf"] = dict(m=np.array([1.5, 2.0, 1.0]), b=np.array([10.0, 0.0, 1.0]), k=np.array([4e5, 0.0, 300.0]), rf=[0])
    return G


def _rb_rows(sysd):
    M, B, K = O.full(sysd["m"], sysd["b"], sysd["k"])
    n = K.shape[0]
    rf = list(sysd.get("rf") or [])
    out = []
    for i in range(n):
        if i in rf:
            continue
        if abs(K[i]).max() < 0.005 and abs(K[:, i]).max() < 0.005 and abs(B[i]).max() < 0.005 and abs(B[:, i]).max() < 0.005:
            out.append(i)
    return out


def _cq(z, digits=45):
    import mpmath as mp
    return O._toQ(mp.re(z), digits), O._toQ(mp.im(z), digits)


def reference(sysd, freqs, Fre, Fim, incrb, rf_disp_only):
    """d, v, a as (re, im) z3 terms; n x nf"""
    import mpmath as mp
    mp.mp.dps = 60
    M, B, K = O.full(sysd["m"], sysd["b"], sysd["k"])
    n = K.shape[0]
    rf = list(sysd.get("rf") or [])
    rb = _rb_rows(sysd)
    el = [i for i in range(n) if i not in rf and i not in rb]
    nf = len(freqs)
    zero = (z3.RealVal(0), z3.RealVal(0))
    D = [[zero] * nf for _ in range(n)]
    V = [[zero] * nf for _ in range(n)]
    A = [[zero] * nf for _ in range(n)]

    def cmul(c, t):   # complex constant (qre, qim) times (re, im) term
        return (z3.RealVal(c[0]) * t[0] - z3.RealVal(c[1]) * t[1], z3.RealVal(c[0]) * t[1] + z3.RealVal(c[1]) * t[0])

    def csum(ts):
        return (z3.Sum([t[0] for t in ts] + [z3.RealVal(0)]), z3.Sum([t[1] for t in ts] + [z3.RealVal(0)]))

    def mpc(x):
        return mp.mpc(float(np.real(x)), float(np.imag(x)))

    for j, f in enumerate(freqs):
        W = 2 * mp.pi * mp.mpf(float(f))
        Ft = [(Fre[i][j], Fim[i][j]) for i in range(n)]
        if el:
            Hm = mp.matrix([[mpc(K[p, q]) + 1j * W * mpc(B[p, q]) - W * W * mpc(M[p, q]) for q in el] for p in el])
            Hi = Hm ** -1
            for a_, i in enumerate(el):
                D[i][j] = csum([cmul(_cq(Hi[a_, c]), Ft[el[c]]) for c in range(len(el))])
                V[i][j] = cmul(_cq(1j * W), D[i][j])
                A[i][j] = cmul(_cq(-W * W), D[i][j])
        if rb:
            Mi = mp.matrix([[mpc(M[p, q]) for q in rb] for p in rb]) ** -1
            for a_, i in enumerate(rb):
                acc = csum([cmul(_cq(Mi[a_, c]), Ft[rb[c]]) for c in range(len(rb))])
                if "a" in incrb:
                    A[i][j] = acc
                if f != 0:
                    if "v" in incrb:
                        V[i][j] = cmul(_cq(-1j / W), acc)
                    if "d" in incrb:
                        D[i][j] = cmul(_cq(-1 / (W * W)), acc)
        if rf:
            Ki = mp.matrix([[mpc(K[p, q]) for q in rf] for p in rf]) ** -1
            for a_, i in enumerate(rf):
                D[i][j] = csum([cmul(_cq(Ki[a_, c]), Ft[rf[c]]) for c in range(len(rf))])
                if not rf_disp_only:
                    V[i][j] = cmul(_cq(1j * W), D[i][j])
                    A[i][j] = cmul(_cq(-W * W), D[i][j])
    return D, V, A


def _parts(x):
    if isinstance(x, S.SymC):
        return x.re, x.im
    if isinstance(x, (S.SymR, S.SymI)):
        return x.e, z3.RealVal(0)
    x = complex(x)
    return z3.RealVal(Fraction(x.real)), z3.RealVal(Fraction(x.imag))


def path_fn(name, sysd, freqs, tier):
    M, B, K = O.full(sysd["m"], sysd["b"], sysd["k"])
    n = K.shape[0]
    nf = len(freqs)
    rf = list(sysd.get("rf") or [])
    rb = _rb_rows(sysd)
    iscomplex = any(np.iscomplexobj(x) for x in (M, B, K))
    sym = np.allclose(K, K.T) and np.allclose(M, M.T) and not iscomplex
    any2d = any(x is not None and np.ndim(x) == 2 for x in (sysd["m"], sysd["b"], sysd["k"]))

    def fn(eng):
        S.set_engine(eng)
        from pyyeti import ode
        Fre = O.zmat("Fr", n, nf)
        Fim = O.zmat("Fi", n, nf)
        F = np.empty((n, nf), dtype=object)
        for i in range(n):
            for j in range(nf):
                F[i, j] = S.SymC(Fre[i][j], Fim[i][j])
        if rb:
            eng.tag("rb")
        if rf:
            eng.tag("rf")
        if any2d:
            eng.tag("coupled")
        if iscomplex:
            eng.tag("complex-system")
        if 0.0 in freqs:
            eng.tag("zero-frequency")
        obls = []
        solvers = [("SolveUnc", lambda: ode.SolveUnc(sysd["m"], sysd["b"], sysd["k"], rf=sysd.get("rf")), freqs)]
        fd_freqs = [f for f in freqs if f != 0] if rb else freqs
        solvers.append(("FreqDirect", lambda: ode.FreqDirect(sysd["m"], sysd["b"], sysd["k"], rf=sysd.get("rf")), fd_freqs))
        if any2d and sym and not rf and not rb:
            solvers.append(("SolveUnc:pre_eig", lambda: ode.SolveUnc(sysd["m"], sysd["b"], sysd["k"], pre_eig=True), freqs))
        refcache = {}
        for sname, mk, fr in solvers:
            O.NP.sym = False
            ts = mk()
            eng.tag(sname.split(":")[0])
            if "pre_eig" in sname:
                eng.tag("pre_eig")
            cols = [freqs.index(f) for f in fr]
            for incrb in INCRB:
                for rfdo in ((False, True) if rf else (False,)):
                    if not rb and incrb not in ("dva", "a"):
                        continue     # incrb only matters with rigid-body modes
                    O.NP.sym = True
                    try:
                        sol = ts.fsolve(F[:, cols], np.array(fr), incrb=incrb, rf_disp_only=rfdo)
                    except Exception as ex:
                        obls.append(E.Obl("%s.fsolve(incrb=%r) raised %r" % (sname, incrb, ex), False))
                        continue
                    finally:
                        O.NP.sym = False
                    key = (incrb, rfdo)
                    if key not in refcache:
                        refcache[key] = reference(sysd, freqs, Fre, Fim, incrb, rfdo)
                    RD, RV, RA = refcache[key]
                    for nm, got, ref in (("d", sol.d, RD), ("v", sol.v, RV), ("a", sol.a, RA)):
                        for i in range(n):
                            rowmax = max(max(coeff_norm1(ref[i][c][0]), coeff_norm1(ref[i][c][1])) for c in range(nf))
                            for jj, c in enumerate(cols):
                                gr, gi = _parts(got[i, jj])
                                for part, g, r in (("re", gr, ref[i][c][0]), ("im", gi, ref[i][c][1])):
                                    nrm = max(coeff_norm1(r), Fraction(1, 1000) * rowmax)
                                    tol = Fraction(RTOL) * nrm
                                    zero_rule = (i in rb and nm not in incrb) or (i in rf and rfdo and nm != "d") or (i in rb and freqs[c] == 0 and nm != "a")
                                    if zero_rule:
                                        tol = Fraction(0)
                                    obls.append(E.Obl("%s incrb=%r rf_disp_only=%s: %s[%d] at %g Hz (%s)" % (sname, incrb, rfdo, nm, i, freqs[c], part),
                                                      O.within(g, r, tol), info=dict(solver=sname, incrb=incrb, rfdo=rfdo)))
        return obls
    return fn


# the third set has negative frequencies (a two-sided spectrum): the dynamic-stiffness equation has no sign restriction on W
FREQSETS = ([0.0, 0.3, 7.0, 90.0], [7.0, 0.0, 90.0, 0.3], [-7.0, 0.0, 0.3, -90.0])


def job(name, tier, fset=0):
    O.patch_ode()
    sysd = systems(tier)[name]
    freqs = list(FREQSETS[fset])
    n = O.full(sysd["m"], sysd["b"], sysd["k"])[2].shape[0]
    names = ["F%s_%d_%d" % (p, i, j) for p in "ri" for i in range(n) for j in range(len(freqs))]
    eng = E.Engine()
    eng.obl_mode = "each"
    res = eng.explore(path_fn(name, sysd, freqs, tier), assumptions=S.box(names))
    res["note"] = "%s freqs=%s" % (name, freqs)
    H.triage(res, "fsolve", replay, lambda c: dict(name=name, tier=tier, fset=fset, model=c["model"], labels=c["labels"], info=c.get("info")), max_replays=4)
    return res


def replay(p):
    from pyyeti import ode
    sysd = systems(p["tier"])[p["name"]]
    freqs = list(FREQSETS[p.get("fset", 0)])
    M, B, K = O.full(sysd["m"], sysd["b"], sysd["k"])
    n = K.shape[0]
    nf = len(freqs)
    mdl = p["model"]
    g = lambda nm: float(mdl.get(nm, 0) or 0)
    F = np.array([[g("Fr_%d_%d" % (i, j)) + 1j * g("Fi_%d_%d" % (i, j)) for j in range(nf)] for i in range(n)])
    rb = _rb_rows(sysd)
    rf = list(sysd.get("rf") or [])
    el = [i for i in range(n) if i not in rf and i not in rb]
    O.NP.sym = False
    infos = [i for i in (p.get("info") or []) if i] or [dict(solver="SolveUnc", incrb="dva", rfdo=False)]
    worst = None
    for info in infos:
        sname, incrb, rfdo = info["solver"], info["incrb"], info["rfdo"]
        if sname == "FreqDirect":
            ts = ode.FreqDirect(sysd["m"], sysd["b"], sysd["k"], rf=sysd.get("rf"))
            fr = [f for f in freqs if f != 0] if rb else freqs
        else:
            ts = ode.SolveUnc(sysd["m"], sysd["b"], sysd["k"], rf=sysd.get("rf"), pre_eig="pre_eig" in sname)
            fr = freqs
        cols = [freqs.index(f) for f in fr]
        sol = ts.fsolve(F[:, cols], np.array(fr), incrb=incrb, rf_disp_only=rfdo)
        for jj, c in enumerate(cols):
            W = 2 * np.pi * freqs[c]
            d = np.zeros(n, complex)
            v = np.zeros(n, complex)
            a = np.zeros(n, complex)
            if el:
                ee = np.ix_(el, el)
                d[el] = np.linalg.solve(K[ee] + 1j * W * B[ee] - W * W * M[ee], F[el, c])
                v[el] = 1j * W * d[el]
                a[el] = -W * W * d[el]
            if rb:
                acc = np.linalg.solve(M[np.ix_(rb, rb)], F[rb, c])
                if "a" in incrb:
                    a[rb] = acc
                if W != 0:
                    if "v" in incrb:
                        v[rb] = -1j / W * acc
                    if "d" in incrb:
                        d[rb] = -acc / W ** 2
            if rf:
                d[rf] = np.linalg.solve(K[np.ix_(rf, rf)], F[rf, c])
                if not rfdo:
                    v[rf] = 1j * W * d[rf]
                    a[rf] = -W * W * d[rf]
            for nm, got, ref in (("d", sol.d[:, jj], d), ("v", sol.v[:, jj], v), ("a", sol.a[:, jj], a)):
                if not np.all(np.isfinite(got)):
                    worst = (np.inf, "%s.fsolve(incrb=%r, rf_disp_only=%s): %s at %g Hz is not finite: %s (dynamic-stiffness solution %s)" % (
                        sname, incrb, rfdo, nm, freqs[c], got.tolist(), np.round(ref, 12).tolist()))
                    continue
                err = abs(got - ref).max()
                rel = err / max(abs(ref).max(), 1e-300) if abs(ref).max() > 0 else (np.inf if err > 0 else 0)
                if rel > 1e-8 and (worst is None or rel > worst[0]):
                    worst = (rel, "%s.fsolve(incrb=%r, rf_disp_only=%s): %s at %g Hz is %s, dynamic-stiffness solution is %s" % (
                        sname, incrb, rfdo, nm, freqs[c], np.round(got, 12).tolist(), np.round(ref, 12).tolist()))
    desc = "system %s, F=%s" % (p["name"], np.round(F, 6).tolist())
    return (True, desc + ": " + worst[1]) if worst else (False, desc + ": solvers satisfy the reference")


# ---------------------------------------------------------------------------
def psd_fn(eng, zero_row=False):
    """structure of solvepsd with the solver stubbed by fresh complex symbols;
    zero_row: the first force's PSD is identically zero (a force that is switched off)"""
    S.set_engine(eng)
    import pyyeti.ode._utilities as U
    from vsym.npproxy import rebind
    f = rebind([U.solvepsd], dict(np=O.NP))["solvepsd"]
    ndof, nfrc, nfreq, nrow = 3, 2, 3, 2
    fz = [z3.Real("f%d" % k) for k in range(nfreq)]
    eng.assume(z3.And([fz[0] > 0] + [fz[k + 1] > fz[k] for k in range(nfreq - 1)]))
    freq = np.array([S.SymR(z) for z in fz], dtype=object)
    calls = []

    class FS:
        rb = slice(0, 1)
        el = slice(1, 3)

        def fsolve(self, genforce, fr, **kw):
            i = len(calls)
            sol = SimpleNamespace(a=S.cmat("Ha%d" % i, ndof, nfreq), v=S.cmat("Hv%d" % i, ndof, nfreq), d=S.cmat("Hd%d" % i, ndof, nfreq))
            calls.append((genforce, kw, SimpleNamespace(a=sol.a.copy(), v=sol.v.copy(), d=sol.d.copy())))
            return sol

    psdz = [[z3.Real("P%d_%d" % (i, k)) for k in range(nfreq)] for i in range(nfrc)]
    for row in psdz:
        for z in row:
            eng.assume(z >= 0)
    if zero_row:
        psdz[0] = [z3.RealVal(0)] * nfreq
    forcepsd = O.sarr(psdz)
    if zero_row:
        forcepsd[0, :] = 0.0
    t_frc = O.sarr(O.zmat("T", ndof, nfrc))
    drma = O.sarr(O.zmat("Da", nrow, ndof))
    drmd = O.sarr(O.zmat("Dd", nrow, ndof))
    drmf = O.sarr(O.zmat("Df", nrow, nfrc))
    rbduf, elduf = S.SymR(z3.Real("rbduf")), S.SymR(z3.Real("elduf"))
    O.NP.sym = True
    info = dict(zero_row=zero_row)
    try:
        rms, psd = f(FS(), forcepsd, t_frc, freq, [[drma, None, drmd, drmf], [None, drma, None, None]],
                     rbduf=rbduf, elduf=elduf, incrb="av")
    except E.Inconclusive:
        raise
    except Exception as ex:
        return [E.Obl("solvepsd raises %r" % (ex,), False, info=info)]
    finally:
        O.NP.sym = False
    eng.tag("solvepsd")
    obls = []
    if not zero_row:
        obls.append(E.Obl("one fsolve per force", len(calls) == nfrc, info=info))
    # the transfer functions of force i, whichever call produced them (a switched-off force need not be solved)
    byforce = {}
    for gf, kw, Hh in calls:
        for i in range(nfrc):
            if all(z3.is_true(z3.simplify(S.lift(gf[r, 0]) == S.lift(t_frc[r, i]))) for r in range(ndof)):
                byforce.setdefault(i, Hh)
    if len(byforce) < nfrc - (1 if zero_row else 0) or (len(calls) != nfrc and not zero_row):
        return obls + [E.Obl("every active force is solved with its own column of t_frc", False, info=info)]
    if zero_row and 0 not in byforce:
        byforce[0] = SimpleNamespace(a=S.cmat("Hx", ndof, nfreq), v=S.cmat("Hy", ndof, nfreq), d=S.cmat("Hz", ndof, nfreq))
    for gf, kw, _ in calls:
        obls.append(E.Obl("options forwarded", kw == dict(incrb="av"), info=info))
        for r in range(ndof):
            for k in range(nfreq):
                obls.append(E.Obl("unit force pattern is constant over frequency", S.lift(gf[r, k]) == S.lift(gf[r, 0]), info=info))
    uf = [z3.Real("rbduf")] + [z3.Real("elduf")] * 2
    for j, which in enumerate(("avdf", "v")):
        for r in range(nrow):
            exp_ms = z3.RealVal(0)
            prev = None
            for k in range(nfreq):
                tot = z3.RealVal(0)
                for i in range(nfrc):
                    H = byforce[i]
                    re = z3.RealVal(0)
                    im = z3.RealVal(0)
                    for q in range(ndof):
                        if j == 0:
                            re = re + S.lift(drma[r, q]) * uf[q] * H.a[q, k].re + S.lift(drmd[r, q]) * uf[q] * H.d[q, k].re
                            im = im + S.lift(drma[r, q]) * uf[q] * H.a[q, k].im + S.lift(drmd[r, q]) * uf[q] * H.d[q, k].im
                        else:
                            re = re + S.lift(drma[r, q]) * uf[q] * H.v[q, k].re
                            im = im + S.lift(drma[r, q]) * uf[q] * H.v[q, k].im
                    if j == 0:
                        re = re + S.lift(drmf[r, i])
                    tot = tot + psdz[i][k] * (re * re + im * im)
                obls.append(E.Obl("psd[%d][%d,%d] = sum_i PSD_i |drm H_i|^2" % (j, r, k), S.lift(psd[j][r, k]) == tot, info=info))
                if prev is not None:
                    exp_ms = exp_ms + (fz[k] - fz[k - 1]) * (prev + tot) / 2
                prev = tot
            rr = rms[j][r]
            obls.append(E.Obl("rms[%d][%d] is a square root" % (j, r), isinstance(rr, S.SymRoot), info=info))
            if isinstance(rr, S.SymRoot):
                # the code forms the rms from its own psd array: with those nfreq terms replaced by fresh symbols the
                # obligation is a small polynomial identity (psd == sum over forces is proved above); the unabstracted
                # form is kept when the replacement does not remove every transfer-function symbol
                ts_ = [z3.Real("psdval_%d_%d_%d" % (j, r, k)) for k in range(nfreq)]
                ab = z3.substitute(rr.of, *[(S.lift(psd[j][r, k]), ts_[k]) for k in range(nfreq)])
                names = set(str(v) for v in _vars(ab))
                if names <= set(str(v) for v in ts_ + fz):
                    area_ab = z3.Sum([(fz[k] - fz[k - 1]) * (ts_[k - 1] + ts_[k]) / 2 for k in range(1, nfreq)])
                    obls.append(E.Obl("rms[%d][%d]^2 = trapezoidal area of the returned psd row" % (j, r), ab == area_ab, info=info))
                else:
                    obls.append(E.Obl("rms[%d][%d]^2 = trapezoidal area" % (j, r), rr.of == exp_ms, info=info))
    return obls


def _vars(t):
    seen, out, todo = set(), [], [t]
    while todo:
        e = todo.pop()
        if e.get_id() in seen:
            continue
        seen.add(e.get_id())
        if z3.is_const(e) and e.decl().kind() == z3.Z3_OP_UNINTERPRETED:
            out.append(e)
        todo.extend(e.children())
    return out


def replay_psd(p):
    """the model as given; if that does not reproduce (the abstracted rms obligation leaves the force PSDs and the
    matrices unconstrained, so the solver may have set them all to zero), the model's frequencies with generic other data"""
    ok, detail = _replay_psd(p)
    if not ok:
        q = dict(p)
        q["model"] = dict((k, v) for k, v in p["model"].items() if k in ("f0", "f1", "f2"))
        ok, detail = _replay_psd(q)
    return ok, detail


def _replay_psd(p):
    """real solver, concrete data: solvepsd against sum_i PSD_i |drm H_i|^2 built from unit-force fsolve runs"""
    from pyyeti import ode
    O.NP.sym = False
    mdl = p["model"]
    def gf(k, d):
        try:
            return float(Fraction(mdl[k]))
        except Exception:
            return d
    rng = np.random.RandomState(4)
    ndof, nfrc, nfreq, nrow = 3, 2, 3, 2
    m, b, k = np.ones(3), np.array([0.0, 0.6, 1.2]), np.array([0.0, 300.0, 1500.0])
    ts = ode.SolveUnc(m, b, k)
    freq = np.sort(np.array([gf("f%d" % q, 1.0 + 2 * q + 0.5 * q * q) for q in range(nfreq)]))
    if np.any(np.diff(freq) <= 0) or freq[0] <= 0:
        freq = np.array([1.0, 3.0, 5.5])
    P = np.array([[gf("P%d_%d" % (i, q), 0.5 + i + q) for q in range(nfreq)] for i in range(nfrc)])
    if p.get("zero_row"):
        P[0] = 0.0
    T = np.array([[gf("T_%d_%d" % (r, i), rng.randn()) for i in range(nfrc)] for r in range(ndof)])
    Da = np.array([[gf("Da_%d_%d" % (r, q), rng.randn()) for q in range(ndof)] for r in range(nrow)])
    Dd = np.array([[gf("Dd_%d_%d" % (r, q), rng.randn()) for q in range(ndof)] for r in range(nrow)])
    Df = np.array([[gf("Df_%d_%d" % (r, i), rng.randn()) for i in range(nfrc)] for r in range(nrow)])
    rbduf, elduf = gf("rbduf", 1.2), gf("elduf", 0.8)
    try:
        rms, psd = ode.solvepsd(ts, P, T, freq, [[Da, None, Dd, Df], [None, Da, None, None]], rbduf=rbduf, elduf=elduf, incrb="av")
    except Exception as ex:
        return True, "solvepsd raises %r (forcepsd %r)" % (ex, P.tolist())
    uf = np.array([rbduf, elduf, elduf])
    want0 = np.zeros((nrow, nfreq))
    want1 = np.zeros((nrow, nfreq))
    for i in range(nfrc):
        sol = ts.fsolve(T[:, [i]] @ np.ones((1, nfreq)), freq, incrb="av")
        h0 = Da @ (uf[:, None] * sol.a) + Dd @ (uf[:, None] * sol.d) + Df[:, [i]]
        h1 = Da @ (uf[:, None] * sol.v)
        want0 += P[i] * np.abs(h0) ** 2
        want1 += P[i] * np.abs(h1) ** 2
    msgs = []
    for nm, got, want in (("psd[0]", psd[0], want0), ("psd[1]", psd[1], want1)):
        if not np.allclose(got, want, rtol=1e-9, atol=1e-12 * max(1, np.abs(want).max())):
            msgs.append("%s differs from sum_i PSD_i |drm H_i|^2 by %.3e (scale %.3e)" % (nm, np.abs(got - want).max(), np.abs(want).max()))
    for nm, got, want in (("rms[0]", rms[0], want0), ("rms[1]", rms[1], want1)):
        area = np.sum(np.diff(freq) * (want[:, :-1] + want[:, 1:]) / 2, axis=1)
        if not np.allclose(np.asarray(got) ** 2, area, rtol=1e-9):
            msgs.append("%s^2 is not the trapezoidal area" % nm)
    if msgs:
        return True, "solvepsd with force PSDs %r: %s" % (P.tolist(), "; ".join(msgs[:3]))
    return False, "solvepsd equals the sum over forces on the real code"


def psd_job(zero_row=False):
    eng = E.Engine(obl_timeout_ms=120000)
    eng.obl_mode = "each"
    res = eng.explore(lambda e: psd_fn(e, zero_row))
    res["note"] = "solvepsd structure (zero first PSD row: %s)" % zero_row
    H.triage(res, "solvepsd", replay_psd, lambda c: dict(model=c["model"], zero_row=zero_row))
    return res


# ---------------------------------------------------------------------------
def hist_fn(name, tier):
    """fsolve -> tsolve -> fsolve on one solver object: the second frequency solution equals the first"""
    def fn(eng):
        S.set_engine(eng)
        from pyyeti import ode
        sysd = systems(tier)[name]
        M, B, K = O.full(sysd["m"], sysd["b"], sysd["k"])
        n = K.shape[0]
        freqs = [0.3, 7.0]
        info = dict(name=name, tier=tier)
        O.NP.sym = False
        ts = ode.SolveUnc(sysd["m"], sysd["b"], sysd["k"], 0.01, rf=sysd.get("rf"))
        F = S.cmat("F", n, len(freqs))
        for v in F.ravel():
            eng.assume(z3.And(v.re >= -1, v.re <= 1, v.im >= -1, v.im <= 1))
        try:
            O.NP.sym = True
            s1 = ts.fsolve(F.copy(), freqs)
            O.NP.sym = False
            ts.tsolve(np.ones((n, 4)))
            O.NP.sym = True
            s2 = ts.fsolve(F.copy(), freqs)
        except E.Inconclusive:
            raise
        except Exception as ex:
            return [E.Obl("fsolve/tsolve/fsolve sequence raises %r" % (ex,), False, info=info)]
        finally:
            O.NP.sym = False
        eng.tag("history")
        obls = []
        for nm in "dva":
            a1, a2 = getattr(s1, nm), getattr(s2, nm)
            for idx in np.ndindex(*a1.shape):
                obls.append(E.Obl("fsolve after a tsolve on the same object returns the same %s%s" % (nm, idx), S.close(a2[idx], a1[idx], 1e-12), info=info))
        return obls
    return fn


def replay_hist(p):
    from pyyeti import ode
    O.NP.sym = False
    sysd = systems(p["tier"])[p["name"]]
    n = O.full(sysd["m"], sysd["b"], sysd["k"])[2].shape[0]
    rng = np.random.RandomState(0)
    F = rng.randn(n, 2) + 1j * rng.randn(n, 2)
    ts = ode.SolveUnc(sysd["m"], sysd["b"], sysd["k"], 0.01, rf=sysd.get("rf"))
    s1 = ts.fsolve(F.copy(), [0.3, 7.0])
    ts.tsolve(np.ones((n, 4)))
    s2 = ts.fsolve(F.copy(), [0.3, 7.0])
    for nm in "dva":
        if not np.allclose(getattr(s1, nm), getattr(s2, nm), rtol=1e-10, atol=1e-12):
            return True, "SolveUnc(%s, h=0.01): fsolve, tsolve, fsolve - the second frequency solution differs from the first in %s by %.3e" % (
                p["name"], nm, np.abs(getattr(s1, nm) - getattr(s2, nm)).max())
    return False, "fsolve is unaffected by an intervening tsolve on the real code"


def hist_job(name, tier):
    O.patch_ode()
    eng = E.Engine()
    eng.obl_mode = "each"
    res = eng.explore(hist_fn(name, tier))
    res["note"] = "fsolve-tsolve-fsolve on %s" % name
    H.triage(res, "history", replay_hist, lambda c: dict(name=name, tier=tier))
    return res


REPLAY = {"fsolve": replay, "solvepsd": replay_psd, "history": replay_hist}


def jobs(tier, seed):
    out = [H.Job(name, job, name, tier, weight=5) for name in systems(tier)]
    for name, sysd in systems(tier).items():
        if _rb_rows(sysd):
            out.append(H.Job(name + "-freqorder2", job, name, tier, 1, weight=5))
            out.append(H.Job(name + "-negfreq", job, name, tier, 2, weight=5))
        if not np.isrealobj(np.asarray(sysd["k"])) or not np.isrealobj(np.asarray(sysd["b"])) or (sysd.get("m") is not None and not np.isrealobj(np.asarray(sysd["m"]))):
            continue
        out.append(H.Job(name + "-history", hist_job, name, tier, weight=5))
    out.append(H.Job("solvepsd", psd_job, weight=20))
    out.append(H.Job("solvepsd-zero-row", psd_job, True, weight=20))
    return out


def extra_coverage(results):
    from pyyeti.ode import SolveUnc, FreqDirect
    from pyyeti.ode._base_ode_class import _BaseODE
    import pyyeti.ode._utilities as U
    fns = [SolveUnc.fsolve, SolveUnc._solve_freq_unc, SolveUnc._solve_freq_coup, SolveUnc._solve_freq_rb, FreqDirect.fsolve,
           _BaseODE._init_dva, _BaseODE._solution_freq, U._process_incrb, U.solvepsd]
    return dict(functions_encoded=[H.fn_id(f) for f in fns])
