"""Plumbing of the OUTPUT2 kernels of C11: the OP2 class rebuilt from /repo's
current code with `np`, `struct`, `open` patched so that its methods run on the
symbolic record stream (vsym/recstream.py), plus an INDEPENDENT encoder of the
OUTPUT2 data-block layout written from the format description below (shares no
code with pyYeti; its transcription was compared once with the record structure
of pyyeti/tests/nastran_op2_data/{double_le,single_be}.op2)."""
import struct as _struct
import types

import numpy as np

from vsym import sym as S
from vsym import engine as E
from vsym import astload
from vsym import recstream as R
from checks import op4kit as K4


class Struct2(R.StructStub):
    """`struct` stand-in; a format without a byte-order prefix is the machine's
    own: concrete bytes are then really reinterpreted (format detection)"""

    @staticmethod
    def unpack(fmt, blob):
        if isinstance(blob, R.Blob) and fmt and fmt[0] not in "<>=!@":
            return _struct.unpack(fmt, blob.raw())
        return R._unpack(fmt, blob)


class NP2(K4.NPO):
    def array(self, a, dtype=None, **kw):
        if isinstance(a, (list, tuple)) and any(isinstance(v, (R.Tok, S.SymR)) for v in a):
            out = np.empty(len(a), dtype=object)
            for i, v in enumerate(a):
                out[i] = v
            return out
        return np.array(a, dtype=dtype, **kw)

    def empty(self, shape, dtype=float, order="C"):
        if isinstance(dtype, str) and dtype[-2:] in ("f4", "f8"):
            return np.empty(shape, dtype=object)
        return np.empty(shape, dtype=dtype, order=order)


def _sx_view(x, *a, **kw):
    """x.view(complex) of a C-contiguous 2-D object array of stored reals: adjacent pairs along the last axis"""
    if isinstance(x, np.ndarray) and x.dtype == object and a == (complex,) and not kw:
        if x.ndim != 2 or not x.flags.c_contiguous or x.shape[1] % 2:
            raise E.Inconclusive("view(complex) of an object array that is not C-contiguous with an even last axis")
        out = np.empty((x.shape[0], x.shape[1] // 2), dtype=object)
        for i in range(out.shape[0]):
            for j in range(out.shape[1]):
                re, im = x[i, 2 * j], x[i, 2 * j + 1]
                if isinstance(re, R.Tok) or isinstance(im, R.Tok):
                    out[i, j] = K4.CTok(re, im)
                else:
                    out[i, j] = complex(re, im)
        return out
    return x.view(*a, **kw)


_C = {}


def op2class():
    if "cls" in _C:
        return _C["cls"]
    import pyyeti.nastran.op2 as m
    g = dict(m.__dict__)
    g.update(np=NP2(), struct=Struct2, open=K4.sx_open, _sx_view=_sx_view)

    class OP2X(m.OP2):
        def __del__(self):
            pass
    for nm, f in list(vars(m.OP2).items()):
        static = isinstance(f, staticmethod)
        ff = f.__func__ if static else f
        if not isinstance(ff, types.FunctionType) or nm == "__del__":
            continue
        if nm == "rdop2matrix":
            nf = astload.load(ff, hooks=("view",), globs=g)
        else:
            nf = types.FunctionType(ff.__code__, g, nm, ff.__defaults__, ff.__closure__)
            nf.__kwdefaults__ = ff.__kwdefaults__
        setattr(OP2X, nm, staticmethod(nf) if static else nf)
    g["OP2"] = OP2X
    _C["cls"] = OP2X
    return OP2X


# ---------------------------------------------------------------------------
# independent encoder of the OUTPUT2 layout
#
#   Everything is a Fortran record  [4-byte length][payload][4-byte length].  A "key" is a record
#   holding one integer word (4 bytes, or 8 in 64-bit files).
#
#   optional file header:  key 3, record of 3 words (date), key 7, record of 28 bytes (NASTRAN FORT TAPE ID CODE),
#                          key 2, record of 8 bytes (label), key -1, key 0
#   data block header   :  key 2, record NAME (2 words), key -1, key 7, record TRAILER (7 words), key -2, key 1, key 0,
#                          key nh, record of nh words starting with NAME (nh = 2, or more), key -3, key 1,
#                          key TYPE (0 table, 1 matrix)
#   matrix              :  per column c = 0.. (every column, null ones too):
#                              per string: key = number of value words, record [IROW (1 word), values]
#                              key -(4 + c), key 1, key (1 if another column follows else 0)
#   table               :  per logical record k = 0..: per part: key = number of words, record of that many words;
#                              key -(4 + k), key 1, key 0
#   end of data block   :  key 0
#   a single-precision number is 4 bytes (8 in 64-bit files), a double 8 bytes; complex = 2 numbers (re, im);
#   trailer = (id, NCOLS, NROWS, FORM, TYPE, max words in a column, density)

def encode(blocks, endian, bit64, header=False):
    """-> (field list, [field index at which each data block starts] + [len])"""
    kw = 8 if bit64 else 4
    fields = []

    def mark(n):
        fields.append(R.Field(4, n, "i", endian, "marker"))

    def word(v, tag=""):
        fields.append(R.Field(kw, v, "i", endian, tag))

    def key(v):
        mark(kw)
        word(v, "key")
        mark(kw)

    def srec(text, nbytes):
        mark(nbytes)
        fields.append(R.Field(nbytes, text.ljust(nbytes).encode(), "s", endian, "text"))
        mark(nbytes)

    def name_words(nm):
        # 8 characters in two words; a 64-bit word carries 4 characters and 4 blanks
        nm = nm.upper().ljust(8)
        if bit64:
            return nm[:4] + "    " + nm[4:] + "    "
        return nm

    if header:
        key(3)
        mark(3 * kw)
        for v in (9, 28, 26):
            word(v, "date")
        mark(3 * kw)
        key(7)
        srec("NASTRAN FORT TAPE ID CODE - ", 28)
        key(2)
        srec("XXXXXXXX", 8)
        key(-1)
        key(0)
    starts = []
    for bi, b in enumerate(blocks):
        starts.append(len(fields))
        matrix = b["kind"] == "matrix"
        key(2)
        srec(name_words(b["name"]), 2 * kw)
        key(-1)
        key(7)
        if matrix:
            trailer = (101 + bi, b["cols"], b["rows"], b["form"], b["mtype"], 2 * b["rows"], 5000)
        else:
            trailer = (101 + bi, 1, 0, 600, 0, 0, 0)
        mark(7 * kw)
        for v in trailer:
            word(v, "trailer")
        mark(7 * kw)
        key(-2)
        key(1)
        key(0)
        extra = b.get("hdr_extra", 0)
        key(2 + extra)
        mark((2 + extra) * kw)
        fields.append(R.Field(2 * kw, name_words(b["name"]).encode(), "s", endian, "text"))
        for _ in range(extra):
            word(170, "hdr")
        mark((2 + extra) * kw)
        key(-3)
        key(1)
        key(1 if matrix else 0)
        if matrix:
            single, cplx = b["mtype"] in (1, 3), b["mtype"] in (3, 4)
            nbytes = 8 if (bit64 or not single) else 4
            fkind = "d" if nbytes == 8 else "f"
            wper = max(1, nbytes // kw)
            for c in range(b["cols"]):
                for r0, vals in b["columns"].get(c, []):
                    nums = [x for v in vals for x in (v if cplx else (v,))]
                    key(len(nums) * wper)
                    mark(kw + len(nums) * nbytes)
                    word(r0 + 1, "irow")
                    for x in nums:
                        fields.append(R.Field(nbytes, x, fkind, endian, "value"))
                    mark(kw + len(nums) * nbytes)
                key(-(4 + c))
                key(1)
                key(1 if c < b["cols"] - 1 else 0)
        else:
            for k, parts in enumerate(b["records"]):
                for part in parts:
                    key(len(part))
                    mark(len(part) * kw)
                    for v in part:
                        word(v, "data")
                    mark(len(part) * kw)
                key(-(4 + k))
                key(1)
                key(0)
        key(0)
    starts.append(len(fields))
    return fields, starts


def byte_pos(fields, idx):
    return sum(f.width for f in fields[:idx])


def to_bytes(fields, tokval):
    """the physical file of a fully concrete field list (replay)"""
    out = b""
    for f in fields:
        e = f.endian
        if f.kind == "i":
            out += _struct.pack(e + ("i" if f.width == 4 else "q"), int(f.val))
        elif f.kind == "s":
            out += f.val if isinstance(f.val, bytes) else f.val.encode()
        else:
            out += _struct.pack(e + f.kind, tokval(f.val))
    return out


def new_reader(fields):
    """OP2X opened on the stream through the real __init__/_op2open (format detection, header, directory)"""
    cls = op2class()
    fh = R.SymFile(fields)
    K4._OPEN[0] = lambda name, mode: fh
    o = cls("<stream>")
    return o, fh
