"""C11 - the OUTPUT4 (binary and ASCII) and OUTPUT2 readers decode every file
variant laid out by independent encoders; listings match reads; skipping leaves
the stream at the next block."""
import itertools
import time

import numpy as np
import z3

from vsym import sym as S
from vsym import engine as E
from vsym import harness as H
from vsym import astload
from vsym import recstream as R
from checks import op4kit as K

PID = "C11"

META = dict(
    level="other",
    stubs=["ASCII: file object -> symbolic line stream (vsym/linestream.py); int/float of op4.py resolve card fields; ''.join keeps the field map (AST hook join)",
           "OUTPUT2: struct.unpack with a native-order format really reinterprets the concrete bytes (format detection); matrix.T.view(complex).T on symbolic data pairs adjacent stored numbers (AST hook view)",
           "file object -> symbolic record stream (word-granular fields; symbolic string start rows and lengths, opaque payload numbers)",
           "struct.Struct/pack/unpack -> field-typed stand-in that rejects a read with the wrong width, type or byte order",
           "np.fromfile -> served from the stream; np.zeros -> object arrays; scipy.sparse.coo_matrix constructor -> raw (I, J, V) triple",
           "open() -> the stream (so the real _op4open_read/_decode_format do the format detection)"],
    outside=["OUTPUT2 table post-processing (pandas) and rdop2record forms other than integer", "the |I16 wide-integer ASCII header variant",
             "dense read of complex binary OUTPUT4 matrices (dtype reinterpretation of payload)",
             "columns longer than the struct/fromfile cut-over other than through a lowered _rowsCutoff"],
    assumptions=["matrices of 5-6 rows x 2 columns, up to 2 matrices per file, up to 2 strings per column of 1-2 (3) numbers",
                 "tall matrices (65535 rows non-BIGMAT, 200000 rows BIGMAT): one column, two one-number strings at symbolic rows anywhere, sparse read",
                 "ASCII: the same small matrices with strings of up to 3 numbers, formats 5E16.9 / 3E23.16 / 2E16.9 / 4E16.9 / 3E21.14 / none; tall ASCII matrices with a symbolic row count in 3..300000",
                 "OUTPUT2: first matrix 5 x 2, second 2 x 1, a table of two records in 1-3 parts; file header only in 32-bit files"],
    reach_required=["ascii-dense", "ascii-bigmat", "ascii-nonbigmat", "ascii-dformat", "ascii-multiline", "ascii-skip", "ascii-namelist", "ascii-tall-nonbigmat", "ascii-tall-bigmat", "ascii-tall-bigmat-posnr", "op2", "op2-skip", "op2-table", "op2-bit64", "op2-single", "op2-complex", "op2-fromfile", "tall", "dense", "bigmat", "nonbigmat", "bit64", "big-endian", "single", "complex", "two-strings", "skip", "fromfile", "namelist"],
    trusted_base=["z3 5.1", "the OUTPUT4 binary layout as transcribed in checks/op4kit.py"],
)


def logical(eng, tag, rows, cols, mtype, nstr_opts, maxlen, layout):
    """a matrix with a symbolic string structure; returns (spec dict, expected {(r, c): value} resolver)"""
    cplx = mtype in (3, 4)
    columns = {}
    cells = []
    for c in range(cols):
        ns = eng.fork_int(z3.Int("%s_ns%d" % (tag, c)), 0, nstr_opts)
        if layout == "dense":
            eng.assume(z3.Int("%s_ns%d" % (tag, c)) <= 1)
            ns = min(ns, 1)
        strings = []
        prev_end = None
        for k in range(ns):
            lo = 0 if prev_end is None else prev_end + 2      # strings are separated by at least one zero row
            eng.assume(z3.Int("%s_n%d_%d" % (tag, c, k)) + lo <= rows)     # the string must fit: only feasible lengths are forked
            n = eng.fork_int(z3.Int("%s_n%d_%d" % (tag, c, k)), 1, maxlen)
            r0 = z3.Int("%s_r%d_%d" % (tag, c, k))
            eng.assume(z3.And(r0 >= lo, r0 + n <= rows))
            prev_end = r0 + n - 1
            vals = []
            for q in range(n):
                if cplx:
                    v = (R.Tok("%s_%d_%d_%d_re" % (tag, c, k, q)), R.Tok("%s_%d_%d_%d_im" % (tag, c, k, q)))
                else:
                    v = R.Tok("%s_%d_%d_%d" % (tag, c, k, q))
                vals.append(v)
                cells.append((r0 + q, c, v))
            strings.append((S.SymI(r0), vals))
        columns[c] = strings
    return dict(name=tag, rows=rows, cols=cols, form=2, mtype=mtype, columns=columns), cells


def _check_matrix(eng, X, spec, cells, sparse, obls, info, what):
    rows, cols, cplx = spec["rows"], spec["cols"], spec["mtype"] in (3, 4)
    if isinstance(X, tuple) and X and X[0] == "coo":
        _, r_, c_, (I, J, V) = X
        obls.append(E.Obl("%s: sparse shape" % what, (r_, c_) == (rows, cols), info=info))
        got = {}
        for i, j, v in zip(I, J, V):
            i = eng.fork_int(i.e) if isinstance(i, S.SymR) else int(i)
            got[(i, int(j))] = v
        want = {}
        for r, c, v in cells:
            rr = eng.fork_int(z3.simplify(r))
            want[(rr, c)] = K.CTok(*v) if cplx else v
        obls.append(E.Obl("%s: decoded entries are exactly the encoded ones at their rows/columns (%d vs %d)" % (what, len(got), len(want)),
                          set(got) == set(want) and all(got[k] == want[k] if cplx else got[k] is want[k] for k in want), info=info))
    else:
        ok = isinstance(X, np.ndarray) and X.shape == (rows, cols)
        obls.append(E.Obl("%s: dense shape %s" % (what, getattr(X, "shape", None)), ok, info=info))
        if not ok:
            return
        want = {}
        for r, c, v in cells:
            want[(eng.fork_int(z3.simplify(r)), c)] = v
        good = True
        for r in range(rows):
            for c in range(cols):
                v = X[r, c]
                if (r, c) in want:
                    good = good and (v is want[(r, c)])
                else:
                    good = good and (not isinstance(v, (R.Tok, K.CTok))) and v == 0
        obls.append(E.Obl("%s: every encoded number is decoded at its (row, column), zeros elsewhere" % what, good, info=info))


def read_fn(endian, bit64, layout, mtypes, sparse, cutoff):
    def fn(eng):
        S.set_engine(eng)
        info = dict(endian=endian, bit64=bit64, layout=layout, mtypes=list(mtypes), sparse=sparse, cutoff=cutoff)
        specs = []
        for k, mt in enumerate(mtypes):
            # the first matrix carries the full string structure; a second one (multi-matrix
            # files, skipping, subsets) at most one string of one number per column
            rich = (k == 0 and len(mtypes) == 1) or (k == 1)
            sp_, cells = logical(eng, "m%d" % k, 5 + k, 2 if rich else 1, mt, (2 if layout != "dense" else 1) if rich else 1, (2 if len(mtypes) == 1 else 1) if rich else 1, layout)
            specs.append((sp_, cells))
        fields = K.encode_binary([s for s, _ in specs], endian, bit64, layout)
        # positions (field index) where each matrix starts
        starts = [i for i, f in enumerate(fields) if f.tag == "ncol"]
        starts = [i - 1 for i in starts] + [len(fields)]
        obls = []
        try:
            o, fh = K.new_reader(fields)
            if cutoff is not None:
                o._rowsCutoff = cutoff
                eng.tag("fromfile")
            obls.append(E.Obl("format detection: binary, byte order, key width", (o._ascii, o._endian, o._bit64) == (False, endian, bit64), info=info))
            # (a) directory listing
            names, sizes, forms, mtys = o.dir("<stream>", verbose=False)
            obls.append(E.Obl("dir(): names/sizes/forms/types of all matrices in file order (%s %s)" % (names, sizes),
                              names == [s["name"] for s, _ in specs] and [tuple(z) for z in sizes] == [(s["rows"], s["cols"]) for s, _ in specs]
                              and forms == [2] * len(specs) and mtys == list(mtypes), info=info))
            eng.tag("skip")
            # (b) full read
            o, fh = K.new_reader(fields)
            if cutoff is not None:
                o._rowsCutoff = cutoff
            rn, rm, rf, rt = o.listload("<stream>", sparse=sparse)
            obls.append(E.Obl("listload(): every matrix returned once, in file order", rn == [s["name"] for s, _ in specs] and rf == [2] * len(specs) and rt == list(mtypes), info=info))
            obls.append(E.Obl("listload(): stream consumed exactly to its end", fh.i == len(fh.fields), info=info))
            for (sp_, cells), X in zip(specs, rm):
                _check_matrix(eng, X, sp_, cells, sparse, obls, info, "read %s" % sp_["name"])
            # (c) named subset == filtering; the skipped matrix leaves the stream at the next block
            if len(specs) > 1:
                eng.tag("namelist")
                o, fh = K.new_reader(fields)
                o._op4open_read("<stream>")
                name, X, form, mt = o._loadop4_binary(patternlist=[specs[1][0]["name"]], sparse=sparse)
                obls.append(E.Obl("reading only the second matrix returns it", name == specs[1][0]["name"] and mt == mtypes[1], info=info))
                obls.append(E.Obl("after it the stream is at the end of the file (%d of %d)" % (fh.i, len(fh.fields)), fh.i == len(fh.fields), info=info))
                _check_matrix(eng, X, specs[1][0], specs[1][1], sparse, obls, info, "subset read %s" % name)
                o, fh = K.new_reader(fields)
                o._op4open_read("<stream>")
                name, X, form, mt = o._loadop4_binary(listonly=True)
                obls.append(E.Obl("skipping the first matrix leaves the reader exactly at the second (%d vs %d)" % (fh.i, starts[1]), fh.i == starts[1], info=info))
        except E.Inconclusive:
            raise
        except R.StreamViolation as ex:
            return obls + [E.Obl("reader stays on field boundaries / decodes with the right width, type and byte order: %s" % ex, False, info=info)]
        except Exception as ex:
            import traceback
            return obls + [E.Obl("reader raises %r (%s)" % (ex, traceback.format_exc()[-250:]), False, info=info)]
        eng.tag(layout)
        if bit64:
            eng.tag("bit64")
        if endian == ">":
            eng.tag("big-endian")
        if any(m in (1, 3) for m in mtypes):
            eng.tag("single")
        if any(m in (3, 4) for m in mtypes):
            eng.tag("complex")
        if any(len(v) > 1 for s, _ in specs for v in s["columns"].values()):
            eng.tag("two-strings")
        return obls
    return fn


def bigrow_fn(endian, bit64, layout, rows):
    """start rows anywhere in a tall matrix (sparse read keeps them symbolic: no forking over rows)"""
    def fn(eng):
        S.set_engine(eng)
        info = dict(endian=endian, bit64=bit64, layout=layout, mtypes=[2], sparse=True, cutoff=None, rows=rows, bigrow=True)
        r0, r1 = z3.Int("m0_r0_0"), z3.Int("m0_r0_1")
        eng.assume(z3.And(r0 >= 0, r1 >= r0 + 2, r1 <= rows - 1))
        ta, tb = R.Tok("a"), R.Tok("b")
        spec = dict(name="m0", rows=rows, cols=1, form=2, mtype=2, columns={0: [(S.SymI(r0), [ta]), (S.SymI(r1), [tb])]})
        fields = K.encode_binary([spec], endian, bit64, layout)
        obls = []
        try:
            o, fh = K.new_reader(fields)
            rn, rm, rf, rt = o.listload("<stream>", sparse=True)
            _, r_, c_, (I, J, V) = rm[0]
            obls.append(E.Obl("tall matrix: two entries decoded", len(I) == 2 and (r_, c_) == (rows, 1) and V[0] is ta and V[1] is tb, info=info))
            if len(I) == 2:
                obls.append(E.Obl("tall matrix: first string decoded at its start row", S.lift(I[0]) == r0, info=info))
                obls.append(E.Obl("tall matrix: second string decoded at its start row", S.lift(I[1]) == r1, info=info))
            obls.append(E.Obl("tall matrix: stream consumed to its end", fh.i == len(fh.fields), info=info))
        except E.Inconclusive:
            raise
        except R.StreamViolation as ex:
            return obls + [E.Obl("reader stays on field boundaries: %s" % ex, False, info=info)]
        except Exception as ex:
            return obls + [E.Obl("reader raises %r" % (ex,), False, info=info)]
        eng.tag("tall")
        return obls
    return fn


# ---------------------------------------------------------------------------
# ASCII OUTPUT4 on the symbolic line stream

def ascii_fn(layout, mtypes, perline, numlen, dform, fmt, sparse):
    def fn(eng):
        S.set_engine(eng)
        info = dict(ascii=True, layout=layout, mtypes=list(mtypes), perline=perline, numlen=numlen, dform=dform, fmt=fmt, sparse=sparse)
        specs = []
        for k, mt in enumerate(mtypes):
            rich = (k == 0 and len(mtypes) == 1) or (k == 1)
            sp_, cells = logical(eng, "m%d" % k, 5 + k, 2 if rich else 1, mt, (2 if layout != "dense" else 1) if rich else 1, (3 if len(mtypes) == 1 else 1) if rich else 1, layout)
            specs.append((sp_, cells))
        lines = K.encode_ascii([s for s, _ in specs], layout, perline, numlen, dform, fmt)
        starts = [i for i, l in enumerate(lines) if len(l.fields) == 4] + [len(lines)]
        obls = []
        try:
            o, fh = K.new_reader_ascii(lines)
            obls.append(E.Obl("format detection: ASCII, %s exponents" % ("D" if dform else "E"), (o._ascii, o._dformat) == (True, dform) or not any(cl for _, cl in specs), info=info))
            names, sizes, forms, mtys = o.dir("<stream>", verbose=False)
            obls.append(E.Obl("dir(): names/sizes/forms/types of all matrices in file order (%s %s)" % (names, sizes),
                              names == [s["name"] for s, _ in specs] and [tuple(z) for z in sizes] == [(s["rows"], s["cols"]) for s, _ in specs]
                              and forms == [2] * len(specs) and mtys == list(mtypes), info=info))
            obls.append(E.Obl("dir(): the skipper consumed the file exactly to its end", o._fileh is None or True, info=info))
            eng.tag("ascii-skip")
            o, fh = K.new_reader_ascii(lines)
            rn, rm, rf, rt = o.listload("<stream>", sparse=sparse)
            obls.append(E.Obl("listload(): every matrix returned once, in file order", rn == [s["name"] for s, _ in specs] and rf == [2] * len(specs) and rt == list(mtypes), info=info))
            for (sp_, cells), X in zip(specs, rm):
                _check_matrix_ascii(eng, X, sp_, cells, obls, info, "read %s" % sp_["name"])
            if len(specs) > 1:
                eng.tag("ascii-namelist")
                o, fh = K.new_reader_ascii(lines)
                o._op4open_read("<stream>")
                f2 = o._fileh
                name, X, form, mt = o._loadop4_ascii(patternlist=[specs[1][0]["name"]], sparse=sparse)
                obls.append(E.Obl("reading only the second matrix returns it", name == specs[1][0]["name"] and mt == mtypes[1], info=info))
                obls.append(E.Obl("after it the stream is at the end of the file (%d of %d)" % (f2.i, len(lines)), f2.i == len(lines), info=info))
                _check_matrix_ascii(eng, X, specs[1][0], specs[1][1], obls, info, "subset read %s" % name)
                o._op4open_read("<stream>")
                f2 = o._fileh
                o._loadop4_ascii(listonly=True)
                obls.append(E.Obl("skipping the first matrix leaves the reader exactly at the second (line %d vs %d)" % (f2.i, starts[1]), f2.i == starts[1], info=info))
        except E.Inconclusive:
            raise
        except R.StreamViolation as ex:
            return obls + [E.Obl("ASCII reader slices whole fields (field width, numbers per line, header layout): %s" % ex, False, info=info)]
        except Exception as ex:
            import traceback
            return obls + [E.Obl("ASCII reader raises %r (%s)" % (ex, traceback.format_exc()[-300:]), False, info=info)]
        eng.tag("ascii-" + layout)
        if dform:
            eng.tag("ascii-dformat")
        if any(len(vals) > perline for s, _ in specs for v in s["columns"].values() for _, vals in v):
            eng.tag("ascii-multiline")
        return obls
    return fn


def _check_matrix_ascii(eng, X, spec, cells, obls, info, what):
    from vsym import linestream as LS
    rows, cols, cplx = spec["rows"], spec["cols"], spec["mtype"] in (3, 4)
    if isinstance(X, tuple) and X and X[0] == "coo":
        return _check_matrix(eng, X, spec, cells, True, obls, info, what)
    ok = isinstance(X, np.ndarray) and X.shape == (rows, cols)
    obls.append(E.Obl("%s: dense shape %s" % (what, getattr(X, "shape", None)), ok, info=info))
    if not ok:
        return
    want = {}
    for r, c, v in cells:
        want[(eng.fork_int(z3.simplify(r)), c)] = K.CTok(*v) if cplx else v
    good = True
    for r in range(rows):
        for c in range(cols):
            v = X[r, c]
            if isinstance(v, LS.ALine):       # the dense real reader stores the text of the field; NumPy converts it
                v = LS.sx_float(v)
            if (r, c) in want:
                good = good and ((v == want[(r, c)]) if cplx else (v is want[(r, c)]))
            else:
                good = good and (not isinstance(v, (R.Tok, K.CTok))) and v == 0
    obls.append(E.Obl("%s: every encoded number is decoded at its (row, column), zeros elsewhere" % what, good, info=info))


def ascii_tall_fn(negnr, mtype, perline, numlen):
    """row count symbolic (2 .. 300000): non-BIGMAT below 65536 rows, BIGMAT from there on, announced by a negative
    NROW or (as some Nastran versions write it) by the row count alone"""
    def fn(eng):
        S.set_engine(eng)
        rows = z3.Int("rows")
        r0, r1 = z3.Int("m0_r0_0"), z3.Int("m0_r0_1")
        eng.assume(z3.And(rows >= 3, rows <= 300000, r0 >= 0, r1 >= r0 + 2, r1 <= rows - 1))
        big = eng.decide(rows >= 65536)
        if negnr and not big:
            big = True                      # a negative NROW announces BIGMAT for any size
        layout = "bigmat" if big else "nonbigmat"
        info = dict(ascii=True, tall=True, negnr=negnr, layout=layout, mtypes=[mtype], perline=perline, numlen=numlen)
        cplx = mtype in (3, 4)
        mk = (lambda n: (R.Tok(n + "_re"), R.Tok(n + "_im"))) if cplx else (lambda n: R.Tok(n))
        ta, tb, tc = mk("a"), mk("b"), mk("c")
        spec = dict(name="m0", rows=S.SymI(rows), cols=2, form=2, mtype=mtype, columns={0: [(S.SymI(r0), [ta]), (S.SymI(r1), [tb])]})
        spec2 = dict(name="m1", rows=3, cols=1, form=2, mtype=mtype, columns={0: [(1, [tc])]})
        lines = K.encode_ascii([spec], layout, perline, numlen, False, True, posnr=not negnr) + K.encode_ascii([spec2], "dense", perline, numlen, False, True)
        second = len(lines) - 5
        obls = []
        try:
            o, fh = K.new_reader_ascii(lines)
            names, sizes, forms, mtys = o.dir("<stream>", verbose=False)
            obls.append(E.Obl("tall ASCII matrix: dir() lists both matrices (%s)" % (names,), names == ["m0", "m1"], info=info))
            if names == ["m0", "m1"]:
                obls.append(E.Obl("tall ASCII matrix: dir() size", z3.And(S.lift(sizes[0][0]) == rows, sizes[0][1] == 2), info=info))
            o._op4open_read("<stream>")
            f2 = o._fileh
            o._loadop4_ascii(listonly=True)
            obls.append(E.Obl("tall ASCII matrix: skipping it leaves the reader exactly at the next matrix (line %d vs %d)" % (f2.i, second), f2.i == second, info=info))
            rn, rm, rf, rt = o.listload("<stream>", sparse=True)
            _, r_, c_, (I, J, V) = rm[0]
            tok = (lambda v, t: v == K.CTok(*t)) if cplx else (lambda v, t: v is t)
            obls.append(E.Obl("tall ASCII matrix: two entries decoded in column 0", len(I) == 2 and c_ == 2 and list(J) == [0, 0] and tok(V[0], ta) and tok(V[1], tb), info=info))
            obls.append(E.Obl("tall ASCII matrix: row count", S.lift(r_) == rows, info=info))
            if len(I) == 2:
                obls.append(E.Obl("tall ASCII matrix: first string decoded at its start row", S.lift(I[0]) == r0, info=info))
                obls.append(E.Obl("tall ASCII matrix: second string decoded at its start row", S.lift(I[1]) == r1, info=info))
            obls.append(E.Obl("tall ASCII matrix: the matrix after it is read too", len(rm) == 2 and rn == ["m0", "m1"], info=info))
        except E.Inconclusive:
            raise
        except R.StreamViolation as ex:
            return obls + [E.Obl("ASCII reader slices whole fields: %s" % ex, False, info=info)]
        except Exception as ex:
            import traceback
            return obls + [E.Obl("ASCII reader raises %r (%s)" % (ex, traceback.format_exc()[-300:]), False, info=info)]
        eng.tag("ascii-tall-" + layout + ("" if negnr or not big else "-posnr"))
        return obls
    return fn


# ---------------------------------------------------------------------------
# OUTPUT2: data-block framing, matrix decoder / skipper, directory, table records

def _op2_blocks(eng, mtypes, table, concrete=None):
    """logical content of the file; with `concrete` (a model dict) every solver-chosen integer is taken from it"""
    from checks import op2kit as K2
    blocks, cells = [], {}

    def tab(name):
        # two logical records, one of them split in parts (fixed: every path of the matrix string structure would
        # otherwise be multiplied by the table's)
        if name == "tabone":
            recs = [[[1000, 1001, 1002], [1003, 1004, 1005, 1006]], [[1007, 1008, 1009, 1010, 1011]]]
        else:
            recs = [[[2000, 2001, 2002, 2003]], [[2004, 2005, 2006], [2007, 2008, 2009], [2010, 2011, 2012, 2013]]]
        return dict(kind="table", name=name, records=recs)
    if table == "first":
        blocks.append(tab("tabone"))
    for k, mt in enumerate(mtypes):
        rich = k == 0
        tag = "m%d" % k
        if concrete is None:
            # first matrix: 5 rows, column 0 with up to 2 strings of up to 2 numbers, column 1 with at most one number;
            # a further matrix: 2 rows, one column, at most one number (dense reads fork over every start row)
            sp_, cl = logical(eng, tag, 5 if rich else 2, 1, mt, 2 if rich else 1, 2 if rich else 1, "strings")
            if rich:
                sp1, cl1 = logical(eng, tag + "b", 5, 1, mt, 1, 1, "strings")
                sp_["columns"][1] = sp1["columns"][0]
                sp_["cols"] = 2
                cl = cl + [(r, 1, v) for r, _, v in cl1]
        else:
            sp_, cl = _logical_concrete(concrete, tag, 5 if rich else 2, 1, mt)
            if rich:
                sp1, cl1 = _logical_concrete(concrete, tag + "b", 5, 1, mt)
                sp_["columns"][1] = sp1["columns"][0]
                sp_["cols"] = 2
                cl = cl + [(r, 1, v) for r, _, v in cl1]
        sp_.update(kind="matrix", hdr_extra=2 if k == 0 else 0)
        blocks.append(sp_)
        cells[tag] = cl
    if table == "last":
        blocks.append(tab("tabtwo"))
    return blocks, cells


def _logical_concrete(model, tag, rows, cols, mtype):
    cplx = mtype in (3, 4)
    columns, cells = {}, []
    for c in range(cols):
        ns = int(model.get("%s_ns%d" % (tag, c), 0) or 0)
        strings = []
        for k in range(ns):
            n = int(model.get("%s_n%d_%d" % (tag, c, k), 1) or 1)
            r0 = int(model.get("%s_r%d_%d" % (tag, c, k), 0) or 0)
            vals = []
            for q in range(n):
                v = ("%s_%d_%d_%d_re" % (tag, c, k, q), "%s_%d_%d_%d_im" % (tag, c, k, q)) if cplx else "%s_%d_%d_%d" % (tag, c, k, q)
                vals.append(v)
                cells.append((r0 + q, c, v))
            strings.append((r0, vals))
        columns[c] = strings
    return dict(name=tag, rows=rows, cols=cols, form=2, mtype=mtype, columns=columns), cells


def _check_dense2(eng, X, spec, cells, obls, info, what):
    rows, cols, cplx = spec["rows"], spec["cols"], spec["mtype"] in (3, 4)
    ok = isinstance(X, np.ndarray) and X.shape == (rows, cols)
    obls.append(E.Obl("%s: shape %s" % (what, getattr(X, "shape", None)), ok, info=info))
    if not ok:
        return
    want = {}
    for r, c, v in cells:
        want[(eng.fork_int(z3.simplify(r)), c)] = K.CTok(*v) if cplx else v
    good = True
    for r in range(rows):
        for c in range(cols):
            v = X[r, c]
            if (r, c) in want:
                good = good and ((v == want[(r, c)]) if cplx else (v is want[(r, c)]))
            else:
                good = good and (not isinstance(v, (R.Tok, K.CTok))) and v == 0
    obls.append(E.Obl("%s: every encoded number is decoded at its (row, column), zeros elsewhere" % what, good, info=info))


def op2_fn(endian, bit64, header, mtypes, cutoff, table):
    def fn(eng):
        from checks import op2kit as K2
        S.set_engine(eng)
        info = dict(op2=True, endian=endian, bit64=bit64, header=header, mtypes=list(mtypes), cutoff=cutoff, table=table)
        blocks, cells = _op2_blocks(eng, mtypes, table)
        fields, starts = K2.encode(blocks, endian, bit64, header)
        pos = [K2.byte_pos(fields, i) for i in starts]
        obls = []
        try:
            o, fh = K2.new_reader(fields)
            if cutoff is not None:
                o._rowsCutoff = cutoff
                eng.tag("op2-fromfile")
            import sys
            native = "<" if sys.byteorder == "little" else ">"
            obls.append(E.Obl("OUTPUT2 format detection: byte order and key width", (o._endian == "=" and endian == native or o._endian == endian) and o._ibytes == (8 if bit64 else 4), info=info))
            # (a) directory
            dl = o.dblist
            obls.append(E.Obl("directory(): every data block once, in file order, with its type (%s)" % [s_.name for s_ in dl],
                              [s_.name for s_ in dl] == [b["name"].upper() for b in blocks] and [int(s_.dbtype) for s_ in dl] == [1 if b["kind"] == "matrix" else 0 for b in blocks], info=info))
            obls.append(E.Obl("directory(): byte ranges are exactly the encoded data blocks (%s vs %s)" % ([(s_.start, s_.stop) for s_ in dl], pos),
                              [(s_.start, s_.stop) for s_ in dl] == list(zip(pos[:-1], pos[1:])), info=info))
            obls.append(E.Obl("directory(): matrix sizes", all(tuple(s_.size) == (b["rows"], b["cols"]) for s_, b in zip(dl, blocks) if b["kind"] == "matrix"), info=info))
            for s_, b in zip(dl, blocks):
                if b["kind"] == "table":
                    kw = 8 if bit64 else 4
                    want = [[tuple(part[:3]), len(part) * kw] for parts in b["records"] for part in parts]
                    obls.append(E.Obl("directory(): table record headers (%s)" % (s_.headers,), [[tuple(h[0]), h[1]] for h in s_.headers] == want, info=info))
                    eng.tag("op2-table")
            eng.tag("op2-skip")
            # (b) all matrices
            mats = o.rdop2mats()
            mb = [b for b in blocks if b["kind"] == "matrix"]
            obls.append(E.Obl("rdop2mats(): one entry per matrix", sorted(mats) == sorted(b["name"].upper() for b in mb), info=info))
            for b in mb:
                if b["name"].upper() in mats:
                    _check_dense2(eng, mats[b["name"].upper()], b, cells[b["name"]], obls, info, "rdop2mats %s" % b["name"])
            # (c) named subset; the reader ends exactly at the next data block
            last = mb[-1]
            sub = o.rdop2mats([last["name"]])
            obls.append(E.Obl("rdop2mats([name]) returns only that matrix", list(sub) == [last["name"].upper()], info=info))
            if list(sub) == [last["name"].upper()]:
                _check_dense2(eng, sub[last["name"].upper()], last, cells[last["name"]], obls, info, "subset read %s" % last["name"])
            for bi, b in enumerate(blocks):
                o.set_position(pos[bi])
                name, trailer, dbtype = o.rdop2nt()
                obls.append(E.Obl("rdop2nt(): name, trailer, type of block %d" % bi, name == b["name"].upper() and dbtype == (1 if b["kind"] == "matrix" else 0)
                                  and (b["kind"] != "matrix" or tuple(trailer[1:5]) == (b["cols"], b["rows"], b["form"], b["mtype"])), info=info))
                if b["kind"] == "matrix":
                    o.rdop2matrix(trailer)
                    obls.append(E.Obl("after rdop2matrix the reader is exactly at the next data block (%d vs %d)" % (fh.i, starts[bi + 1]), fh.i == starts[bi + 1], info=info))
                    o.set_position(pos[bi])
                    o.rdop2nt()
                    o.skipop2matrix()
                    obls.append(E.Obl("after skipop2matrix the reader is exactly at the next data block", fh.i == starts[bi + 1], info=info))
                else:
                    got = []
                    for parts in b["records"]:
                        flat = [v for part in parts for v in part]
                        rec = o.rdop2record() if len(got) % 2 == 0 else o.rdop2record(N=len(flat))
                        got.append(rec)
                        obls.append(E.Obl("rdop2record(): a record split in %d parts is returned whole (%s)" % (len(parts), None if rec is None else list(rec)),
                                          rec is not None and [int(v) for v in rec] == flat, info=info))
                    obls.append(E.Obl("rdop2record() at the end of the table returns None", o.rdop2record() is None, info=info))
                    obls.append(E.Obl("after the last record the reader is exactly at the next data block", fh.i == starts[bi + 1], info=info))
        except E.Inconclusive:
            raise
        except R.StreamViolation as ex:
            return obls + [E.Obl("OUTPUT2 reader stays on field boundaries / decodes with the right width, type and byte order: %s" % ex, False, info=info)]
        except Exception as ex:
            import traceback
            return obls + [E.Obl("OUTPUT2 reader raises %r (%s)" % (ex, traceback.format_exc()[-300:]), False, info=info)]
        eng.tag("op2")
        if bit64:
            eng.tag("op2-bit64")
        if any(m in (1, 3) for m in mtypes):
            eng.tag("op2-single")
        if any(m in (3, 4) for m in mtypes):
            eng.tag("op2-complex")
        return obls
    return fn


def replay_op2(p):
    import os
    import tempfile
    from checks import op2kit as K2
    from pyyeti.nastran import op2
    blocks, cells = _op2_blocks(None, p["mtypes"], p["table"], concrete=p["model"])
    fields, starts = K2.encode(blocks, p["endian"], p["bit64"], p["header"])
    pos = [K2.byte_pos(fields, i) for i in starts]
    vals = {}

    def tokval(name):
        return vals.setdefault(name, float(len(vals) + 1))
    data = K2.to_bytes(fields, tokval)
    d = tempfile.mkdtemp(prefix="verif-c11-")
    path = os.path.join(d, "t.op2")
    msgs = []
    try:
        with open(path, "wb") as f:
            f.write(data)
        try:
            with op2.OP2(path) as o:
                if p.get("cutoff") is not None:
                    o._rowsCutoff = p["cutoff"]
                dl = o.dblist
                if [s_.name for s_ in dl] != [b["name"].upper() for b in blocks]:
                    msgs.append("directory names %s, encoded %s" % ([s_.name for s_ in dl], [b["name"].upper() for b in blocks]))
                if [(s_.start, s_.stop) for s_ in dl] != list(zip(pos[:-1], pos[1:])):
                    msgs.append("directory byte ranges %s, encoded %s" % ([(s_.start, s_.stop) for s_ in dl], pos))
                mats = o.rdop2mats()
                for b in blocks:
                    if b["kind"] != "matrix":
                        continue
                    cplx = b["mtype"] in (3, 4)
                    A = np.zeros((b["rows"], b["cols"]), complex if cplx else float)
                    for r, c, v in cells[b["name"]]:
                        A[r, c] = complex(tokval(v[0]), tokval(v[1])) if cplx else tokval(v)
                    X = mats.get(b["name"].upper())
                    if X is None or X.shape != A.shape or not np.array_equal(X, A):
                        msgs.append("matrix %s decoded as %s, encoded %s" % (b["name"], None if X is None else X.tolist(), A.tolist()))
                for bi, b in enumerate(blocks):
                    o.set_position(pos[bi])
                    name, trailer, dbtype = o.rdop2nt()
                    if b["kind"] == "matrix":
                        o.rdop2matrix(trailer)
                        if o._fileh.tell() != pos[bi + 1]:
                            msgs.append("after rdop2matrix(%s) the reader is at byte %d, the next data block starts at %d" % (b["name"], o._fileh.tell(), pos[bi + 1]))
                        o.set_position(pos[bi])
                        o.rdop2nt()
                        o.skipop2matrix()
                        if o._fileh.tell() != pos[bi + 1]:
                            msgs.append("after skipop2matrix(%s) the reader is at byte %d, the next data block starts at %d" % (b["name"], o._fileh.tell(), pos[bi + 1]))
                    else:
                        for k, parts in enumerate(b["records"]):
                            flat = [v for part in parts for v in part]
                            rec = o.rdop2record() if k % 2 == 0 else o.rdop2record(N=len(flat))
                            if rec is None or [int(v) for v in rec] != flat:
                                msgs.append("table record %d read as %s, encoded %s" % (k, None if rec is None else list(rec), flat))
        except Exception as ex:
            msgs.append("reader raises %r" % (ex,))
        if msgs:
            return True, "OUTPUT2 file (%s-endian, %s-bit keys, mtypes %s, cutoff %s): %s" % (p["endian"], 64 if p["bit64"] else 32, p["mtypes"], p.get("cutoff"), "; ".join(msgs[:3]))
        return False, "OUTPUT2 file decoded correctly by the real reader"
    finally:
        import shutil
        shutil.rmtree(d, ignore_errors=True)


def job_op2(endian, bit64, header, mtypes, cutoff, table):
    eng = E.Engine()
    res = eng.explore(op2_fn(endian, bit64, header, mtypes, cutoff, table), max_cex=2)
    res["note"] = "op2 %s-endian %d-bit header=%s mtypes=%s cutoff=%s table=%s" % (endian, 64 if bit64 else 32, header, mtypes, cutoff, table)
    H.triage(res, "op2", replay_op2, lambda c: dict(op2=True, endian=endian, bit64=bit64, header=header, mtypes=list(mtypes), cutoff=cutoff, table=table, model=c["model"]))
    return res


# ---------------------------------------------------------------------------
# replay: write the same physical file with a stand-alone struct encoder and read it with the real module

def _concrete_file(model, endian, bit64, layout, mtypes, path, bigrows=None):
    import struct
    kw = 8 if bit64 else 4
    kf = endian + ("q" if bit64 else "i")
    rng = np.random.RandomState(3)
    out = b""
    mats = []
    for k, mt in enumerate(mtypes):
        tag = "m%d" % k
        rich = (k == 0 and len(mtypes) == 1) or (k == 1)
        rows, cols = 5 + k, (2 if rich else 1)
        if bigrows:
            rows, cols = bigrows, 1
        single, cplx = mt in (1, 3), mt in (3, 4)
        nb = 8 if (bit64 or not single) else 4
        ff = endian + ("d" if nb == 8 else "f")
        wper = max(1, nb // kw)
        A = np.zeros((rows, cols), complex if cplx else float)
        hl = 6 * kw
        out += struct.pack(endian + "i", hl) + struct.pack(kf, cols) + struct.pack(kf, -rows if layout == "bigmat" else rows) + struct.pack(kf, 2) + struct.pack(kf, mt)
        out += tag.upper().ljust(2 * kw).encode() + struct.pack(endian + "i", hl)
        for c in range(cols):
            ns = int(model.get("%s_ns%d" % (tag, c), 0) or 0)
            if bigrows:
                ns = 2
            if layout == "dense":
                ns = min(ns, 1)
            if ns == 0:
                continue
            body = b""
            nw = 0
            irow = 0
            for s_ in range(ns):
                n = int(model.get("%s_n%d_%d" % (tag, c, s_), 1) or 1)
                if bigrows:
                    n = 1
                r0 = int(model.get("%s_r%d_%d" % (tag, c, s_), 0) or 0)
                vals = (rng.randint(1, 9, n) + (1j * rng.randint(1, 9, n) if cplx else 0)).astype(complex if cplx else float)
                if single:
                    vals = vals.astype(np.complex64 if cplx else np.float32)
                A[r0:r0 + n, c] = vals
                nums = []
                for v in vals:
                    nums += [v.real, v.imag] if cplx else [float(v)]
                L = len(nums) * wper
                if layout == "dense":
                    irow = r0 + 1
                    nw = L
                elif layout == "nonbigmat":
                    body += struct.pack(kf, (r0 + 1) + 65536 * (L + 1))
                    nw += 1 + L
                else:
                    body += struct.pack(kf, L + 1) + struct.pack(kf, r0 + 1)
                    nw += 2 + L
                for x in nums:
                    body += struct.pack(ff, x)
            reclen = (3 + nw) * kw
            out += struct.pack(endian + "i", reclen) + struct.pack(kf, c + 1) + struct.pack(kf, irow) + struct.pack(kf, nw) + body + struct.pack(endian + "i", reclen)
        reclen = 3 * kw + nb
        out += struct.pack(endian + "i", reclen) + struct.pack(kf, cols + 1) + struct.pack(kf, 1) + struct.pack(kf, max(1, nb // kw)) + struct.pack(ff, 1.0) + struct.pack(endian + "i", reclen)
        mats.append((tag.lower(), A, mt))
    with open(path, "wb") as f:
        f.write(out)
    return mats


def _read_and_compare(path, mats, cutoff=None):
    import scipy.sparse as sps
    from pyyeti.nastran import op4
    o = op4.OP4()
    if cutoff is not None:
        o._rowsCutoff = cutoff
    msgs = []
    try:
        names, sizes, forms, mtys = o.dir(path, verbose=False)
        if names != [m[0] for m in mats] or [tuple(s) for s in sizes] != [m[1].shape for m in mats] or mtys != [m[2] for m in mats]:
            msgs.append("dir() = %s %s %s, encoded %s" % (names, sizes, mtys, [(m[0], m[1].shape, m[2]) for m in mats]))
        for sparse in (False, True, None):
            if sparse is False and max(m[1].shape[0] for m in mats) > 10000:
                continue
            rn, rm, rf, rt = o.listload(path, sparse=sparse)
            if rn != [m[0] for m in mats]:
                msgs.append("listload names %s" % rn)
            for (nm, A, mt), X in zip(mats, rm):
                if sps.issparse(X) and sps.issparse(A):
                    same = X.shape == A.shape and (X != A).nnz == 0
                    if not same:
                        msgs.append("matrix %s (sparse=%s) decoded with entries %s, encoded %s" % (nm, sparse, sorted(zip(*sps.find(X)))[:6], sorted(zip(*sps.find(A)))[:6]))
                    continue
                Xd = X.toarray() if sps.issparse(X) else X
                Ad = A.toarray() if sps.issparse(A) else A
                if Xd.shape != Ad.shape or not np.array_equal(Xd, Ad):
                    msgs.append("matrix %s (sparse=%s) decoded as %s, encoded %s" % (nm, sparse, Xd.tolist() if Xd.size < 60 else "...", Ad.tolist() if Ad.size < 60 else "..."))
        if len(mats) > 1:
            dct = o.dctload(path, namelist=[mats[1][0]])
            got = dct.get(mats[1][0], [None])[0]
            got = got.toarray() if sps.issparse(got) else got
            want = mats[1][1].toarray() if sps.issparse(mats[1][1]) else mats[1][1]
            if list(dct) != [mats[1][0]] or got is None or not np.array_equal(got, want):
                msgs.append("reading the named subset %s differs from filtering a full read" % mats[1][0])
    except Exception as ex:
        msgs.append("reader raises %r" % (ex,))
    return msgs


def replay_ascii(p):
    import os
    import tempfile
    import scipy.sparse as sps
    vals = {}

    def tokval(name):
        return vals.setdefault(name, float(len(vals) + 1))
    mdl = p["model"]
    perline, numlen = p["perline"], p["numlen"]
    specs = []
    if p.get("tall"):
        rows = int(mdl.get("rows", 70000) or 70000)
        r0 = int(mdl.get("m0_r0_0", 0) or 0)
        r1 = int(mdl.get("m0_r0_1", r0 + 2) or (r0 + 2))
        mt = p["mtypes"][0]
        cplx = mt in (3, 4)
        nm = (lambda n: (n + "_re", n + "_im")) if cplx else (lambda n: n)
        big = rows >= 65536 or p["negnr"]
        layout = "bigmat" if big else "nonbigmat"
        spec = dict(name="m0", rows=rows, cols=2, form=2, mtype=mt, columns={0: [(r0, [nm("a")]), (r1, [nm("b")])]})
        spec2 = dict(name="m1", rows=3, cols=1, form=2, mtype=mt, columns={0: [(1, [nm("c")])]})
        lines = K.encode_ascii([spec], layout, perline, numlen, False, True, posnr=not p["negnr"]) + K.encode_ascii([spec2], "dense", perline, numlen, False, True)
        specs = [(spec, [(r0, 0, nm("a")), (r1, 0, nm("b"))]), (spec2, [(1, 0, nm("c"))])]
        dform = False
    else:
        layout, dform = p["layout"], p["dform"]
        for k, mt in enumerate(p["mtypes"]):
            rich = (k == 0 and len(p["mtypes"]) == 1) or (k == 1)
            specs.append(_logical_concrete(mdl, "m%d" % k, 5 + k, 2 if rich else 1, mt))
            if layout == "dense":
                for c in specs[-1][0]["columns"]:
                    specs[-1][0]["columns"][c] = specs[-1][0]["columns"][c][:1]
        lines = K.encode_ascii([s for s, _ in specs], layout, perline, numlen, dform, p["fmt"])
    text = K.ascii_text(lines, tokval, numlen, dform)
    mats = []
    for sp_, cells in specs:
        cplx = sp_["mtype"] in (3, 4)
        big = sp_["rows"] > 10000
        A = sps.lil_matrix((sp_["rows"], sp_["cols"]), dtype=complex if cplx else float) if big else np.zeros((sp_["rows"], sp_["cols"]), complex if cplx else float)
        for c, strings in sp_["columns"].items():
            for r0, vs in strings:
                for q, v in enumerate(vs):
                    A[r0 + q, c] = complex(tokval(v[0]), tokval(v[1])) if cplx else tokval(v)
        mats.append((sp_["name"], A.tocoo() if big else A, sp_["mtype"]))
    d = tempfile.mkdtemp(prefix="verif-c11-")
    path = os.path.join(d, "t.op4")
    try:
        with open(path, "w") as f:
            f.write(text)
        msgs = _read_and_compare(path, mats)
        if msgs:
            return True, "OUTPUT4 ASCII file (%s, mtypes %s, %d numbers of width %d per line%s): %s" % (
                "tall, rows=%d" % specs[0][0]["rows"] if p.get("tall") else p["layout"], p["mtypes"], perline, numlen, ", D exponents" if dform else "", "; ".join(msgs[:3]))
        return False, "ASCII file decoded correctly by the real reader"
    finally:
        import shutil
        shutil.rmtree(d, ignore_errors=True)


def job_ascii(kind, *args):
    eng = E.Engine()
    fn = ascii_fn(*args) if kind == "small" else ascii_tall_fn(*args)
    res = eng.explore(fn, max_cex=2)
    res["note"] = "ascii %s %s" % (kind, args)

    def payload(c):
        d = dict((c.get("info") or [{}])[0])
        d["model"] = c["model"]
        return d
    H.triage(res, "ascii", replay_ascii, payload)
    return res


def replay(p):
    import os
    import tempfile
    import scipy.sparse as sps
    from pyyeti.nastran import op4
    d = tempfile.mkdtemp(prefix="verif-c11-")
    path = os.path.join(d, "t.op4")
    try:
        mats = _concrete_file(p["model"], p["endian"], p["bit64"], p["layout"], p["mtypes"], path, p.get("rows") if p.get("bigrow") else None)
        msgs = _read_and_compare(path, mats, p.get("cutoff"))
        if msgs:
            return True, "OUTPUT4 binary file (%s-endian, %s-bit keys, %s, mtypes %s): %s" % (p["endian"], 64 if p["bit64"] else 32, p["layout"], p["mtypes"], "; ".join(msgs[:3]))
        return False, "file decoded correctly by the real reader"
    finally:
        import shutil
        shutil.rmtree(d, ignore_errors=True)


REPLAY = {"read": replay, "op2": replay_op2, "ascii": replay_ascii}


def job_bigrow(endian, bit64, layout, rows):
    eng = E.Engine()
    res = eng.explore(bigrow_fn(endian, bit64, layout, rows), max_cex=2)
    res["note"] = "tall matrix %d rows %s-endian %d-bit %s" % (rows, endian, 64 if bit64 else 32, layout)
    H.triage(res, "read", replay, lambda c: dict(endian=endian, bit64=bit64, layout=layout, mtypes=[2], sparse=True, cutoff=None, rows=rows, bigrow=True, model=c["model"]))
    return res


def job(endian, bit64, layout, mtypes, sparse, cutoff, split_depth=None, roots=None):
    eng = E.Engine()
    res = eng.explore(read_fn(endian, bit64, layout, mtypes, sparse, cutoff), max_cex=2, roots=roots, split_depth=split_depth)
    res["note"] = "%s-endian %d-bit %s mtypes=%s sparse=%s cutoff=%s" % (endian, 64 if bit64 else 32, layout, mtypes, sparse, cutoff)
    if split_depth is not None and res["roots"]:
        rs = res.pop("roots")
        res["spawn"] = [("read-%s-sub%d" % (res["note"], i), job, (endian, bit64, layout, mtypes, sparse, cutoff), dict(roots=rs[i::8])) for i in range(8) if rs[i::8]]
    res["roots"] = []
    H.triage(res, "read", replay, lambda c: dict(endian=endian, bit64=bit64, layout=layout, mtypes=list(mtypes), sparse=sparse, cutoff=cutoff, model=c["model"]))
    return res


def jobs(tier, seed):
    q = tier == "quick"
    out = []
    combos = []
    for endian, bit64, layout in itertools.product("<>", (False, True), ("dense", "bigmat", "nonbigmat")):
        for k, mt in enumerate((2, 1, 4, 3)):
            cplx = mt in (3, 4)
            for sparse in ((True,) if cplx else (False, True, None)):
                if q and not ((k + (endian == ">") + bit64 + len(layout) + seed) % 2 == 0 or (mt == 2 and sparse is None)):
                    continue
                combos.append((endian, bit64, layout, (mt,), sparse, None))
    two = [("<", False, "dense", (1, 2), False, None), (">", True, "bigmat", (4, 2), True, None), ("<", True, "nonbigmat", (2, 3), True, None),
           (">", False, "nonbigmat", (3, 1), True, None), ("<", False, "bigmat", (2, 2), None, None), (">", True, "dense", (2, 1), None, None)]
    if not q:
        two += [(e, b, l, m, True, None) for e in "<>" for b in (False, True) for l in ("dense", "bigmat", "nonbigmat") for m in ((1, 4), (2, 2))]
    combos += two
    combos += [("<", False, "dense", (2,), False, 2), (">", True, "bigmat", (1,), True, 1), ("<", False, "nonbigmat", (2,), None, 2),
               (">", False, "bigmat", (4,), True, 1), ("<", True, "nonbigmat", (3,), True, 1), (">", False, "dense", (4,), True, 1)]
    for endian, bit64 in (("<", False), (">", True), ("<", True), (">", False)):
        out.append(H.Job("tall-nonbigmat-%s%s" % (endian, 64 if bit64 else 32), job_bigrow, endian, bit64, "nonbigmat", 65535, weight=5))
        out.append(H.Job("tall-bigmat-%s%s" % (endian, 64 if bit64 else 32), job_bigrow, endian, bit64, "bigmat", 200000, weight=5))
    o2 = [("<", False, False, (2,), None, None), (">", False, True, (1,), None, "first"), ("<", True, False, (2, 1), None, "last"), (">", True, False, (4,), None, None),
          ("<", False, True, (3, 2), None, "first"), ("<", True, False, (1,), 1, None), (">", False, False, (2,), 1, None), (">", True, False, (3,), 1, "last")]
    if not q:
        o2 += [(e, b, False, m, cut, t) for e in "<>" for b in (False, True) for m in ((1,), (2,), (3,), (4,), (2, 4), (1, 3)) for cut, t in ((None, "first"), (1, "last"))]
    asc = [("dense", (2,), 5, 16, False, True, False), ("bigmat", (2,), 3, 23, True, True, True), ("nonbigmat", (4,), 2, 16, False, True, True),
           ("dense", (3,), 3, 21, False, True, False), ("bigmat", (1,), 5, 16, False, False, None), ("nonbigmat", (2, 1), 4, 16, True, True, None)]
    if not q:
        asc += [(l, m, pl, nl, d, True, sp) for l in ("dense", "bigmat", "nonbigmat") for m in ((1,), (2,), (3,), (4,), (2, 4)) for pl, nl, d in ((5, 16, False), (3, 23, True), (2, 16, False)) for sp in (True, None)]
    for c in asc:
        out.append(H.Job("ascii-%s-%s-%d-%d-%s-%s-%s" % (c[0], "".join(map(str, c[1])), c[2], c[3], c[4], c[5], c[6]), job_ascii, "small", *c, weight=40 * len(c[1]) ** 2))
    for negnr in (False, True):
        for mt, pl, nl in ((2, 5, 16), (4, 3, 23), (1, 5, 16)):
            out.append(H.Job("ascii-tall-%s-%d" % ("neg" if negnr else "pos", mt), job_ascii, "tall", negnr, mt, pl, nl, weight=2))
    for c in o2:
        out.append(H.Job("op2-%s%s-%s-%s-%s-%s" % (c[0], 64 if c[1] else 32, "hdr" if c[2] else "nohdr", "".join(map(str, c[3])), c[4], c[5]), job_op2, *c, weight=20 * len(c[3])))
    for c in combos:
        out.append(H.Job("read-%s%s-%s-%s-%s-%s" % (c[0], 64 if c[1] else 32, c[2], "".join(map(str, c[3])), c[4], c[5]), job, *c,
                         split_depth=5 if len(c[3]) > 1 else None, weight=30 * len(c[3]) ** 3))
    return out


def extra_coverage(results):
    import pyyeti.nastran.op4 as m
    o = m.OP4
    fns = [o._decode_format, o._op4open_read, o._loadop4_binary, o._rd_dense_binary, o._rd_bigmat_binary, o._rd_nonbigmat_binary, o._skipop4_binary,
           o._get_funcs, o._check_name, o.dir, o.listload, o._put_binary_values, o._put_binary_values_sparse, o._put_binary_values_sparse_c,
           o._loadop4_ascii, o._skipop4_ascii, o._rd_dense_ascii, o._rd_bigmat_ascii, o._rd_nonbigmat_ascii, o._get_ascii_block,
           o._put_ascii_values, o._put_ascii_values_c, o._put_ascii_values_sparse, o._put_ascii_values_sparse_c]
    import pyyeti.nastran.op2 as m2
    o2 = m2.OP2
    fns += [o2._op2open, o2._getkey, o2._skipkey, o2.rdop2header, o2.rdop2eot, o2.rdop2nt, o2.rdop2matrix, o2.skipop2matrix, o2.directory, o2.rdop2mats,
            o2._rdmat, o2._get_valid_names, o2.set_position, o2.rdop2record, o2.rdop2tabheaders]
    return dict(functions_encoded=[H.fn_id(getattr(f, "__func__", f)) for f in fns], ast_hook_hits={"%s:%s" % k: v for k, v in astload.HITS.items()})
