"""C12 - Nastran number fields have exact width and best precision; cards
round-trip.  The formatters, nas_sscanf, the card writers and rdcards are run
from /repo's current source on symbolic floats/ints rendered into strings of
symbolic digits (vsym/symstr.py)."""
import math
import time
from fractions import Fraction

import numpy as np
import z3

from vsym import sym as S
from vsym import engine as E
from vsym import harness as H
from vsym import astload
from vsym import symstr as X

PID = "C12"

META = dict(
    level="other",
    stubs=["CPython float formatting 'W.Pf'/'W.Pe' -> exact scaled-integer rounding (N within 1/2 of |x| 10^P, both neighbours allowed at a tie) rendered into symbolic digit cells",
           "round(x) -> integer within 1/2 of x (both neighbours at a tie)",
           "module-level float/int/str of bulk.py shadowed by converters that accept symbolic strings (Python float()/int() grammar transcribed)",
           "f-strings / str.format / % on symbolic values -> cell concatenation (AST hook, whitelist: fstring, format, mod)",
           "file object of the card writers -> chunk collector; file iterated by rdcards -> list of symbolic lines"],
    outside=["INCLUDE handling and regex card-name matching of rdcards", "np.float32 inputs", "NaN/inf",
             "whether a field without a decimal point is acceptable to Nastran as a real (format_float8(9999999.6) = '10000000'): the property only asks for width, parse-back and accuracy"],
    assumptions=["a finite double is m*10^e with 1 <= m < 10 (real-valued m: a superset of the doubles of the decade); decades -324..308 and both signs are enumerated"],
    reach_required=["fixed-notation", "sci-notation", "sci-3digit-exp", "carry-next-decade", "nas-eless", "card-continuation", "card-comma"],
    trusted_base=["z3 5.1", "CPython 3.12", "the digit-string model of float formatting (validated against CPython on every run)"],
)

_LOADED = {}


def bulk():
    import pyyeti.nastran.bulk as b
    return b


def loaded():
    """formatters / nas_sscanf / card writers re-compiled from the working tree
    with the string hooks; one shared globals dict"""
    if _LOADED:
        return _LOADED["g"]
    b = bulk()
    g = dict(b.__dict__)
    g.update(X.HOOKS)
    g.update(X.SHADOWS)
    for nm in ("_format_scientific8", "format_float8", "_format_scientific16", "format_float16", "format_double16",
               "nas_sscanf", "_wtcard16", "_proc_line", "_rdfixed", "_rdcomma", "_next_line", "_handle_comments"):
        astload.load(getattr(b, nm), hooks=("fstring", "format", "mod"), globs=g)
    for nm in ("wtcard8", "wtcard16", "wtcard16d", "rdcards"):
        f = getattr(b, nm)
        f = getattr(f, "__wrapped__", f)
        astload.load(f, hooks=("fstring", "format", "mod"), globs=g)
    _LOADED["g"] = g
    return g


WIDTH = {"format_float8": 8, "format_float16": 16, "format_double16": 16}


def ndig(e):
    return len(str(abs(e)))


def ulp_best(fname, e, neg):
    """weight of the last digit of the best representation that fits the field for
    a value in decade e (10^e <= |x| < 10^(e+1)) - written from the Nastran field
    syntax, independent of the formatter"""
    W = WIDTH[fname]
    neg = 1 if neg else 0
    cands = []
    if fname != "format_double16":
        if e >= 0:
            dec = W - neg - (e + 1) - 1
        else:
            dec = W - neg - 1
        if dec >= 0:
            cands.append(Fraction(10) ** (-dec))
        dec = W - neg - 2 - 1 - ndig(e)
    else:
        dec = W - neg - 2 - 2 - ndig(e)
    if dec >= 0:
        cands.append(Fraction(10) ** (e - dec))
    return min(cands)


def mrange(e):
    lo, hi = Fraction(1), Fraction(10)
    if e == 308:
        hi = Fraction(17976931348623157, 10 ** 16)
    if e == -324:
        lo = Fraction(494065645841247, 10 ** 14)
    return lo, hi


def k1_fn(fname, e, neg):
    W = WIDTH[fname]

    def fn(eng):
        S.set_engine(eng)
        g = loaded()
        F, nas = g[fname], g["nas_sscanf"]
        m = z3.Real("m")
        lo, hi = mrange(e)
        eng.assume(z3.And(m >= z3.RealVal(lo), m < z3.RealVal(hi)))
        x = m * z3.RealVal(Fraction(10) ** e)
        if neg:
            x = -x
        v = X.SymFloat(x, hint=e)
        info = dict(fname=fname, e=e, neg=neg)
        try:
            field = F(v)
        except (X.Unsupported, E.Inconclusive):
            raise
        except Exception as ex:
            return [E.Obl("%s raises %r" % (fname, ex), False, info=info)]
        cells = X._cells(field)
        info["field"] = field.render() if isinstance(field, X.SymStr) else field
        obls = [E.Obl("%s: field width == %d (got %d: %s)" % (fname, W, len(cells), info["field"]), len(cells) == W, info=info)]
        try:
            back = nas(field)
        except (X.Unsupported, E.Inconclusive):
            raise
        except Exception as ex:
            return obls + [E.Obl("nas_sscanf(%s) raises %r" % (info["field"], ex), False, info=info)]
        if isinstance(back, (S.SymR,)):
            bt = back.e
        elif isinstance(back, (int, float)) and not isinstance(back, bool):
            bt = S.lift(back)
        else:
            return obls + [E.Obl("nas_sscanf(%s) returns a number (got %r)" % (info["field"], back), False, info=info)]
        # independent parse of the same cells under the Nastran real syntax
        try:
            ref, _isint, pi = X.parse_number(cells, nastran=True)
        except ValueError as ex:
            return obls + [E.Obl("field %s is a Nastran number (%s)" % (info["field"], ex), False, info=info)]
        if isinstance(back, S.SymR):
            obls.append(E.Obl("nas_sscanf(field) == value of the field's digits", bt == ref, info=info))
        else:   # all-concrete field: the real float() rounded it to a double (DecFloat: exact decimal kept)
            rel = z3.RealVal(Fraction(1, 2 ** 52))
            obls.append(E.Obl("nas_sscanf(field) == value of the field's digits (to double rounding)",
                              z3.And(bt - ref <= rel * ref, ref - bt <= rel * ref) if not neg else z3.And(bt - ref <= -rel * ref, ref - bt <= -rel * ref), info=info))
        ulp = ulp_best(fname, e, neg)
        bound = z3.RealVal(ulp * Fraction(505, 1000))
        obls.append(E.Obl("%s: |parse(field) - x| <= 0.505 ulp (ulp=%s, field %s)" % (fname, float(ulp), info["field"]),
                          z3.And(bt - x <= bound, x - bt <= bound), info=info))
        if pi["has_exp"]:
            eng.tag("sci-notation")
            if abs(pi["exp"]) >= 100:
                eng.tag("sci-3digit-exp")
            eng.tag("nas-eless")
            if pi["nint"] == 2:
                eng.tag("carry-next-decade")
        else:
            eng.tag("fixed-notation")
        return obls
    return fn


def _snap(model, e, neg):
    m = model.get("m")
    if m is None:
        m = Fraction(1)
    if not isinstance(m, Fraction):
        m = Fraction(m)
    x = m * Fraction(10) ** e
    xf = float(x)
    return -xf if neg else xf


def check_real_format(fname, x):
    """the K1 obligations on the real code for one double; -> None or message"""
    b = bulk()
    F = getattr(b, fname)
    W = WIDTH[fname]
    try:
        field = F(x)
    except Exception as ex:
        return "%s(%r) raises %r" % (fname, x, ex)
    if len(field) != W:
        return "%s(%r) = %r has width %d, not %d" % (fname, x, field, len(field), W)
    back = b.nas_sscanf(field)
    if not isinstance(back, (int, float)):
        return "%s(%r) = %r is not read back as a number (%r)" % (fname, x, field, back)
    if x == 0:
        return None if back == 0 else "%s(0.0) = %r reads back as %r" % (fname, field, back)
    fx = Fraction(x)
    e = math.floor(math.log10(abs(x)))
    while Fraction(10) ** e > abs(fx):
        e -= 1
    while Fraction(10) ** (e + 1) <= abs(fx):
        e += 1
    ulp = ulp_best(fname, e, x < 0)
    # the read-back double is itself rounded: allow its own half-ulp
    err = abs(Fraction(back) - fx)
    slack = Fraction(abs(back)) * Fraction(1, 2 ** 52)
    if err > ulp * Fraction(505, 1000) + slack:
        return "%s(%r) = %r reads back as %r: error %.3g > 0.505 * %.3g" % (fname, x, field, back, float(err), float(ulp))
    return None


def replay_format(p):
    fname, e, neg = p["fname"], p["e"], p["neg"]
    x0 = p["x"]
    cands = [x0]
    a = b = x0
    for _ in range(4):
        a = math.nextafter(a, math.inf)
        b = math.nextafter(b, -math.inf)
        cands += [a, b]
    for x in cands:
        if x == 0 or not math.isfinite(x):
            continue
        msg = check_real_format(fname, x)
        if msg:
            return True, msg
    return False, "%s near %r: width, parse-back and accuracy all fine on the real code" % (fname, x0)


def _refine_margin(eng):
    # prefer a mantissa well inside the failing region: none generic; handled by neighbours in replay
    return []


def job_k1(fname, decades, signs):
    res = None
    for e in decades:
        for neg in signs:
            eng = E.Engine()
            eng.fast_ms = 100
            r = eng.explore(k1_fn(fname, e, neg), max_cex=2)
            H.triage(r, "format", replay_format,
                     lambda c, e=e, neg=neg: dict(fname=fname, e=e, neg=neg, x=_snap(c["model"], e, neg), labels=c["labels"]))
            res = r if res is None else _merge(res, r)
    res["note"] = "%s decades %s..%s signs %s" % (fname, decades[0], decades[-1], signs)
    return res


def _merge(a, b):
    E.merge(a, b)
    for k in ("violations", "known_hits", "unreproduced"):
        a[k] = a.get(k, []) + b.get(k, [])
    return a


# ---------------------------------------------------------------------------
# translator validation: the digit-string model vs CPython on concrete doubles

def validate_model(n=400, seed=0):
    """push concrete doubles through the real formatter and through the hooked
    one with the value pinned by the solver; the strings must be identical"""
    import random
    rnd = random.Random(seed)
    b = bulk()
    vals = [1.0, 1.2345678, -123456.78, 12345678.0, -12345678.0, 9999999.6, 0.00099999996, 5e-8, 1e-100, -1.23456789e-100,
            9.99996e9, -9.99996e99, 1.7e308, 5e-324, -99999.96, 0.001, -0.01, 123456.78e8, 1234567898769.0e5, 99999999999999.95]
    for _ in range(n):
        e = rnd.choice(list(range(-20, 21)) + [-300, -100, -99, 99, 100, 300])
        m = rnd.choice([rnd.uniform(1, 10), 9.99999999999, 9.9999995, 1.0, 9.5, 4.5, 9.99995])
        vals.append(rnd.choice([1, -1]) * m * 10.0 ** e)
    bad = []
    g = loaded()
    for fname in WIDTH:
        for x in vals:
            if not math.isfinite(x) or x == 0:
                continue
            want = getattr(b, fname)(x)
            eng = E.Engine()
            out = {}

            def fn(eng_, x=x, fname=fname, want=want):
                S.set_engine(eng_)
                t = z3.Real("x")
                eng_.assume(t == z3.RealVal(Fraction(x)))
                e = math.floor(math.log10(abs(x)))
                field = g[fname](X.SymFloat(t, hint=e))
                cells = X._cells(field)
                out.setdefault("r", []).append(field.render() if isinstance(field, X.SymStr) else field)
                if len(cells) != len(want):
                    return []
                eqs = []
                for c, w in zip(cells, want):
                    if X._isd(c):
                        if not w.isdigit():
                            return []
                        eqs.append(c.e == int(w))
                    elif c != w:
                        return []
                # CPython's string must be one of the renderings the model allows on this path
                if eng_._check(*eqs) == "sat":
                    out["ok"] = True
                return []
            eng.fast_ms = 100
            eng.explore(fn)
            if not out.get("ok"):
                bad.append((fname, x, want, out.get("r")))
    return len(vals) * len(WIDTH), bad


def job_validate(n, seed):
    t = time.time()
    cnt, bad = validate_model(n, seed)
    res = dict(paths=0, obligations=0, unsat=0, note="translator validation: %d concrete doubles through real and modelled formatter, %d mismatches (%.1fs)" % (cnt, len(bad), time.time() - t))
    if bad:
        res["crashed"] = True
        res["errors"] = ["float-format model mismatch: %r" % (bad[:3],)]
    res["validated"] = cnt
    return res


REPLAY = {"format": replay_format}


def decades_for(tier, seed):
    allq = list(range(-324, 309))
    if tier == "thorough":
        return allq
    core = list(range(-24, 25)) + [-324, -323, -300, -200, -101, -100, -99, 99, 100, 101, 200, 300, 307, 308]
    rest = [e for e in allq if e not in core]
    extra = rest[seed % 6::6]
    return sorted(set(core + extra))


def jobs(tier, seed):
    out = []
    dec = decades_for(tier, seed)
    for fname in WIDTH:
        chunks = [dec[i::16] for i in range(16)]
        for i, ch in enumerate(chunks):
            out.append(H.Job("%s-%d" % (fname, i), job_k1, fname, ch, (False, True), weight=len(ch)))
    out.append(H.Job("validate-model", job_validate, 150 if tier == "quick" else 1500, seed, weight=50))
    return out


def extra_coverage(results):
    b = bulk()
    fns = [b.format_float8, b._format_scientific8, b.format_float16, b._format_scientific16, b.format_double16, b.nas_sscanf]
    val = sum(r.get("validated", 0) for r in results)
    return dict(functions_encoded=[H.fn_id(f) for f in fns], ast_hook_hits={"%s:%s" % k: v for k, v in astload.HITS.items()},
                model_validation_cases=val)


# ---------------------------------------------------------------------------
# K2: nas_sscanf on structured symbolic number strings

def _dcell(eng, name):
    d = z3.Int(name)
    eng.assume(z3.And(d >= 0, d <= 9))
    return X.D(d)


NAS_TEMPLATES = ["-#.##-3", "#.#+12", "  ##.#D-7", "#.##e+5", ".###", "-.#+4", "  ### ", "-####", "#.E2", "#.#d3", "+#.##", "##.-10", "#.#-100", "#+3"]


def k2_fn(template):
    def fn(eng):
        S.set_engine(eng)
        nas = loaded()["nas_sscanf"]
        cells = []
        for i, ch in enumerate(template):
            cells.append(_dcell(eng, "d%d" % i) if ch == "#" else ch)
        s = X.SymStr(cells)
        try:
            back = nas(s)
        except (X.Unsupported, E.Inconclusive):
            raise
        except Exception as ex:
            return [E.Obl("nas_sscanf(%s) raises %r" % (template, ex), False, info=dict(template=template))]
        ref, isint, pi = X.parse_number(cells, nastran=True)
        info = dict(template=template)
        if not isinstance(back, S.SymR):
            return [E.Obl("nas_sscanf(%s) returns a number, got %r" % (template, back), False, info=info)]
        eng.tag("nas-eless")
        obls = [E.Obl("nas_sscanf(%s) == Nastran value" % template, back.e == ref, info=info)]
        obls.append(E.Obl("nas_sscanf(%s): int iff no point/exponent" % template, isinstance(back, X.SymInt) == isint, info=info))
        return obls
    return fn


def replay_nas(p):
    b = bulk()
    t = p["template"]
    mdl = p["model"]
    s = "".join(str(int(mdl.get("d%d" % i, 0) or 0)) if ch == "#" else ch for i, ch in enumerate(t))
    got = b.nas_sscanf(s)
    # independent expectation through Python's own parser on the normalised text
    import re as _re
    norm = s.strip().lower().replace("d", "e")
    m = _re.fullmatch(r"([+-]?[0-9.]+)([+-][0-9]+)", norm)
    if m:
        norm = m.group(1) + "e" + m.group(2)
    try:
        want = int(norm)
    except ValueError:
        want = float(norm)
    if got is None or type(got) is not type(want) or abs(got - want) > 1e-12 * abs(want):
        return True, "nas_sscanf(%r) = %r, expected %r" % (s, got, want)
    return False, "nas_sscanf(%r) = %r ok" % (s, got)


def job_k2(templates):
    res = None
    for t in templates:
        eng = E.Engine()
        eng.fast_ms = 200
        r = eng.explore(k2_fn(t), max_cex=2)
        H.triage(r, "nas_sscanf", replay_nas, lambda c, t=t: dict(template=t, model=c["model"]))
        res = r if res is None else _merge(res, r)
    res["note"] = "nas_sscanf on %d digit templates" % len(templates)
    return res


# ---------------------------------------------------------------------------
# K3: card writers -> rdcards, fixed == comma

class _Sink:
    def __init__(self):
        self.cells = []

    def write(self, s):
        self.cells += X._cells(s)

    def lines(self):
        out, cur = [], []
        for c in self.cells:
            cur.append(c)
            if c == "\n":
                out.append(X.mk(cur))
                cur = []
        if cur:
            out.append(X.mk(cur))
        return out


class _Lines:
    """what rdcards needs of a file: seek + iteration (no .name: INCLUDEs are not followed)"""

    def __init__(self, lines):
        self._l = list(lines)

    def seek(self, *a):
        return 0

    def __iter__(self):
        return iter(self._l)


KINDS = ("blank", "str", "int", "float")


def _mkfield(eng, i, kind, wide, g, floatmode):
    if kind == 0:
        return ""
    if kind == 1:
        return ("S%dX" % i)[:8]
    if kind == 2:
        n = z3.Int("i%d" % i)
        if floatmode == "bigint" and i == 0:
            eng.assume(z3.And(n >= -9999999, n <= 99999999))
            return X.SymInt(n)
        eng.assume(z3.And(n >= 100, n <= 999))
        return X.SymInt(n, hint=2)
    m = z3.Real("m%d" % i)
    eng.assume(z3.And(m >= 1, m < 10))
    e = (0, 3, -2, 7)[i % 4]
    return X.SymFloat(m * z3.RealVal(Fraction(10) ** e), hint=e)


def k3_fn(writer, nmax, floatmode, kinds_pattern=None, longname=False):
    """writer in wtcard8/wtcard16/wtcard16d; number of fields symbolic in 1..nmax;
    kinds symbolic per field (kinds_pattern None) or a fixed cyclic pattern;
    floatmode 'real': the real formatter renders floats; 'token': the formatter is
    replaced by an opaque right-justified token of the field width with symbolic
    digits (its width/parse-back are K1's subject)"""
    wide = writer != "wtcard8"
    W = 16 if wide else 8
    fmtname = {"wtcard8": "format_float8", "wtcard16": "format_float16", "wtcard16d": "format_double16"}[writer]

    def fn(eng):
        S.set_engine(eng)
        g = loaded()
        recorded = []
        real_fmt = g[fmtname]

        def fmt_rec(v):
            if floatmode == "real":
                f = real_fmt(v)
            else:
                k = len(recorded)
                ds = [_dcell(eng, "t%d_%d" % (k, j)) for j in range(4)]
                body = [ds[0], "."] + ds[1:] + (list("D+2") if writer == "wtcard16d" else list("+12") if k % 2 else [])
                f = X.SymStr([" "] * (W - len(body)) + body)
            recorded.append(f)
            return f
        g[fmtname] = fmt_rec
        try:
            n = eng.fork_int(z3.Int("nfields"), 1, nmax)
            name = ("CARDNAM*" if longname else "CARD*") if wide else ("CARDNAM8" if longname else "CARD")
            fields = [name]
            kinds = []
            for i in range(n):
                if kinds_pattern is None:
                    kd = eng.fork_int(z3.Int("kind%d" % i), 0, 3)
                else:
                    kd = kinds_pattern[i % len(kinds_pattern)]
                kinds.append(kd)
                fields.append(_mkfield(eng, i, kd, wide, g, floatmode))
            sink = _Sink()
            g[writer](sink, fields)
            lines = sink.lines()
            info = dict(writer=writer, n=n, kinds=kinds, floatmode=floatmode, longname=longname)
            obls = []
            for ln in lines:
                obls.append(E.Obl("%s: line length <= 80" % writer, len(X._cells(ln)) - 1 <= (72 + 8), info=info))
            if len(lines) > 1:
                eng.tag("card-continuation")
            back = g["rdcards"](_Lines(lines), "CARD", return_var="list", keep_name=True)
            # expected: name + fields with trailing blanks dropped
            exp = list(fields)
            while len(exp) > 1 and isinstance(exp[-1], str) and exp[-1] == "":
                exp.pop()
            if back is None or len(back) != 1:
                return obls + [E.Obl("rdcards finds exactly the one card written (got %r)" % (back,), False, info=info)]
            got = list(back[0])
            # trailing blank fields are the same card (the large-field writer pads to an even number of lines)
            while len(got) > 1 and isinstance(got[-1], str) and got[-1] == "":
                got.pop()
            obls.append(E.Obl("%s -> rdcards: %d fields read, %d written" % (writer, len(got), len(exp)), len(got) == len(exp), info=info))
            fi = 0
            vals_fixed = []
            for j, (a, b_) in enumerate(zip(exp, got)):
                if isinstance(a, X.SymFloat):
                    want = X.parse_number(X._cells(recorded[fi]), nastran=True)[0]
                    fi += 1
                    if isinstance(b_, S.SymR):
                        cond = b_.e == want
                    elif isinstance(b_, (int, float)) and not isinstance(b_, bool):
                        # all-concrete field: the real float() rounded to a double
                        bt, rel = S.lift(b_), z3.RealVal(Fraction(1, 2 ** 52))
                        cond = z3.And(bt - want <= rel * z3.If(want >= 0, want, -want), want - bt <= rel * z3.If(want >= 0, want, -want))
                    else:
                        cond = False
                    obls.append(E.Obl("field %d (float) read back as the value written" % j, cond, info=info))
                elif isinstance(a, X.SymInt):
                    ok = isinstance(b_, X.SymInt)
                    obls.append(E.Obl("field %d (int) read back as the integer written" % j, (b_.e == a.e) if ok else False, info=info))
                else:
                    obls.append(E.Obl("field %d (%r) read back unchanged (got %r)" % (j, a, b_), isinstance(b_, str) and not isinstance(b_, X.SymStr) and b_ == a, info=info))
            # comma-separated form of the same card (free-field format, written independently)
            toks = []
            fi = 0
            for a in fields[1:]:
                if isinstance(a, X.SymFloat):
                    toks.append(X.mk([c for c in X._cells(recorded[fi]) if c != " "]))
                    fi += 1
                elif isinstance(a, X.SymInt):
                    toks.append(a.__format__(""))
                else:
                    toks.append(a)
            clines = []
            for k in range(0, max(1, len(toks)), 8):
                head = [name] if k == 0 else [""]
                cells = []
                for t_i, t in enumerate(head + toks[k:k + 8]):
                    if t_i:
                        cells.append(",")
                    cells += X._cells(t)
                clines.append(X.mk(cells + ["\n"]))
            back2 = g["rdcards"](_Lines(clines), "CARD", return_var="list", keep_name=True)
            eng.tag("card-comma")
            if back2 is None or len(back2) != 1:
                return obls + [E.Obl("rdcards (comma form) finds the card", False, info=info)]
            got2 = back2[0]
            while len(got2) > 1 and isinstance(got2[-1], str) and got2[-1] == "":
                got2.pop()
            obls.append(E.Obl("comma form: same number of fields as fixed form (%d vs %d)" % (len(got2), len(got)), len(got2) == len(got), info=info))
            for j, (a, b_) in enumerate(zip(got, got2)):
                if isinstance(a, S.SymR) or isinstance(b_, S.SymR):
                    ok = isinstance(a, S.SymR) and isinstance(b_, S.SymR) and isinstance(a, X.SymInt) == isinstance(b_, X.SymInt)
                    obls.append(E.Obl("comma form field %d == fixed form" % j, (a.e == b_.e) if ok else False, info=info))
                else:
                    obls.append(E.Obl("comma form field %d == fixed form (%r vs %r)" % (j, a, b_), a == b_, info=info))
            return obls
        finally:
            g[fmtname] = real_fmt
    return fn


def replay_card(p):
    """re-run the card round trip on the real code with the model's values"""
    import io
    b = bulk()
    mdl = p["model"]
    writer, n, kinds = p["writer"], p["n"], p["kinds"]
    wide = writer != "wtcard8"
    longname = p.get("longname", False)
    name = ("CARDNAM*" if longname else "CARD*") if wide else ("CARDNAM8" if longname else "CARD")
    fields = [name]
    for i, kd in enumerate(kinds[:n]):
        if kd == 0:
            fields.append("")
        elif kd == 1:
            fields.append(("S%dX" % i)[:8])
        elif kd == 2:
            fields.append(int(mdl.get("i%d" % i, 100) or 100))
        else:
            m = mdl.get("m%d" % i, 1)
            e = (0, 3, -2, 7)[i % 4]
            fields.append(float(Fraction(m) * Fraction(10) ** e))
    f = io.StringIO()
    getattr(b, writer)(f, fields)
    text = f.getvalue()
    back = b.rdcards(io.StringIO(text), "CARD", return_var="list", keep_name=True)
    exp = list(fields)
    while len(exp) > 1 and exp[-1] == "":
        exp.pop()
    fmt = {"wtcard8": b.format_float8, "wtcard16": b.format_float16, "wtcard16d": b.format_double16}[writer]
    want = [b.nas_sscanf(fmt(x)) if isinstance(x, float) else x for x in exp]
    if back is not None and len(back) == 1:
        back = [list(back[0])]
        while len(back[0]) > 1 and back[0][-1] == "":
            back[0].pop()
    if back is None or len(back) != 1 or list(back[0]) != want:
        return True, "%s(%r) wrote %r; rdcards returned %r, expected %r" % (writer, fields, text, back, want)
    if any(len(l) > 80 for l in text.splitlines()):
        return True, "%s(%r) wrote a line longer than 80 columns: %r" % (writer, fields, text)
    toks = [fmt(x).strip() if isinstance(x, float) else str(x) for x in fields[1:]]
    cl = []
    for k in range(0, max(1, len(toks)), 8):
        cl.append(",".join(([name] if k == 0 else [""]) + toks[k:k + 8]) + "\n")
    back2 = b.rdcards(io.StringIO("".join(cl)), "CARD", return_var="list", keep_name=True)
    g2 = list(back2[0]) if back2 else None
    while g2 and len(g2) > 1 and g2[-1] == "":
        g2.pop()
    if g2 != list(back[0]):
        return True, "comma form %r read as %r, fixed form as %r" % ("".join(cl), g2, back[0])
    return False, "card round trip fine on the real code"


def job_k3(writer, nmax, floatmode, pattern, split_depth=None, roots=None, longname=False):
    eng = E.Engine()
    eng.fast_ms = 200
    res = eng.explore(k3_fn(writer, nmax, floatmode, pattern, longname), max_cex=3, roots=roots, split_depth=split_depth)
    res["note"] = "%s up to %d fields, floats=%s, kinds=%s" % (writer, nmax, floatmode, pattern or "symbolic")
    if split_depth is not None and res["roots"]:
        rs = res.pop("roots")
        res["spawn"] = [("card-%s-%s-sub%d" % (writer, floatmode, i), job_k3, (writer, nmax, floatmode, pattern), dict(roots=rs[i::16], longname=longname)) for i in range(16) if rs[i::16]]
    res["roots"] = []

    def payload(c):
        info = (c.get("info") or [{}])[0]
        return dict(writer=writer, n=info.get("n", 1), kinds=info.get("kinds", [0]), model=c["model"], longname=longname)
    H.triage(res, "card", replay_card, payload)
    return res


REPLAY.update({"nas_sscanf": replay_nas, "card": replay_card})
_jobs_k1 = jobs


def jobs(tier, seed):
    out = _jobs_k1(tier, seed)
    q = tier == "quick"
    out.append(H.Job("nas-templates", job_k2, NAS_TEMPLATES, weight=20))
    for w in ("wtcard8", "wtcard16", "wtcard16d"):
        out.append(H.Job("card-%s-symkinds" % w, job_k3, w, 3 if q else 5, "token", None, split_depth=4, weight=60))
        out.append(H.Job("card-%s-real" % w, job_k3, w, 2, "real", None, weight=80))
        out.append(H.Job("card-%s-long" % w, job_k3, w, 18 if q else 60, "token", (3, 2, 0, 1, 2, 3, 0), weight=60))
        out.append(H.Job("card-%s-long2" % w, job_k3, w, 17 if q else 33, "token", (2, 0, 0, 3, 1), weight=60, longname=True))
        out.append(H.Job("card-%s-symkinds-longname" % w, job_k3, w, 2 if q else 4, "token", None, weight=30, longname=True))
    out.append(H.Job("card-wtcard8-bigint", job_k3, "wtcard8", 1, "bigint", (2,), weight=10))
    return out
