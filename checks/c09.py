"""C09 - parallel execution returns bit-identical results to serial execution
(srs.srs and the per-frequency section of fdepsd.fdepsd).

Process scheduling itself cannot be made symbolic.  What is decided on the real
code is the argument that makes scheduling irrelevant:
  * the pool is replaced by an in-process executor whose completion order is
    chosen by solver decisions (every order of the LF tasks is explored);
  * all floating-point work (lfilter, the peak selector, +, /, **, abs/max/var,
    findap, rainflow, the cumulative count) is UNINTERPRETED: values are z3
    terms over an uninterpreted sort, so "parallel == serial" is equality of the
    two computation graphs - identical graphs give bit-identical floats whatever
    the float semantics; a difference is a solver counterexample, replayed with
    real processes;
  * every task's write footprint on the shared arrays is recorded: task j may
    only write its own row/slice, footprints are pairwise disjoint.
"""
import ast
import inspect
import itertools
import textwrap
import time
import types

import numpy as np
import z3

from vsym import sym as S
from vsym import engine as E
from vsym import harness as H
from vsym.npproxy import rebind

PID = "C09"

META = dict(
    level="other",
    stubs=["multiprocessing.Pool -> in-process executor: initializer called once, tasks run one at a time in a solver-chosen completion order (tasks are atomic; justified by the footprint obligations)",
           "createSharedArray / copyToSharedArray / np.frombuffer -> ordinary object arrays visible to all tasks",
           "signal.lfilter, peak selector, abs/max/var, findap, rainflow, arithmetic on responses -> uninterpreted functions over an uninterpreted value sort",
           "fdepsd: only the per-frequency section (the `if parallel == 'yes': ... else: ...` statement, compiled from the function's AST) is executed"],
    outside=["OS-level concurrency (truly simultaneous writes), fork/spawn differences, real shared memory", "fdepsd pre-/post-processing around the per-frequency section (identical code for both settings)"],
    assumptions=["a task runs to completion before the next starts (in-process executor)"],
    reach_required=["srs-ic", "srs-noic", "srs-hist", "fdepsd", "order-nonidentity", "zero-hz"],
    trusted_base=["z3 5.1 (EUF)", "CPython 3.12", "NumPy array semantics on dtype=object"],
    job_timeout=dict(quick=900, thorough=4 * 3600),
)

V = z3.DeclareSort("FV")
_UF = {}
_LIT = {}


def uf(name, n):
    k = (name, n)
    if k not in _UF:
        _UF[k] = z3.Function(name, *([V] * n + [V]))
    return _UF[k]


def lit(x):
    if isinstance(x, (float, np.floating)):
        key = "f:" + float(x).hex()
    elif isinstance(x, (int, np.integer)) and not isinstance(x, bool):
        key = "i:%d" % int(x)
    else:
        key = "o:" + repr(x)
    if key not in _LIT:
        _LIT[key] = z3.Const(key, V)
    return _LIT[key]


def term(x):
    if isinstance(x, Op):
        return x.t
    if isinstance(x, np.ndarray):
        if x.dtype == object or x.size <= 64:
            return fold("arr%s" % (x.shape,), [term(v) for v in x.ravel()])
        return lit(hash(x.tobytes()))
    return lit(x)


def fold(name, ts):
    h = z3.Const("seed:" + name, V)
    st = uf("step", 2)
    for t in ts:
        h = st(h, t)
    return h


class Op:
    """opaque floating-point value (scalar or array-level)"""
    __slots__ = ("t",)

    def __init__(self, t):
        self.t = t

    def _b(self, name, o, swap=False):
        if isinstance(o, np.ndarray):
            return NotImplemented
        a, b = (term(o), self.t) if swap else (self.t, term(o))
        return Op(uf(name, 2)(a, b))

    def __add__(s, o):
        return s._b("fadd", o)

    def __radd__(s, o):
        return s._b("fadd", o, True)

    def __sub__(s, o):
        return s._b("fsub", o)

    def __rsub__(s, o):
        return s._b("fsub", o, True)

    def __mul__(s, o):
        return s._b("fmul", o)

    def __rmul__(s, o):
        return s._b("fmul", o, True)

    def __truediv__(s, o):
        return s._b("fdiv", o)

    def __rtruediv__(s, o):
        return s._b("fdiv", o, True)

    def __pow__(s, o):
        return s._b("fpow", o)

    def __ge__(s, o):
        return s._b("fge", o)

    def __gt__(s, o):
        return s._b("fgt", o)

    def __le__(s, o):
        return s._b("fle", o)

    def __lt__(s, o):
        return s._b("flt", o)

    def __neg__(s):
        return Op(uf("fneg", 1)(s.t))

    def __abs__(s):
        return Op(uf("fabs", 1)(s.t))

    def __getitem__(s, k):
        return Op(uf("getitem", 2)(s.t, term(k) if isinstance(k, (Op, np.ndarray)) else lit(k)))

    def max(s, *a, **k):
        return Op(uf("amax", 1)(s.t))

    def min(s, *a, **k):
        return Op(uf("amin", 1)(s.t))

    def __bool__(s):
        raise TypeError("truth value of an uninterpreted float")

    def __hash__(s):
        return hash(s.t)

    def __eq__(s, o):
        return isinstance(o, Op) and s.t.eq(o.t)

    def __repr__(s):
        return "Op(%s)" % str(s.t)[:60]


class OArr(np.ndarray):
    """object array of Op scalars whose whole-array reductions are uninterpreted"""

    def max(self, axis=None, **kw):
        if axis is None:
            return Op(uf("amax", 1)(term(np.asarray(self))))
        return np.ndarray.max(self, axis=axis, **kw)

    def __getitem__(self, k):
        if isinstance(k, Op):
            return Op(uf("getitem", 2)(term(np.asarray(self)), k.t))
        r = np.ndarray.__getitem__(self, k)
        return r


def sigarr(N, Hc, oneD=False):
    a = np.empty((N, Hc), dtype=object)
    for i in range(N):
        for j in range(Hc):
            a[i, j] = Op(z3.Const("x_%d_%d" % (i, j), V))
    a = a.view(OArr)
    return a[:, 0] if oneD else a


class SigStub:
    @staticmethod
    def lfilter(b, a, x, axis=0):
        kb = fold("coef", [lit(float(v)) for v in list(b) + list(a)])
        x = np.asarray(x, dtype=object)
        y = np.empty(x.shape, dtype=object)
        st = uf("lf", 3)
        for idx in np.ndindex(*x.shape):
            col = x[:idx[0] + 1] if x.ndim == 1 else x[:idx[0] + 1, idx[1]]
            y[idx] = Op(st(kb, lit(idx[0]), fold("col", [term(v) for v in col])))
        return y.view(OArr)


def peakfunc(resp):
    resp = np.asarray(resp, dtype=object)
    out = np.empty(resp.shape[1], dtype=object)
    for h in range(resp.shape[1]):
        out[h] = Op(uf("peak", 1)(fold("col", [term(v) for v in resp[:, h]])))
    return out


class NPStub:
    def __getattr__(self, name):
        return getattr(np, name)

    def _alloc(self, shape):
        a = np.empty(shape, dtype=object)
        a.fill(0.0)
        return a

    def zeros(self, shape, dtype=float, order="C"):
        return self._alloc(shape)

    empty = zeros

    def frombuffer(self, x, *a, **k):
        return x if isinstance(x, np.ndarray) else np.frombuffer(x, *a, **k)

    def var(self, x, ddof=0, **kw):
        return Op(uf("var", 2)(term(np.asarray(x)), lit(ddof)))

    def sum(self, x, *a, **kw):
        if isinstance(x, Op):
            return Op(uf("asum", 1)(x.t))
        return np.sum(x, *a, **kw)

    def atleast_1d(self, *a):
        return np.atleast_1d(*a)


class Sched:
    """in-process pool: completion order decided by the solver; records each
    task's write footprint on the watched shared arrays"""
    watched = {}
    log = []
    order = []

    class Pool:
        def __init__(self, processes=None, initializer=None, initargs=()):
            self.init, self.args = initializer, initargs

        def __enter__(self):
            self.init(*self.args)
            return self

        def __exit__(self, *a):
            return False

        def imap_unordered(self, func, it_):
            tasks = list(it_)
            done = []
            while tasks:
                k = 0
                while k < len(tasks) - 1 and not S.eng().decide(z3.Bool("pick_%d_%d" % (len(done), k))):
                    k += 1
                t = tasks.pop(k)
                snap = {nm: [id(v) for v in a.ravel()] for nm, a in Sched.watched.items()}
                func(t)
                wr = {}
                for nm, a in Sched.watched.items():
                    wr[nm] = [i for i, v in enumerate(a.ravel()) if id(v) != snap[nm][i]]
                Sched.log.append((t[0], wr))
                done.append(t[0])
                yield None
            Sched.order = done

    @staticmethod
    def cpu_count():
        return 4


def _shared(name):
    def create(dimensions, ctype=None):
        a = np.empty(int(np.prod(dimensions)), dtype=object)
        a.fill(0.0)
        Sched.watched["arr%d" % len(Sched.watched)] = a
        return a
    return create


def _copyto(arr, ctype=None):
    a = np.empty(arr.size, dtype=object)
    a[:] = np.asarray(arr, dtype=object).ravel()
    return a


_C = {}


def srs_loaded():
    if "srs" in _C:
        return _C["srs"]
    import pyyeti.srs as m
    names = ["srs", "_process_ic", "_add_one_cycle", "_process_inputs", "_process_parallel", "_mk_par_globals", "_dosrs_nohist", "_dosrs",
             "_mk_par_globals_ic", "_dosrs_nohist_ic", "_dosrs_ic", "absacce", "relacce", "reldisp", "relvelo", "pvelo", "pacce"]
    g = rebind([getattr(m, n) for n in names], dict(np=NPStub(), signal=SigStub, mp=Sched, createSharedArray=_shared("s"), copyToSharedArray=_copyto))
    _C["srs"] = g
    return g


def _same(a, b):
    """z3 Bool: the two results are the same computation graph, element by element"""
    a, b = np.asarray(a, dtype=object), np.asarray(b, dtype=object)
    if a.shape != b.shape:
        return False
    cs = []
    for u, v in zip(a.ravel(), b.ravel()):
        if isinstance(u, Op) or isinstance(v, Op):
            cs.append(term(u) == term(v))
        elif not (u == v or (u != u and v != v)):
            return False
    return z3.And(cs) if cs else True


def footprint_obls(LF, rows, info):
    """rows: {array name: function j -> set of flat indices task j may write}"""
    obls = []
    seen = {}
    for j, wr in Sched.log:
        for nm, idxs in wr.items():
            allowed = rows[nm](j) if nm in rows else set()
            obls.append(E.Obl("task %d writes only its own part of shared array %s (wrote %s)" % (j, nm, idxs[:6]), set(idxs) <= allowed, info=info))
            for i in idxs:
                obls.append(E.Obl("shared array %s index %d written by one task only" % (nm, i), seen.get((nm, i), j) == j, info=info))
                seen[(nm, i)] = j
    return obls


def srs_fn(N, Hc, freqs, combos):
    def fn(eng):
        S.set_engine(eng)
        g = srs_loaded()
        obls = []
        first = True
        for stype, ic, getresp, timeopt, oneD in combos:
            info = dict(kind="srs", N=N, H=Hc, freqs=list(freqs), stype=stype, ic=ic, getresp=getresp, time=timeopt, oneD=oneD)
            sig = sigarr(N, Hc, oneD)
            kw = dict(ic=ic, stype=stype, peak=peakfunc, time=timeopt, rolloff="none", getresp=getresp)
            try:
                Sched.watched, Sched.log, Sched.order = {}, [], []
                ser = g["srs"](sig, 1000.0, np.array(freqs), 10, parallel="no", **kw)
                Sched.watched, Sched.log, Sched.order = {}, [], []
                par = g["srs"](sig, 1000.0, np.array(freqs), 10, parallel="yes", maxcpu=3, **kw)
            except E.Inconclusive:
                raise
            except Exception as ex:
                obls.append(E.Obl("srs leaves the uninterpreted domain: %r" % (ex,), False, info=info))
                continue
            if Sched.order != sorted(Sched.order):
                eng.tag("order-nonidentity")
            eng.tag("srs-ic" if (ic == "steady" and stype not in ("relacce", "relvelo")) else "srs-noic")
            if 0.0 in freqs:
                eng.tag("zero-hz")
            if getresp:
                eng.tag("srs-hist")
                (sa, ra), (sb, rb) = ser, par
                obls.append(E.Obl("srs parallel == serial: spectrum [%s/%s/%s]" % (stype, ic, timeopt), _same(sa, sb), info=info))
                obls.append(E.Obl("srs parallel == serial: response histories [%s/%s/%s]" % (stype, ic, timeopt), _same(ra["hist"], rb["hist"]), info=info))
                obls.append(E.Obl("srs parallel == serial: time vector", bool(np.array_equal(ra["t"], rb["t"])), info=info))
            else:
                obls.append(E.Obl("srs parallel == serial: spectrum [%s/%s/%s]" % (stype, ic, timeopt), _same(ser, par), info=info))
            # footprints: watched arrays are created in order SRSmax (LF x H) then HIST (nt x H x LF)
            LF = len(freqs)
            Hn = 1 if oneD else Hc
            names = sorted(Sched.watched)
            rows = {}
            if names:
                rows[names[0]] = lambda j, Hn=Hn: set(range(j * Hn, (j + 1) * Hn))
            if len(names) > 1:
                nt = Sched.watched[names[1]].size // (Hn * LF)
                rows[names[1]] = lambda j, nt=nt, Hn=Hn, LF=LF: {(t * Hn + h) * LF + j for t in range(nt) for h in range(Hn)}
            obls += footprint_obls(LF, rows, info)
        return obls
    return fn


# ---------------------------------------------------------------------------
def fde_section():
    """the `if parallel == "yes": ... else: ...` statement of fdepsd.fdepsd as a function of its free variables"""
    if "fde" in _C:
        return _C["fde"]
    import pyyeti.fdepsd as fd
    src = textwrap.dedent(inspect.getsource(fd.fdepsd))
    tree = ast.parse(src)
    fdef = tree.body[0]
    node = None
    for st in fdef.body:
        if isinstance(st, ast.If) and isinstance(st.test, ast.Compare) and isinstance(st.test.left, ast.Name) and st.test.left.id == "parallel":
            node = st
    if node is None:
        raise RuntimeError("per-frequency section of fdepsd not found")
    args = ["parallel", "ncpu", "Wn", "sig", "LF", "nbins", "coeffunc", "Q", "dT", "verbose", "pi"]
    fn = ast.FunctionDef(name="section", args=ast.arguments(posonlyargs=[], args=[ast.arg(a) for a in args], kwonlyargs=[], kw_defaults=[], defaults=[]),
                         body=[node, ast.Return(ast.Tuple([ast.Name(n, ast.Load()) for n in ("Amax", "SRSmax", "Var", "BinAmps", "Count")], ast.Load()))],
                         decorator_list=[], type_params=[])
    mod = ast.Module(body=[fn], type_ignores=[])
    ast.fix_missing_locations(mod)
    import pyyeti.srs as srsm

    def findap(y, tol=1e-6):
        return Op(uf("findap", 1)(term(np.asarray(y))))

    def rainflow(peaks, getoffsets=False, use_pandas=True):
        t = term(peaks)
        return dict(amp=Op(uf("rf_amp", 1)(t)), count=Op(uf("rf_count", 1)(t)))
    nps = NPStub()
    srs_ns = types.SimpleNamespace(copyToSharedArray=_copyto, createSharedArray=_shared("f"))
    workers = rebind([fd._to_np_array, fd._mk_par_globals, fd._dofde],
                     dict(np=nps, signal=SigStub, cyclecount=types.SimpleNamespace(findap=findap, rainflow=rainflow)))
    g = dict(workers["_dofde"].__globals__)
    g.update(np=nps, signal=SigStub, cyclecount=types.SimpleNamespace(findap=findap, rainflow=rainflow), srs=srs_ns, mp=Sched, it=itertools)
    g.update(workers)
    # the workers must see the globals the initializer sets: share ONE dict
    for f in workers.values():
        pass
    gg = workers["_dofde"].__globals__
    gg.update(srs=srs_ns, mp=Sched, it=itertools)
    exec(compile(mod, "<fdepsd per-frequency section>", "exec"), gg)
    _C["fde"] = (gg["section"], H.src_hash(fd.fdepsd))
    return _C["fde"]


def fde_fn(N, freqs, nbins):
    def fn(eng):
        S.set_engine(eng)
        import pyyeti.srs as srsm
        section, _ = fde_section()
        sig = sigarr(N, 1, True)
        Wn = 2 * np.pi * np.array(freqs)
        LF = len(freqs)
        info = dict(kind="fdepsd", N=N, freqs=list(freqs), nbins=nbins)
        out = {}
        for par in ("no", "yes"):
            Sched.watched, Sched.log, Sched.order = {}, [], []
            try:
                out[par] = section(par, 3, Wn, sig, LF, nbins, srsm.absacce, 10, 0.001, False, np.pi)
            except E.Inconclusive:
                raise
            except Exception as ex:
                # the two settings no longer run the same operations on the uninterpreted
                # values: a candidate difference, decided by the replay with real processes
                return [E.Obl("fdepsd section (parallel=%r) leaves the uninterpreted domain: %r" % (par, ex), False, info=info)]
        eng.tag("fdepsd")
        if Sched.order != sorted(Sched.order):
            eng.tag("order-nonidentity")
        obls = []
        for nm, a, b in zip(("Amax", "SRSmax", "Var", "BinAmps", "Count"), out["no"], out["yes"]):
            obls.append(E.Obl("fdepsd parallel == serial: %s" % nm, _same(a, b), info=info))
        names = sorted(Sched.watched)   # ASV (3 x LF), BinAmps (LF x nbins), Count (LF x nbins)
        rows = {}
        if len(names) >= 3:
            rows[names[0]] = lambda j: {r * LF + j for r in range(3)}
            rows[names[1]] = lambda j: set(range(j * nbins, (j + 1) * nbins))
            rows[names[2]] = lambda j: set(range(j * nbins, (j + 1) * nbins))
        obls += footprint_obls(LF, rows, info)
        return obls
    return fn


# ---------------------------------------------------------------------------
def replay(p):
    """real processes: parallel='yes' vs 'no' on concrete data with the options of the failing combination"""
    info = p["info"]
    rng = np.random.RandomState(7)
    if info.get("kind") == "fdepsd":
        import pyyeti.fdepsd as fd
        # exact ties on bin edges: one burst repeated at 1x, 2x, 4x scale (exact in floating
        # point) separated by gaps long enough for the response to die out completely
        base = rng.randn(400)
        gap = np.zeros(20000)
        sig = np.r_[base, gap, 2 * base, gap, 4 * base, np.zeros(300)]
        kw = dict(hpfilter=None, winends=None, detrend=False, nbins=8, rolloff=None)
        fq = np.array([20.0, 27.0, 35.0, 41.0, 50.0])
        a = fd.fdepsd(sig, 500.0, fq, 10, parallel="no", **kw)
        b = fd.fdepsd(sig, 500.0, fq, 10, parallel="yes", maxcpu=2, **kw)
        bad = [k for k in ("count", "bincount", "binamps", "srs", "var", "psd", "peakamp", "di_sig") if not np.array_equal(np.asarray(getattr(a, k)), np.asarray(getattr(b, k)), equal_nan=True)]
        if bad:
            return True, "fdepsd(parallel='yes') differs from parallel='no' in %s" % bad
        return False, "fdepsd parallel == serial on the real code"
    import pyyeti.srs as m
    N, Hc = 400, max(2, info.get("H", 2))
    sig = rng.randn(N, Hc) + 0.3
    if info.get("oneD"):
        sig = sig[:, 0]
    freqs = np.array(info["freqs"], dtype=float)
    kw = dict(ic=info["ic"], stype=info["stype"], time=info["time"], rolloff="none", getresp=info["getresp"])
    with np.errstate(all="ignore"):
        a = m.srs(sig, 1000.0, freqs, 10, parallel="no", **kw)
        msgs = []
        for ncpu in (1, 2, 3):
            b = m.srs(sig, 1000.0, freqs, 10, parallel="yes", maxcpu=ncpu, **kw)
            if info["getresp"]:
                if not np.array_equal(a[0], b[0], equal_nan=True):
                    msgs.append("spectrum differs (maxcpu=%d)" % ncpu)
                if a[1]["hist"].shape != b[1]["hist"].shape or not np.array_equal(a[1]["hist"], b[1]["hist"], equal_nan=True):
                    msgs.append("response histories differ (maxcpu=%d)" % ncpu)
            elif not np.array_equal(a, b, equal_nan=True):
                msgs.append("spectrum differs (maxcpu=%d)" % ncpu)
    if msgs:
        return True, "srs(%s) parallel vs serial: %s" % (kw, "; ".join(msgs[:3]))
    return False, "srs parallel == serial (bit-identical) on the real code"


REPLAY = {"parallel": replay}


def job(kind, *args):
    eng = E.Engine()
    fn = srs_fn(*args) if kind == "srs" else fde_fn(*args)
    res = eng.explore(fn, max_cex=2)
    res["note"] = "%s %s: all completion orders" % (kind, str(args)[:120])
    H.triage(res, "parallel", replay, lambda c: dict(info=(c.get("info") or [{}])[0]), max_replays=2)
    return res


def jobs(tier, seed):
    q = tier == "quick"
    out = []
    stypes = ("absacce", "relacce", "reldisp", "relvelo", "pvelo", "pacce")
    ics = ("zero", "shift", "mshift", "steady")
    allc = [(s, ic, gr, t, False) for s in stypes for ic in ics for gr in (False, True) for t in ("primary", "total", "residual")]
    allc += [("absacce", "steady", True, "primary", True), ("reldisp", "steady", False, "total", True)]
    if q:
        allc = [c for k, c in enumerate(allc) if (k + seed) % 3 == 0 or c[1] == "steady"]
    fr3 = (0.0, 50.0, 120.0)
    fr4 = (20.0, 0.0, 120.0, 300.0)
    chunks = [allc[i::12] for i in range(12)]
    for i, ch in enumerate(chunks):
        out.append(H.Job("srs-LF3-%d" % i, job, "srs", 3, 2, fr3, ch, weight=len(ch) * 6))
    out.append(H.Job("srs-LF4", job, "srs", 3, 2, fr4, [("reldisp", "steady", True, "total", False), ("absacce", "zero", False, "primary", False)], weight=100))
    out.append(H.Job("fdepsd-LF3", job, "fdepsd", 4, (20.0, 50.0, 120.0), 3, weight=20))
    out.append(H.Job("fdepsd-LF4", job, "fdepsd", 3, (20.0, 50.0, 120.0, 300.0), 2, weight=60))
    if not q:
        for i, ch in enumerate([allc[i::8] for i in range(8)]):
            out.append(H.Job("srs-LF4-%d" % i, job, "srs", 3, 2, fr4, ch[:6], weight=400))
    return out


def extra_coverage(results):
    import pyyeti.srs as m
    import pyyeti.fdepsd as fd
    fns = [m.srs, m._mk_par_globals, m._dosrs, m._dosrs_nohist, m._mk_par_globals_ic, m._dosrs_ic, m._dosrs_nohist_ic, m._process_parallel,
           fd._dofde, fd._mk_par_globals, fd._to_np_array]
    return dict(functions_encoded=[H.fn_id(f) for f in fns] + ["pyyeti.fdepsd.fdepsd[per-frequency section]@" + fde_section()[1]])
