"""C16 - loads-analysis extrema (NaN-aware, one/two column) and uncertainty
factors, decided on the real cla functions with symbolic responses."""
import itertools
import time
from fractions import Fraction
from types import SimpleNamespace

import numpy as np
import z3

from vsym import sym as S
from vsym import engine as E
from vsym import harness as H
from vsym.npproxy import NPProxy, rebind
from vsym import odekit as O

PID = "C16"

META = dict(
    level="other",
    stubs=["np.isnan on NaN-flagged symbolic values -> solver decision on the flag",
           "np.nanargmax/nanargmin -> their documented contract as comparison code",
           "scipy.linalg.lu_solve with concrete matrix -> multiplication by the inverse (apply_uf, full k)"],
    bounds=dict(quick="extrema: 3 cases x 1 row and 2 cases x 2 rows, one- and two-column, with/without ext_x; maxmin 2 rows x 3 samples; "
                      "apply_uf: n = 4 modes (1 rb, 2 el, 1 rf), 2 time steps, symbolic uf (diagonal k) / 3 concrete uf tuples (full k)",
                thorough="extrema: 3 cases x 2 rows, 4 cases x 1 row; maxmin 2 x 4; apply_uf n = 5"),
    outside=["DR_Results.time/frf/psd_data_recovery, form_extreme, merge (pandas/reporting flows that call these kernels)",
             "SRS envelopes", "infinite values"],
    assumptions=["two-column case data has max >= min unless NaN (what maxmin produces)"],
    reach_required=["nan-present", "all-nan-row", "tie", "first-case", "replace-max", "replace-min", "onecol", "twocol", "uf-diag", "uf-full", "maxmin"],
)

_U = {}


def _cla():
    if not _U:
        import pyyeti.cla._utilities as U
        npx = NPProxy()
        f = rebind([U.extrema, U.nan_argmax, U.nan_argmin, U.nan_absmax, U.maxmin], dict(np=npx))
        _U.update(f)
        _U["_ids"] = [H.fn_id(getattr(U, n)) for n in ("extrema", "nan_argmax", "nan_argmin", "nan_absmax", "maxmin")]
    return _U


def _mk(name):
    return S.SymF(z3.Bool(name + "_nan"), z3.Real(name))


def _absz(e):
    return z3.If(e >= 0, e, -e)


def extrema_path(R, NC, cols, with_x):
    def fn(eng):
        S.set_engine(eng)
        extrema = _cla()["extrema"]
        eng.tag("onecol" if cols == 1 else "twocol")
        ALIAS = []

        def run(order):
            cur = SimpleNamespace(ext=None, ext_x=None, maxcase=None, mincase=None,
                                  mx=np.empty((R, NC), dtype=object), mn=np.empty((R, NC), dtype=object),
                                  mx_x=np.empty((R, NC), dtype=object), mn_x=np.empty((R, NC), dtype=object))
            kept = []
            for c in order:
                mm = SimpleNamespace(ext=data[c].copy(), ext_x=(xs[c].copy() if with_x else None))
                extrema(cur, mm, "case%d" % c, casenum=c)
                kept.append((c, mm))
            # the per-case records handed in stay what they were (no aliasing into the running envelope)
            for c, mm in kept:
                same = all(mm.ext[idx] is data[c][idx] for idx in np.ndindex(*data[c].shape))
                if with_x:
                    same = same and all(mm.ext_x[idx] is xs[c][idx] for idx in np.ndindex(*xs[c].shape))
                ALIAS.append((c, same))
            return cur

        data, xs = [], []
        for c in range(NC):
            ext = np.empty((R, cols), dtype=object)
            xx = np.empty((R, cols), dtype=object)
            for r in range(R):
                for k in range(cols):
                    ext[r, k] = _mk("v%d_%d_%d" % (c, r, k))
                    xx[r, k] = S.SymR(z3.Real("x%d_%d_%d" % (c, r, k)))
                if cols == 2:
                    eng.assume(z3.Or(ext[r, 0].nan, ext[r, 1].nan, ext[r, 0].val >= ext[r, 1].val))
            data.append(ext)
            xs.append(xx)
        cur = run(range(NC))
        obls = []
        for c, same in ALIAS:
            obls.append(E.Obl("extrema leaves the record of case %d it was given unchanged" % c, same))
        for r in range(R):
            for col in (0, 1):
                src = col if cols == 2 else 0
                got = cur.ext[r, col]
                if not isinstance(got, S.SymF):
                    got = S.SymF.of(got)
                vals = [d[r, src] for d in data]
                allnan = z3.And([v.nan for v in vals])
                key = (lambda e: e) if cols == 2 else _absz
                sgn = 1 if col == 0 else -1      # col 0: maximum, col 1: minimum
                nm = "ext[%d,%d]" % (r, col)
                obls.append(E.Obl(nm + " is NaN iff every case is NaN", got.nan == allnan))
                for ci, v in enumerate(vals):
                    obls.append(E.Obl(nm + " bounds case %d" % ci,
                                      z3.Implies(z3.And(z3.Not(v.nan), z3.Not(got.nan)),
                                                 sgn * key(got.val) >= sgn * key(v.val))))
                obls.append(E.Obl(nm + " is attained by some case",
                                  z3.Or(allnan, z3.Or([z3.And(z3.Not(v.nan), got.val == v.val) for v in vals]))))
                labs = cur.maxcase if col == 0 else cur.mincase
                lab = int(labs[r][4:])
                lv = vals[lab]
                obls.append(E.Obl(nm + " label %s names an attaining case" % labs[r],
                                  z3.Or(allnan, z3.And(z3.Not(lv.nan), lv.val == got.val))))
                if with_x:
                    gx = cur.ext_x[r, col]
                    obls.append(E.Obl(nm + " abscissa is that of the labelled case",
                                      z3.Or(allnan, S.lift(gx) == S.lift(xs[lab][r, src]))))
            for c in range(NC):
                for nmx, arr, src in (("mx", cur.mx, 0), ("mn", cur.mn, cols - 1)):
                    g = arr[r, c]
                    w = data[c][r, src]
                    ok = isinstance(g, S.SymF) and g.nan is w.nan and g.val is w.val
                    obls.append(E.Obl("%s[%d,%d] holds case %d's value" % (nmx, r, c, c), ok))
                if with_x:
                    obls.append(E.Obl("mx_x[%d,%d]" % (r, c), S.lift(cur.mx_x[r, c]) == S.lift(xs[c][r, 0])))
                    obls.append(E.Obl("mn_x[%d,%d]" % (r, c), S.lift(cur.mn_x[r, c]) == S.lift(xs[c][r, cols - 1])))
        # order independence of the envelope values
        rev = run(list(range(NC))[::-1])
        for r in range(R):
            for col in (0, 1):
                a, b = S.SymF.of(cur.ext[r, col]), S.SymF.of(rev.ext[r, col])
                key = (lambda e: e) if cols == 2 else _absz
                obls.append(E.Obl("ext[%d,%d] independent of case order" % (r, col),
                                  z3.And(a.nan == b.nan, z3.Or(a.nan, key(a.val) == key(b.val)))))
        # reachability witnesses
        allv = [d[r, k] for d in data for r in range(R) for k in range(cols)]
        eng.tag("first-case")
        if eng._check(z3.Or([v.nan for v in allv])) == "sat":
            eng.tag("nan-present")
        if eng._check(z3.Or([z3.And([d[r, 0].nan for d in data]) for r in range(R)])) == "sat":
            eng.tag("all-nan-row")
        if NC >= 2 and eng._check(z3.Or([z3.And(z3.Not(data[0][r, 0].nan), z3.Not(data[1][r, 0].nan),
                                                data[0][r, 0].val == data[1][r, 0].val) for r in range(R)])) == "sat":
            eng.tag("tie")
        if any(int(cur.maxcase[r][4:]) > 0 for r in range(R)):
            eng.tag("replace-max")
        if any(int(cur.mincase[r][4:]) > 0 for r in range(R)):
            eng.tag("replace-min")
        return obls
    return fn


def maxmin_path(R, C):
    def fn(eng):
        S.set_engine(eng)
        maxmin = _cla()["maxmin"]
        resp = np.empty((R, C), dtype=object)
        for r in range(R):
            for c in range(C):
                resp[r, c] = _mk("y%d_%d" % (r, c))
            eng.assume(z3.Not(z3.And([resp[r, c].nan for c in range(C)])))   # numpy raises on all-NaN rows
        x = np.empty(C, dtype=object)
        for c in range(C):
            x[c] = S.SymR(z3.Real("t%d" % c))
        mm = maxmin(resp, x)
        eng.tag("maxmin")
        obls = []
        for r in range(R):
            for col, sgn in ((0, 1), (1, -1)):
                got = S.SymF.of(mm.ext[r, col])
                obls.append(E.Obl("maxmin ext[%d,%d] not NaN" % (r, col), z3.Not(got.nan)))
                for c in range(C):
                    v = resp[r, c]
                    obls.append(E.Obl("maxmin ext[%d,%d] bounds sample %d" % (r, col, c),
                                      z3.Implies(z3.Not(v.nan), sgn * got.val >= sgn * v.val)))
                obls.append(E.Obl("maxmin ext/ext_x[%d,%d] attained at a sample" % (r, col),
                                  z3.Or([z3.And(z3.Not(resp[r, c].nan), resp[r, c].val == got.val,
                                                S.lift(mm.ext_x[r, col]) == S.lift(x[c])) for c in range(C)])))
        return obls
    return fn


# ---------------------------------------------------------------------------
UFS = [(1.0, 1.0, 1.0, 1.0), (1.1, 1.25, 1.3, 1.05), (0.9, 1.0, 2.0, 1.5)]


def _uf_system(kind, n):
    """nrb=1, elastic in the middle, one rf at the end (kinds ending in -rfmid: rf directly after the rigid-body mode)"""
    rng = np.random.RandomState(7)
    nrb = 1
    rf = np.array([n - 1])
    k = np.array([0.0] + [100.0 * (i + 1) for i in range(n - 2)] + [5.0e5])
    m = np.array([2.0] + [1.0 + 0.25 * i for i in range(n - 1)])
    if kind.endswith("-rfmid"):
        # the residual-flexibility mode sits between the rigid-body mode and the elastic modes
        # (elastic modes are not a leading block of the non-rigid-body modes)
        rf = np.array([nrb])
        k = np.array([0.0, 5.0e5] + [100.0 * (i + 1) for i in range(n - 2)])
        kind = kind[:-6]
    b = 0.02 * k + 0.1
    if kind == "diag":
        return None if False else m, b, k, nrb, rf
    if kind == "diag-mNone":
        return None, b, k, nrb, rf
    if kind == "diag-norf":
        return m, b, k, nrb, None
    K = np.diag(k)
    B = np.diag(b)
    M = np.diag(m)
    el = [i for i in range(nrb, n) if i not in list(rf)]
    for i in el:
        for j in el:
            if i != j:
                K[i, j] = -7.0 - i - j
                B[i, j] = 0.3
                M[i, j] = 0.05
    if kind == "full":
        return M, B, K, nrb, rf
    if kind == "full-norf":
        return M, B, K, nrb, None
    raise KeyError(kind)


def _uf_reference(sol_a, sol_v, sol_d, pg, uf, m, b, k, nrb, rf, n, nt):
    """documented rules transcribed independently; returns dict of n x nt
    arrays of z3 terms (exact for diagonal k; for full k uses a 60-digit
    inverse of the elastic stiffness)"""
    import mpmath as mp
    ruf, euf, duf, suf = uf
    rfl = [] if rf is None else [int(i) for i in rf]
    el = [i for i in range(nrb, n) if i not in rfl]
    M = np.eye(n) if m is None else (np.diag(m) if np.ndim(m) == 1 else m)
    B = np.diag(b) if np.ndim(b) == 1 else b
    K = np.diag(k) if np.ndim(k) == 1 else k
    L = S.lift
    out = {nm: [[None] * nt for _ in range(n)] for nm in ("a", "v", "d", "ds", "dd")}
    mp.mp.dps = 60
    if el and np.ndim(k) == 1:
        # diagonal stiffness: the code divides by k; the inverse is taken exactly (a 60-digit decimal of 1/300 is not 1/300)
        KiQ = [[(Fraction(1) / Fraction(float(k[i])) if i == j_ else Fraction(0)) for j_ in el] for i in el]
    elif el:
        Kel = mp.matrix([[K[i, j] for j in el] for i in el])
        Ki = Kel ** -1
        KiQ = [[O._toQ(Ki[a_, c_]) for c_ in range(len(el))] for a_ in range(len(el))]
    for j in range(nt):
        for i in range(n):
            if i < nrb:
                out["a"][i][j] = L(sol_a[i, j]) * ruf * suf
                out["v"][i][j] = L(sol_v[i, j]) * ruf * suf
                out["ds"][i][j] = z3.RealVal(0)
                out["dd"][i][j] = z3.RealVal(0)
            elif i in rfl:
                out["a"][i][j] = z3.RealVal(0)
                out["v"][i][j] = z3.RealVal(0)
                out["ds"][i][j] = L(sol_d[i, j]) * euf * suf
                out["dd"][i][j] = z3.RealVal(0)
            else:
                out["a"][i][j] = L(sol_a[i, j]) * euf * duf
                out["v"][i][j] = L(sol_v[i, j]) * euf * duf
        # elastic displacement: d_el = euf*inv(k_el)*(suf*F_el - duf*(m a + b v)_el)
        av = {i: z3.Sum([z3.RealVal(Fraction(float(M[i, q]))) * L(sol_a[q, j]) + z3.RealVal(Fraction(float(B[i, q]))) * L(sol_v[q, j])
                         for q in el]) for i in el}
        F = {i: av[i] + z3.Sum([z3.RealVal(Fraction(float(K[i, q]))) * L(sol_d[q, j]) for q in el]) for i in el}
        for a_, i in enumerate(el):
            out["ds"][i][j] = euf * suf * z3.Sum([z3.RealVal(KiQ[a_][c_]) * F[q] for c_, q in enumerate(el)])
            out["dd"][i][j] = -euf * duf * z3.Sum([z3.RealVal(KiQ[a_][c_]) * av[q] for c_, q in enumerate(el)])
        for i in range(n):
            out["d"][i][j] = out["ds"][i][j] + out["dd"][i][j]
    return out


def uf_path(kind, n, nt, symbolic_uf):
    def fn(eng):
        S.set_engine(eng)
        import pyyeti.cla.dr_event as de
        m, b, k, nrb, rf = _uf_system(kind, n)
        O.NP.sym = True
        try:
            a = O.sarr(O.zmat("a", n, nt))
            v = O.sarr(O.zmat("v", n, nt))
            d = O.sarr(O.zmat("d", n, nt))
            pg = O.sarr(O.zmat("pg", 2, nt))
            sol = SimpleNamespace(a=a, v=v, d=d, pg=pg)
            keep = [x.copy() for x in (a, v, d, pg)]
            if symbolic_uf:
                ufz = [z3.Real(nm) for nm in ("ruf", "euf", "duf", "suf")]
                ufs = [tuple(S.SymR(z) for z in ufz), (1.0, 1.0, 1.0, 1.0)]
                ufs_ref = [tuple(ufz), (1, 1, 1, 1)]
                eng.tag("uf-diag")
                tol = None
            else:
                ufs = list(UFS)
                ufs_ref = [tuple(z3.RealVal(Fraction(x)) for x in u) for u in UFS]
                eng.tag("uf-full")
                tol = 1e-9
            obls = []

            def cmp(label, got, want):
                if tol is None:
                    e = z3.simplify(S.lift(got) - S.lift(want), som=True)
                    obls.append(E.Obl(label, e == 0))
                else:
                    obls.append(E.Obl(label, O.within(got, want, tol, box=1)))

            # fresh cache per call vs one shared cache in both call orders
            fresh = [de.apply_uf(sol, u, m, b, k, nrb, rf, None) for u in ufs]
            save = {}
            shared = [de.apply_uf(sol, u, m, b, k, nrb, rf, save) for u in ufs]
            save2 = {}
            shared_rev = [de.apply_uf(sol, u, m, b, k, nrb, rf, save2) for u in ufs[::-1]][::-1]
            for ui, (u, ur) in enumerate(zip(ufs, ufs_ref)):
                ref = _uf_reference(a, v, d, pg, ur, m, b, k, nrb, rf, n, nt)
                so = fresh[ui]
                for i in range(n):
                    for j in range(nt):
                        cmp("uf%d a[%d,%d]" % (ui, i, j), so.a[i, j], ref["a"][i][j])
                        cmp("uf%d v[%d,%d]" % (ui, i, j), so.v[i, j], ref["v"][i][j])
                        cmp("uf%d d_static[%d,%d]" % (ui, i, j), so.d_static[i, j], ref["ds"][i][j])
                        cmp("uf%d d_dynamic[%d,%d]" % (ui, i, j), so.d_dynamic[i, j], ref["dd"][i][j])
                        cmp("uf%d d = d_static + d_dynamic [%d,%d]" % (ui, i, j), so.d[i, j], S.lift(so.d_static[i, j]) + S.lift(so.d_dynamic[i, j]))
                        for other, nm in ((shared[ui], "shared cache"), (shared_rev[ui], "shared cache, reversed call order")):
                            for fld in ("a", "v", "d", "d_static", "d_dynamic"):
                                cmp("uf%d %s %s[%d,%d]" % (ui, nm, fld, i, j), getattr(other, fld)[i, j], getattr(so, fld)[i, j])
                for i in range(2):
                    for j in range(nt):
                        cmp("uf%d pg[%d,%d]" % (ui, i, j), so.pg[i, j], S.lift(pg[i, j]) * ur[3])
            # unit factors reproduce the solution (rb displacement and rf a/v are zeroed as documented)
            unit = fresh[-1] if symbolic_uf else fresh[0]
            rfl = [] if rf is None else [int(i) for i in rf]
            for i in range(n):
                for j in range(nt):
                    if i not in rfl:
                        cmp("unit a[%d,%d]" % (i, j), unit.a[i, j], a[i, j])
                        cmp("unit v[%d,%d]" % (i, j), unit.v[i, j], v[i, j])
                    if i >= nrb:
                        cmp("unit d[%d,%d]" % (i, j), unit.d[i, j], d[i, j])
            # inputs untouched
            for arr, kp, nm in zip((a, v, d, pg), keep, "avdp"):
                same = all(x is y for x, y in zip(arr.ravel(), kp.ravel()))
                obls.append(E.Obl("input %s not modified" % nm, same))
            return obls
        finally:
            O.NP.sym = False
    return fn


def frf_uf_path(n, nt):
    def fn(eng):
        S.set_engine(eng)
        import pyyeti.cla.dr_event as de
        nrb = 2
        ufz = [z3.Real(nm) for nm in ("ruf", "euf", "duf", "suf")]
        uf = tuple(S.SymR(z) for z in ufz)
        a, v, d = (O.sarr(O.zmat(nm, n, nt)) for nm in "avd")
        pg = O.sarr(O.zmat("pg", 2, nt))
        sol = SimpleNamespace(a=a, v=v, d=d, pg=pg)
        keep = dict(a=a.copy(), v=v.copy(), d=d.copy(), pg=pg.copy())
        ev = SimpleNamespace(UF_reds=[uf])
        # deepcopy of symbolic scalars: they are immutable wrappers
        out = de.DR_Event.frf_apply_uf(ev, sol, nrb)[uf]
        obls = []
        for i in range(n):
            f = ufz[0] * ufz[3] if i < nrb else ufz[1] * ufz[2]
            for j in range(nt):
                for nm in "avd":
                    e = z3.simplify(S.lift(getattr(out, nm)[i, j]) - f * S.lift(keep[nm][i, j]), som=True)
                    obls.append(E.Obl("frf uf %s[%d,%d]" % (nm, i, j), e == 0))
        for i in range(2):
            for j in range(nt):
                obls.append(E.Obl("frf uf pg", z3.simplify(S.lift(out.pg[i, j]) - ufz[3] * S.lift(keep["pg"][i, j]), som=True) == 0))
        for nm in "avd":
            same = all(x is y for x, y in zip(getattr(sol, nm).ravel(), keep[nm].ravel()))
            obls.append(E.Obl("frf input %s not modified" % nm, same))
        eng.tag("uf-frf")
        return obls
    return fn


# ---------------------------------------------------------------------------
def job(kind, *args, roots=None, split_depth=None):
    t0 = time.time()
    assumptions = []
    if kind == "extrema":
        fn = extrema_path(*args)
    elif kind == "maxmin":
        fn = maxmin_path(*args)
    elif kind == "uf":
        knd, n, nt, symuf = args
        import pyyeti.cla.dr_event as de
        de.np = O.NP
        de.la = O.LA
        fn = uf_path(*args)
        names = ["%s_%d_%d" % (nm, i, j) for nm in "avd" for i in range(n) for j in range(nt)] + \
                ["pg_%d_%d" % (i, j) for i in range(2) for j in range(nt)]
        assumptions = S.box(names)
    elif kind == "frfuf":
        fn = frf_uf_path(*args)
    eng = E.Engine()
    if kind == "uf" and not args[3]:
        eng.obl_mode = "each"
    res = eng.explore(fn, assumptions=assumptions, roots=roots, split_depth=split_depth, max_cex=3)
    res["note"] = "%s %s" % (kind, args)
    if split_depth is not None and res["roots"]:
        rs = res.pop("roots")
        nchunk = 32
        res["spawn"] = [("%s-%s-sub%d" % (kind, "x".join(map(str, args)), i), job, (kind,) + tuple(args), dict(roots=rs[i::nchunk]))
                        for i in range(nchunk) if rs[i::nchunk]]
    res["roots"] = []
    H.triage(res, kind, REPLAY[kind], lambda c: dict(args=list(args), model=c["model"], labels=c["labels"]))
    return res


def _fl(mdl, name, nan_name=None):
    if nan_name and mdl.get(nan_name):
        return float("nan")
    v = mdl.get(name, 0)
    return float(v or 0)


def replay_extrema(p):
    from pyyeti import cla
    R, NC, cols, with_x = p["args"]
    mdl = p["model"]
    cur = SimpleNamespace(ext=None, ext_x=None, maxcase=None, mincase=None,
                          mx=np.zeros((R, NC)), mn=np.zeros((R, NC)), mx_x=np.zeros((R, NC)), mn_x=np.zeros((R, NC)))
    data, xs, kept_ = [], [], []
    for c in range(NC):
        ext = np.array([[_fl(mdl, "v%d_%d_%d" % (c, r, k), "v%d_%d_%d_nan" % (c, r, k)) for k in range(cols)] for r in range(R)])
        # abscissas never steer extrema(): make them distinct per case/row/column so that copies are traceable
        xx = np.array([[_fl(mdl, "x%d_%d_%d" % (c, r, k)) + 1000.0 * (c + 1) + 10.0 * r + k for k in range(cols)] for r in range(R)])
        data.append(ext)
        xs.append(xx)
        mm_ = SimpleNamespace(ext=ext.copy(), ext_x=xx.copy() if with_x else None)
        kept_.append(mm_)
        cla.extrema(cur, mm_, "case%d" % c, casenum=c)
    A = np.array(data)     # NC x R x cols
    problems = []
    for c, mm_ in enumerate(kept_):
        if not np.array_equal(mm_.ext, data[c], equal_nan=True) or (with_x and not np.array_equal(mm_.ext_x, xs[c], equal_nan=True)):
            problems.append("the record of case%d that was passed in was modified by later calls (ext_x %s, originally %s)" % (c, mm_.ext_x.tolist() if with_x else None, xs[c].tolist()))
    with np.errstate(all="ignore"):
        import warnings
        warnings.simplefilter("ignore")
        for r in range(R):
            for col in (0, 1):
                src = col if cols == 2 else 0
                vals = A[:, r, src]
                ok = ~np.isnan(vals)
                got = cur.ext[r, col]
                if not ok.any():
                    if not np.isnan(got):
                        problems.append("row %d col %d: all cases NaN but envelope is %r" % (r, col, got))
                    continue
                key = (lambda z: z) if cols == 2 else np.abs
                want = (key(vals[ok]).max() if col == 0 else key(vals[ok]).min())
                if np.isnan(got) or key(got) != want:
                    problems.append("row %d %s: envelope holds %r but case values are %s (expected %s%r)" % (
                        r, ("max", "min")[col], got, vals.tolist(), "|.|=" if cols == 1 else "", want))
                    continue
                lab = int((cur.maxcase if col == 0 else cur.mincase)[r][4:])
                if not (vals[lab] == got):
                    problems.append("row %d %s: label case%d has value %r, envelope %r" % (r, ("max", "min")[col], lab, vals[lab], got))
                elif with_x and cur.ext_x[r, col] != xs[lab][r, src]:
                    problems.append("row %d %s: abscissa %r is not that of case%d (%r)" % (r, ("max", "min")[col], cur.ext_x[r, col], lab, xs[lab][r, src]))
            for c in range(NC):
                if not (np.array_equal(cur.mx[r, c], A[c, r, 0], equal_nan=True) and np.array_equal(cur.mn[r, c], A[c, r, cols - 1], equal_nan=True)):
                    problems.append("mx/mn[%d,%d] do not hold case %d's values" % (r, c, c))
    # envelope values must not depend on the order of the cases
    rev = SimpleNamespace(ext=None, ext_x=None, maxcase=None, mincase=None,
                          mx=np.zeros((R, NC)), mn=np.zeros((R, NC)), mx_x=np.zeros((R, NC)), mn_x=np.zeros((R, NC)))
    for c in range(NC - 1, -1, -1):
        cla.extrema(rev, SimpleNamespace(ext=data[c].copy(), ext_x=xs[c].copy() if with_x else None), "case%d" % c, casenum=c)
    key = (lambda z: z) if cols == 2 else np.abs
    if not np.array_equal(key(rev.ext), key(cur.ext), equal_nan=True):
        problems.append("envelope depends on case order: %s (cases 0..n) vs %s (reversed)" % (cur.ext.tolist(), rev.ext.tolist()))
    if problems:
        return True, "cla.extrema, %d-column data, cases %s: %s" % (cols, [d.tolist() for d in data], "; ".join(problems[:3]))
    return False, "cla.extrema reproduces the reference on %s" % [d.tolist() for d in data]


def replay_maxmin(p):
    from pyyeti import cla
    R, C = p["args"]
    mdl = p["model"]
    resp = np.array([[_fl(mdl, "y%d_%d" % (r, c), "y%d_%d_nan" % (r, c)) for c in range(C)] for r in range(R)])
    x = np.array([_fl(mdl, "t%d" % c) for c in range(C)])
    mm = cla.maxmin(resp, x)
    problems = []
    for r in range(R):
        if mm.ext[r, 0] != np.nanmax(resp[r]) or mm.ext[r, 1] != np.nanmin(resp[r]):
            problems.append("row %d ext %s vs data %s" % (r, mm.ext[r].tolist(), resp[r].tolist()))
        else:
            for col in (0, 1):
                js = [c for c in range(C) if resp[r, c] == mm.ext[r, col] and x[c] == mm.ext_x[r, col]]
                if not js:
                    problems.append("row %d ext_x %s not at an attaining sample" % (r, mm.ext_x[r].tolist()))
    return (True, "cla.maxmin: " + "; ".join(problems[:3])) if problems else (False, "maxmin ok on %s" % resp.tolist())


def replay_uf(p):
    import pyyeti.cla.dr_event as de
    import importlib
    kind, n, nt, symuf = p["args"]
    mdl = p["model"]
    m, b, k, nrb, rf = _uf_system(kind, n)
    g = lambda nm: float(mdl.get(nm, 0) or 0)
    arr = lambda nm, r: np.array([[g("%s_%d_%d" % (nm, i, j)) for j in range(nt)] for i in range(r)])
    sol = SimpleNamespace(a=arr("a", n), v=arr("v", n), d=arr("d", n), pg=arr("pg", 2))
    if symuf:
        ufs = [tuple(g(nm) for nm in ("ruf", "euf", "duf", "suf")), (1.0, 1.0, 1.0, 1.0)]
    else:
        ufs = list(UFS)
    problems = []
    save = {}
    save2 = {}
    shared_rev = [de.apply_uf(sol, u, m, b, k, nrb, rf, save2) for u in ufs[::-1]][::-1]
    M = np.eye(n) if m is None else (np.diag(m) if np.ndim(m) == 1 else m)
    B = np.diag(b) if np.ndim(b) == 1 else b
    K = np.diag(k) if np.ndim(k) == 1 else k
    rfl = [] if rf is None else [int(i) for i in rf]
    el = [i for i in range(nrb, n) if i not in rfl]
    for ui, u in enumerate(ufs):
        ruf, euf, duf, suf = u
        so = de.apply_uf(sol, u, m, b, k, nrb, rf, None)
        sh = de.apply_uf(sol, u, m, b, k, nrb, rf, save)
        ref_a = sol.a.copy()
        ref_v = sol.v.copy()
        ref_a[:nrb] *= ruf * suf
        ref_v[:nrb] *= ruf * suf
        ref_a[el] *= euf * duf
        ref_v[el] *= euf * duf
        ref_a[rfl] = 0
        ref_v[rfl] = 0
        ds = np.zeros((n, nt))
        dd = np.zeros((n, nt))
        ee = np.ix_(el, el)
        av = M[ee] @ sol.a[el] + B[ee] @ sol.v[el]
        F = av + K[ee] @ sol.d[el]
        ds[el] = euf * suf * np.linalg.solve(K[ee], F)
        dd[el] = -euf * duf * np.linalg.solve(K[ee], av)
        ds[rfl] = euf * suf * sol.d[rfl]
        scale = 1 + max(abs(x).max() for x in (ref_a, ref_v, ds, dd))
        for nm, got, want in (("a", so.a, ref_a), ("v", so.v, ref_v), ("d_static", so.d_static, ds), ("d_dynamic", so.d_dynamic, dd),
                              ("d", so.d, ds + dd), ("pg", so.pg, suf * sol.pg)):
            e = abs(got - want).max()
            if e > 1e-9 * scale:
                problems.append("uf=%s: %s differs from the documented rule by %.3e" % (u, nm, e))
        for other, nm in ((sh, "shared cache"), (shared_rev[ui], "shared cache reversed order")):
            for fld in ("a", "v", "d", "d_static", "d_dynamic"):
                e = abs(getattr(other, fld) - getattr(so, fld)).max()
                if e > 1e-9 * scale:
                    problems.append("uf=%s: %s with %s differs from fresh-cache result by %.3e" % (u, fld, nm, e))
    return (True, "apply_uf(%s): %s" % (kind, "; ".join(problems[:3]))) if problems else (False, "apply_uf ok")


def replay_frfuf(p):
    import pyyeti.cla.dr_event as de
    n, nt = p["args"]
    mdl = p["model"]
    g = lambda nm: float(mdl.get(nm, 0) or 0)
    arr = lambda nm, r: np.array([[g("%s_%d_%d" % (nm, i, j)) for j in range(nt)] for i in range(r)])
    uf = tuple(g(nm) for nm in ("ruf", "euf", "duf", "suf"))
    sol = SimpleNamespace(a=arr("a", n), v=arr("v", n), d=arr("d", n), pg=arr("pg", 2))
    out = de.DR_Event.frf_apply_uf(SimpleNamespace(UF_reds=[uf]), sol, 2)[uf]
    problems = []
    for nm in "avd":
        want = getattr(sol, nm).copy()
        want[:2] *= uf[0] * uf[3]
        want[2:] *= uf[1] * uf[2]
        if abs(getattr(out, nm) - want).max() > 1e-9 * (1 + abs(want).max()):
            problems.append("%s not scaled as documented" % nm)
    if abs(out.pg - uf[3] * sol.pg).max() > 1e-9:
        problems.append("pg not scaled by suf")
    return (True, "frf_apply_uf uf=%s: %s" % (uf, "; ".join(problems))) if problems else (False, "frf_apply_uf ok")


REPLAY = {"extrema": replay_extrema, "maxmin": replay_maxmin, "uf": replay_uf, "frfuf": replay_frfuf}


def jobs(tier, seed):
    q = tier == "quick"
    out = []
    shapes = [(1, 3), (2, 2)] if q else [(1, 3), (2, 2), (2, 3), (1, 4)]
    for R, NC in shapes:
        for cols in (1, 2):
            for with_x in (False, True):
                big = (R * NC * cols) >= 8
                if big:
                    out.append(H.Job("extrema-%dx%d-c%d-x%d-split" % (R, NC, cols, with_x), job, "extrema", R, NC, cols, with_x,
                                     split_depth=8, weight=50))
                else:
                    out.append(H.Job("extrema-%dx%d-c%d-x%d" % (R, NC, cols, with_x), job, "extrema", R, NC, cols, with_x, weight=10))
    out.append(H.Job("maxmin-2x3", job, "maxmin", 2, 3, weight=5))
    if not q:
        out.append(H.Job("maxmin-2x4", job, "maxmin", 2, 4, split_depth=8, weight=20))
    n = 4 if q else 5
    for kind in ("diag", "diag-mNone", "diag-norf", "diag-rfmid"):
        out.append(H.Job("uf-%s" % kind, job, "uf", kind, n, 2, True, weight=5))
    for kind in ("full", "full-norf", "diag", "full-rfmid"):
        out.append(H.Job("uf-%s-concrete" % kind, job, "uf", kind, n, 2, False, weight=5))
    out.append(H.Job("frfuf", job, "frfuf", 4, 2, weight=1))
    return out


def extra_coverage(results):
    import pyyeti.cla.dr_event as de
    fns = list(_cla()["_ids"]) + [H.fn_id(de.apply_uf), H.fn_id(de._pre_calcs), H.fn_id(de.DR_Event.frf_apply_uf)]
    return dict(functions_encoded=fns)
