"""C13 - bulk-data writers and their readers are mutual inverses (id-list cards
with THRU compression, wrapped integer lists, case-control SETs, TABLED1)."""
import math
from fractions import Fraction

import numpy as np
import z3

from vsym import sym as S
from vsym import engine as E
from vsym import harness as H
from vsym import astload
from vsym import symstr as X
from vsym.npproxy import NPProxy, rebind

PID = "C13"

META = dict(
    level="other",
    stubs=["wtdmig: np.allclose -> its documented contract, decided where clear-cut (see assumptions); numbers format as a placeholder",
           "file object -> chunk collector / list of symbolic lines", "float/int/str/range/re of bulk.py and writer.py shadowed by symbolic-aware versions "
           "(regex: matched on the text with every symbolic digit replaced by a placeholder digit; only digit-agnostic patterns are accepted)",
           "CPython float formatting -> exact scaled-integer rounding into symbolic digits (validated in C12)",
           "np.array/np.empty/astype on symbolic values -> object arrays (AST hook astype)"],
    outside=["rddmig (pandas index machinery) and the number fields of wtdmig (placeholders: only the form decision and the entry selection are claimed)", "wtgrids/rdgrids, rdcord2cards' build_coords step, uset2bulk/bulk2uset (DataFrame-based; their number fields are C12's subject); CORD2x cards are read back with rdcards (ids symbolic, A/B/C concrete)",
             "INCLUDE handling"],
    assumptions=["ids are 3-digit integers in [100, 899] (digit count does not fork); list lengths bounded as stated",
                 "wtdmig: |entries| <= 10; np.allclose on complex entries is decided for identical entries (close) and for entries at least 0.01 apart in the 1-norm (not close); complex matrices with a pair of entries in between are not explored"],
    reach_required=["dmig-form1", "dmig-form6", "cord2", "thru-run", "singleton", "line-wrap", "set-wrap", "tabled1-partial-line", "tabled1-short", "nasints-continuation"],
    trusted_base=["z3 5.1", "CPython 3.12", "digit-string model of float formatting (see C12)"],
)


class NPI(NPProxy):
    """also integer allocations become object arrays while symbolic values are around"""

    def _alloc(self, fill, shape, dtype, order="C"):
        if self.sym:
            a = np.empty(shape, dtype=object, order=order)
            a.fill(0 if fill == 0.0 else fill)
            return a
        return None


_L = {}


def loaded():
    if _L:
        return _L["g"]
    import pyyeti.nastran.bulk as b
    import pyyeti.writer as w
    gw = dict(w.__dict__)
    gw.update(X.HOOKS)
    gw.update(X.SHADOWS)
    for nm in ("getith", "_vecwrite", "vecwrite"):
        f = getattr(w, nm)
        astload.load(getattr(f, "__wrapped__", f), hooks=("fstring", "format", "mod"), globs=gw)

    class _W:
        pass
    wns = _W()
    wns.vecwrite = gw["vecwrite"]
    g = dict(b.__dict__)
    g.update(X.HOOKS)
    g.update(X.SHADOWS)
    g.update(X.SHADOWS_RE)
    g["np"] = NPI()
    g["writer"] = wns
    for nm in ("nas_sscanf", "_proc_line", "_rdfixed", "_rdcomma", "_next_line", "_handle_comments", "_find_sequence", "_wt_with_thru",
               "wtnasints", "_rd_set_line", "_rdset", "_wrap_text_lines", "format_float8", "_format_scientific8"):
        astload.load(getattr(b, nm), hooks=("fstring", "format", "mod", "astype", "join"), globs=g)
    for nm in ("wtcard8", "rdcards", "wtspoints", "rdspoints", "wtxset1", "wtspc1", "wtcsuper", "wtextrn", "rdcsupers", "rdextrn",
               "wtset", "rdsets", "wttabled1", "rdtabled1"):
        f = getattr(b, nm)
        astload.load(getattr(f, "__wrapped__", f), hooks=("fstring", "format", "mod", "astype", "join"), globs=g)
    _L["g"] = g
    return g


class _Sink:
    def __init__(self):
        self.cells = []

    def write(self, s):
        self.cells += X._cells(s)

    def lines(self):
        out, cur = [], []
        for c in self.cells:
            cur.append(c)
            if c == "\n":
                out.append(X.mk(cur))
                cur = []
        if cur:
            out.append(X.mk(cur))
        return out


class _Lines:
    def __init__(self, lines):
        self._l = list(lines)

    def seek(self, *a):
        return 0

    def __iter__(self):
        return iter(self._l)


def _ids(eng, n, lo=100, hi=899):
    out = []
    for i in range(n):
        v = z3.Int("id%d" % i)
        eng.assume(z3.And(v >= lo, v <= hi))
        out.append(X.SymInt(v, hint=2))
    return out


def _eqlist(got, want, what, info):
    obls = [E.Obl("%s: %d ids read back, %d written" % (what, len(got), len(want)), len(got) == len(want), info=info)]
    for k, (a, b) in enumerate(zip(got, want)):
        if isinstance(a, S.SymR) and isinstance(b, S.SymR):
            obls.append(E.Obl("%s: id %d read back as written" % (what, k), a.e == b.e, info=info))
        else:
            obls.append(E.Obl("%s: id %d read back as written (%r vs %r)" % (what, k, a, b), (not isinstance(a, S.SymR)) and (not isinstance(b, S.SymR)) and a == b, info=info))
    return obls


def _line_obls(lines, what, info, eng, maxlen=80):
    obls = []
    for ln in lines:
        n = len(X._cells(ln)) - (1 if X._cells(ln) and X._cells(ln)[-1] == "\n" else 0)
        obls.append(E.Obl("%s: line of %d columns <= %d" % (what, n, maxlen), n <= maxlen, info=info))
    return obls


def expand_thru_fields(cards):
    """independent THRU semantics on field lists ['NAME', (dof,) a, 'THRU', b, c, ...]"""
    out = []
    for fields in cards:
        k = 0
        while k < len(fields):
            if k + 2 < len(fields) and isinstance(fields[k + 1], str) and not isinstance(fields[k + 1], X.SymStr) and fields[k + 1].upper() == "THRU":
                a, b = fields[k], fields[k + 2]
                n = S.eng().fork_int(z3.simplify(b.e - a.e), cap=4096)
                out.extend([a] + [a + j for j in range(1, n + 1)])
                k += 3
            else:
                out.append(fields[k])
                k += 1
    return out


def _guard(info):
    """exceptions raised by the code under test become a failed obligation (the
    replay on the real code decides whether it is a violation)"""
    def deco(fn):
        def wrapped(eng):
            try:
                return fn(eng)
            except (X.Unsupported, E.Inconclusive):
                raise
            except Exception as ex:
                import traceback
                d = dict(info)
                d.update(getattr(eng, "_c13_info", {}))
                return [E.Obl("round trip raises %r (%s)" % (ex, traceback.format_exc()[-300:]), False, info=d)]
        return wrapped
    return deco


def thru_fn(which, L):
    """which in spoint / xset1; ids: arbitrary 3-digit integers (runs decided by forks)"""
    @_guard(dict(which=which, L=L))
    def fn(eng):
        S.set_engine(eng)
        g = loaded()
        ids = _ids(eng, L)
        sink = _Sink()
        info = dict(which=which, L=L)
        if which == "spoint":
            g["wtspoints"](sink, ids)
        else:
            g["wtxset1"](sink, 123456, ids, "BSET1")
        lines = sink.lines()
        obls = _line_obls(lines, which, info, eng, 72)
        if len(lines) > 1:
            eng.tag("line-wrap")
        if which == "spoint":
            back = g["rdspoints"](_Lines(lines))
            got = list(back)
        else:
            cards = g["rdcards"](_Lines(lines), "BSET1", return_var="list")
            for c in cards:
                obls.append(E.Obl("xset1: dof field kept", (not isinstance(c[0], S.SymR)) and c[0] == 123456, info=info))
                obls.append(E.Obl("xset1: card has <= 8 fields after the name", len(c) <= 8, info=info))
            got = expand_thru_fields([c[1:] for c in cards])
        txt = "".join(l if not isinstance(l, X.SymStr) else l.render() for l in lines)
        if "THRU" in txt:
            eng.tag("thru-run")
        else:
            eng.tag("singleton")
        obls += _eqlist(got, ids, which, info)
        return obls
    return fn


def nasints_fn(which, nmax):
    @_guard(dict(which=which))
    def fn(eng):
        S.set_engine(eng)
        g = loaded()
        n = eng.fork_int(z3.Int("n"), 1, nmax)
        eng._c13_info = dict(n=n)
        ids = _ids(eng, n)
        sink = _Sink()
        info = dict(which=which, n=n)
        if which == "csuper":
            g["wtcsuper"](sink, 77, ids)
        elif which == "spc1":
            g["wtspc1"](sink, 5, 123, ids)
        else:
            dof = [None] * n
            for k in range(n):
                dof[k] = X.SymInt(z3.Int("dof%d" % k), hint=0)
                eng.assume(z3.And(dof[k].e >= 0, dof[k].e <= 6))
            g["wtextrn"](sink, ids, dof)
        lines = sink.lines()
        obls = _line_obls(lines, which, info, eng, 72)
        if len(lines) > 1:
            eng.tag("nasints-continuation")
        if which == "csuper":
            d = g["rdcsupers"](_Lines(lines))
            obls.append(E.Obl("csuper: one card read", d is not None and len(d) == 1, info=info))
            got = list(list(d.values())[0]) if d else []
            want = [77, 0] + ids
        elif which == "spc1":
            cards = g["rdcards"](_Lines(lines), "SPC1", return_var="list")
            got = list(cards[0]) if cards else []
            want = [5, 123] + ids
        else:
            arr = g["rdextrn"](_Lines(lines), expand=False)
            got = list(arr.ravel())
            want = []
            for a, b in zip(ids, dof):
                want += [a, b]
        obls += _eqlist(got, want, which, info)
        return obls
    return fn


def set_fn(L, max_length):
    @_guard(dict(which="set", L=L, max_length=max_length))
    def fn(eng):
        S.set_engine(eng)
        g = loaded()
        ids = _ids(eng, L)
        sink = _Sink()
        info = dict(which="set", L=L, max_length=max_length)
        g["wtset"](sink, 42, ids, max_length)
        lines = sink.lines()
        # wtset does not end with a newline; give every line one for the reader
        lines = [l if X._cells(l)[-1] == "\n" else X.mk(X._cells(l) + ["\n"]) for l in lines]
        obls = _line_obls(lines, "set", info, eng, max_length)
        if len(lines) > 1:
            eng.tag("set-wrap")
        d = g["rdsets"](_Lines(lines))
        obls.append(E.Obl("set: exactly set 42 read", list(d.keys()) == [42], info=info))
        got = list(d.get(42, []))
        txt = "".join(l if not isinstance(l, X.SymStr) else l.render() for l in lines)
        eng.tag("thru-run" if "THRU" in txt else "singleton")
        obls += _eqlist(got, ids, "set", info)
        return obls
    return fn


FORMS = {"small": ("{:8.2f}{:8.5f}", 2, 5), "large": ("{:16.9E}{:16.9E}", None, None)}


def tabled1_fn(form_key, nmax):
    form, pt, pd = FORMS[form_key]

    @_guard(dict(which="tabled1", form=form_key))
    def fn(eng):
        S.set_engine(eng)
        g = loaded()
        n = eng.fork_int(z3.Int("n"), 1, nmax)
        eng._c13_info = dict(n=n)
        info = dict(which="tabled1", form=form_key, n=n)
        t = np.empty(n, dtype=object)
        d = np.empty(n, dtype=object)
        for k in range(n):
            a, b = z3.Real("t%d" % k), z3.Real("d%d" % k)
            if form_key == "small":
                eng.assume(z3.And(a >= 10, a <= 99, b >= -9, b <= 9))
                t[k], d[k] = X.SymFloat(a, hint=1), X.SymFloat(b, hint=0)
            else:
                eng.assume(z3.And(a >= 1, a < 10, b >= 1, b < 10))
                t[k] = X.SymFloat(a * z3.RealVal(Fraction(10) ** (k - 3)), hint=k - 3)
                d[k] = X.SymFloat(-b * z3.RealVal(Fraction(10) ** (2 * k)), hint=2 * k)
        sink = _Sink()
        g["wttabled1"](sink, 4000, t, d, None, form)
        lines = sink.lines()
        per = 4 if form_key == "small" else 2
        if n % per:
            eng.tag("tabled1-partial-line")
        if n < per:
            eng.tag("tabled1-short")
        obls = _line_obls(lines, "tabled1", info, eng, 76)
        dct = g["rdtabled1"](_Lines(lines))
        ok = dct is not None and list(dct.keys()) == [4000]
        obls.append(E.Obl("tabled1: table 4000 read back", ok, info=info))
        if not ok:
            return obls
        tab = dct[4000]
        obls.append(E.Obl("tabled1: %s rows read, %d written" % (tab.shape, n), tuple(tab.shape) == (n, 2), info=info))
        if tuple(tab.shape) != (n, 2):
            return obls
        for k in range(n):
            for col, (x, P) in enumerate(((t[k], pt), (d[k], pd))):
                r = tab[k, col]
                rt = S.lift(r)
                if P is not None:
                    tol = z3.RealVal(Fraction(505, 1000) * Fraction(10) ** (-P))
                    cond = z3.And(rt - x.e <= tol, x.e - rt <= tol)
                else:
                    ax = z3.If(x.e >= 0, x.e, -x.e)
                    tol = ax * z3.RealVal(Fraction(505, 1000) * Fraction(10) ** (-9))
                    cond = z3.And(rt - x.e <= tol, x.e - rt <= tol)
                obls.append(E.Obl("tabled1: row %d col %d read back to the written precision" % (k, col), cond, info=info))
        return obls
    return fn


# ---------------------------------------------------------------------------
# replays on the real code

def _mdl_ids(mdl, n, base="id", default=100):
    return [int(mdl.get("%s%d" % (base, i), default) or default) for i in range(n)]


def replay_ids(p):
    import io
    import pyyeti.nastran.bulk as b
    which, mdl = p["which"], p["model"]
    n = p.get("L") or p.get("n") or int(mdl.get("n", 1))
    ids = _mdl_ids(mdl, n)
    f = io.StringIO()
    try:
        if which == "spoint":
            b.wtspoints(f, ids)
            got = list(b.rdspoints(io.StringIO(f.getvalue())))
            want = ids
        elif which == "xset1":
            b.wtxset1(f, 123456, ids, "BSET1")
            cards = b.rdcards(io.StringIO(f.getvalue()), "BSET1", return_var="list")
            got = []
            for c in cards:
                c = c[1:]
                k = 0
                while k < len(c):
                    if k + 2 < len(c) and str(c[k + 1]).upper() == "THRU":
                        got += list(range(c[k], c[k + 2] + 1))
                        k += 3
                    else:
                        got.append(c[k])
                        k += 1
            want = ids
        elif which == "csuper":
            b.wtcsuper(f, 77, ids)
            got = list(list(b.rdcsupers(io.StringIO(f.getvalue())).values())[0])
            want = [77, 0] + ids
        elif which == "spc1":
            b.wtspc1(f, 5, 123, ids)
            got = list(b.rdcards(io.StringIO(f.getvalue()), "SPC1", return_var="list")[0])
            want = [5, 123] + ids
        elif which == "extrn":
            dof = _mdl_ids(mdl, n, "dof", 0)
            b.wtextrn(f, ids, dof)
            got = list(b.rdextrn(io.StringIO(f.getvalue()), expand=False).ravel())
            want = [x for pr in zip(ids, dof) for x in pr]
        elif which == "set":
            b.wtset(f, 42, ids, p.get("max_length", 72))
            d = b.rdsets(io.StringIO(f.getvalue() + "\n"))
            got = list(d.get(42, [])) if list(d.keys()) == [42] else None
            want = ids
            if any(len(l) > p.get("max_length", 72) for l in f.getvalue().splitlines()):
                return True, "wtset(%r, max_length=%s) wrote an over-long line: %r" % (ids, p.get("max_length"), f.getvalue())
        else:
            return False, "unknown kernel %s" % which
    except Exception as ex:
        return True, "%s round trip of %r raises %r" % (which, ids, ex)
    text = f.getvalue()
    if got is None or [int(x) for x in got] != [int(x) for x in want]:
        return True, "%s: wrote %r for ids %r, read back %r (expected %r)" % (which, text, ids, got, want)
    if any(len(l) > 72 for l in text.splitlines()) and which != "set":
        return True, "%s: line longer than 72 columns in %r" % (which, text)
    return False, "%s round trip fine for %r" % (which, ids)


def replay_tabled1(p):
    import io
    import pyyeti.nastran.bulk as b
    mdl, form_key = p["model"], p["form"]
    n = int(p.get("n") or mdl.get("n", 1))
    form, pt, pd = FORMS[form_key]
    t, d = [], []
    for k in range(n):
        a = float(Fraction(mdl.get("t%d" % k, 1) or 0))
        bb = float(Fraction(mdl.get("d%d" % k, 1) or 0))
        if form_key == "small":
            t.append(a)
            d.append(bb)
        else:
            t.append(a * 10.0 ** (k - 3))
            d.append(-bb * 10.0 ** (2 * k))
    f = io.StringIO()
    try:
        b.wttabled1(f, 4000, t, d, None, form)
        dct = b.rdtabled1(io.StringIO(f.getvalue()))
        tab = dct[4000]
    except Exception as ex:
        return True, "wttabled1/rdtabled1 with %d points (%s) raises %r" % (n, form_key, ex)
    if tab.shape != (n, 2):
        return True, "tabled1 with %d points read back with shape %s: %r" % (n, tab.shape, f.getvalue())
    for k in range(n):
        for col, (x, P) in enumerate(((t[k], pt), (d[k], pd))):
            tol = 0.505 * 10.0 ** (-P) if P is not None else abs(x) * 0.505e-9
            if abs(tab[k, col] - x) > tol * (1 + 1e-9) + 1e-300:
                return True, "tabled1 row %d col %d: wrote %r read %r" % (k, col, x, tab[k, col])
    return False, "tabled1 round trip fine"


# ---------------------------------------------------------------------------
# CORD2x cards: wtcoordcards -> rdcards; the coordinate-system id and its reference id are symbolic

class _DArr(np.ndarray):
    """object array whose comparisons give NumPy boolean masks"""

    def _cmp(self, o, f):
        a = np.asarray(self)
        ob = np.broadcast_to(np.asarray(o, dtype=object), a.shape)
        out = np.zeros(a.shape, bool)
        for idx in np.ndindex(*a.shape):
            out[idx] = bool(f(a[idx], ob[idx]))
        return out

    def __lt__(self, o):
        return self._cmp(o, lambda x, y: x < y)

    def __gt__(self, o):
        return self._cmp(o, lambda x, y: x > y)


CORD_ABC = {"CORD2R": [[1.5, -2.25, 0.0], [1.5, -2.25, 10.0], [4.0, 0.5, 1e-30]],
            "CORD2C": [[0.0, 0.0, 0.0], [0.0, 0.0, 1.0], [1.0, 0.0, 0.0]],
            "CORD2S": [[-2.0e6, 12.5, 1.25e-4], [2.0, 2.0, 2.0], [0.125, -8.0, 1.0e3]]}   # 10 decades between the largest and the smallest component: both fit the field


def coord_fn(name):
    @_guard(dict(which="coord", name=name))
    def fn(eng):
        S.set_engine(eng)
        g = loaded()
        import pyyeti.nastran.bulk as b
        if "wtcoordcards" not in _L.setdefault("extra", set()):
            astload.load(getattr(b.wtcoordcards, "__wrapped__", b.wtcoordcards), hooks=("fstring", "format", "mod", "astype", "join"), globs=g)
            _L["extra"].add("wtcoordcards")
        cid, rid = z3.Int("cid"), z3.Int("rid")
        eng.assume(z3.And(cid >= 100, cid <= 899, rid >= 100, rid <= 899))
        info = dict(which="coord", name=name)
        abc = CORD_ABC[name]
        coord = np.empty((4, 3), dtype=object)
        coord[0] = [X.SymInt(cid, hint=2), float(["CORD2R", "CORD2C", "CORD2S"].index(name) + 1), X.SymInt(rid, hint=2)]
        coord[1:] = abc
        sink = _Sink()
        g["wtcoordcards"](sink, {X.SymInt(cid, hint=2): [name, coord.view(_DArr)]})
        lines = sink.lines()
        eng.tag("cord2")
        obls = _line_obls(lines, "cord2", info, eng, 80)
        cards = g["rdcards"](_Lines(lines), name.lower(), return_var="list", keep_name=True, blank=0)
        ok = cards is not None and len(cards) == 1 and len(cards[0]) == 12
        obls.append(E.Obl("%s: one card of 12 fields read back (%s)" % (name, None if cards is None else [len(c) for c in cards]), ok, info=info))
        if not ok:
            return obls
        c = cards[0]
        obls.append(E.Obl("%s: card name" % name, str(c[0]).rstrip("*") == name, info=info))
        obls.append(E.Obl("%s: coordinate system id read back as written" % name, S.lift(c[1]) == cid if isinstance(c[1], S.SymR) else False, info=info))
        obls.append(E.Obl("%s: reference system id read back as written" % name, S.lift(c[2]) == rid if isinstance(c[2], S.SymR) else z3.IntVal(int(c[2])) == rid, info=info))
        flat = [v for row in abc for v in row]
        big = max(abs(v) for v in flat)
        for k, (got, want) in enumerate(zip(c[3:], flat)):
            good = (not isinstance(got, S.SymR)) and (abs(float(got) - want) <= 1e-8 * abs(want) or (abs(want) < big * 1e-15 and float(got) == 0.0))
            obls.append(E.Obl("%s: %s[%d] read back to the 9 digits written (%r vs %r)" % (name, "ABC"[k // 3], k % 3, got, want), good, info=info))
        return obls
    return fn


def replay_coord(p):
    import io
    import pyyeti.nastran.bulk as b
    mdl = p["model"]
    cid = int(mdl.get("cid", 101) or 101)
    rid = int(mdl.get("rid", 202) or 202)
    name = p["name"]
    coord = np.vstack(([cid, ["CORD2R", "CORD2C", "CORD2S"].index(name) + 1, rid], CORD_ABC[name]))
    f = io.StringIO()
    b.wtcoordcards(f, {cid: [name, coord]})
    cards = b.rdcards(io.StringIO(f.getvalue()), name.lower(), return_var="list", keep_name=True, blank=0)
    if not cards or len(cards[0]) != 12 or cards[0][1] != cid or cards[0][2] != rid:
        return True, "wtcoordcards(%s %d referring to system %d) is read back by rdcards as %s" % (name, cid, rid, cards[0][:3] if cards else cards)
    flat = [v for row in CORD_ABC[name] for v in row]
    big = max(abs(v) for v in flat)
    for k, (got, want) in enumerate(zip(cards[0][3:], flat)):
        if not (abs(float(got) - want) <= 1e-8 * abs(want) or (abs(want) < big * 1e-15 and float(got) == 0.0)):
            return True, "wtcoordcards(%s, points %s): %s[%d] = %r is read back by rdcards as %r" % (name, CORD_ABC[name], "ABC"[k // 3], k % 3, want, got)
    return False, "CORD2x card fine on the real code"


# ---------------------------------------------------------------------------
# wtdmig: the symmetric half storage (form 6) is chosen only for matrices that equal their transpose

class _FR(S.SymR):
    __slots__ = ()

    def __format__(s, spec):
        return format(1.0, spec)

    __hash__ = S.SymR.__hash__


class _FC(S.SymC):
    """complex symbolic entry whose parts format as a placeholder number (the number field is C12's subject)"""
    __slots__ = ()

    @property
    def real(s):
        return _FR(s.re)

    @property
    def imag(s):
        return _FR(s.im)

    def conjugate(s):
        return _FC(s.re, -s.im)

    conj = conjugate
    __hash__ = S.SymC.__hash__


class NPD(NPProxy):
    def allclose(self, a, b, rtol=1e-05, atol=1e-08, equal_nan=False):
        """numpy's contract: all(|a - b| <= atol + rtol |b|)"""
        eng = S.eng()
        a, b = np.asarray(a, dtype=object), np.asarray(b, dtype=object)
        ok = True
        for x, y in zip(a.ravel(), b.ravel()):
            d = x - y
            if not isinstance(d, S.SymC):
                if S.is_sym(d):
                    ok = ok and bool(abs(d) <= atol + rtol * abs(y))
                else:
                    ok = ok and abs(d) <= atol + rtol * abs(y)
                continue
            # decided where it is clear-cut: identical entries are close; entries at least 0.01 apart (1-norm; the tolerance is
            # below 2.1e-4 for |entries| <= 10) are not; the band in between is dropped from the exploration (see assumptions)
            ab = lambda e: z3.If(e >= 0, e, -e)
            if eng.decide(z3.And(d.re == 0, d.im == 0)):
                continue
            if eng.decide(ab(d.re) + ab(d.im) >= z3.RealVal("0.01")):
                ok = False
                continue
            raise E.PathAbort()
        return ok

    def iscomplexobj(self, a):
        if isinstance(a, np.ndarray) and a.dtype == object:
            return any(isinstance(v, S.SymC) for v in a.ravel())
        return np.iscomplexobj(a)


def dmig_fn(n, cplx):
    def fn(eng):
        S.set_engine(eng)
        import pandas as pd
        import pyyeti.nastran.bulk as b
        f = rebind([getattr(b.wtdmig, "__wrapped__", b.wtdmig)], dict(np=NPD()))["wtdmig"]
        info = dict(which="dmig", n=n, cplx=cplx)
        M = np.empty((n, n), dtype=object)
        Z = {}
        for i in range(n):
            for j in range(n):
                re, im = z3.Real("re%d_%d" % (i, j)), z3.Real("im%d_%d" % (i, j))
                eng.assume(z3.And(re >= -10, re <= 10, im >= -10, im <= 10))
                # parts are exactly zero or at least 1/100 in magnitude: below np.allclose's absolute tolerance (1e-8) every
                # matrix counts as symmetric and the replay cannot tell a dropped entry from rounding
                for part in (re, im):
                    eng.assume(z3.Or(part == 0, part >= z3.RealVal("0.01"), part <= z3.RealVal("-0.01")))
                if not cplx:
                    eng.assume(im == 0)
                M[i, j] = _FC(re, im) if cplx else _FR(re)
                Z[(i, j)] = (re, im)
        ids = pd.MultiIndex.from_tuples([(10 + i, 1 + (i % 3)) for i in range(n)])
        df = pd.DataFrame(M, index=ids, columns=ids)
        sink = _Sink()
        try:
            f(sink, {"kaa": df})
        except E.Inconclusive:
            raise
        except Exception as ex:
            import traceback
            return [E.Obl("wtdmig raises %r (%s)" % (ex, traceback.format_exc()[-300:]), False, info=info)]
        lines = ["".join(str(c) for c in X._cells(l)) if isinstance(l, X.SymStr) else str(l) for l in sink.lines()]
        form = int(lines[0][24:32])
        eng.tag("dmig-form%d" % form)
        obls = [E.Obl("wtdmig: square matrix is written as form 1 or 6 (%d)" % form, form in (1, 6), info=info)]
        rt, at = z3.RealVal(Fraction(1e-05)), z3.RealVal(Fraction(1e-08))
        if form == 6:
            for i in range(n):
                for j in range(i):
                    (a, b_), (c, d) = Z[(i, j)], Z[(j, i)]
                    ab = lambda e: z3.If(e >= 0, e, -e)
                    lim = at + rt * (ab(a) + ab(b_))          # >= atol + rtol |m[i,j]|
                    obls.append(E.Obl("wtdmig: symmetric half storage (form 6) only when m[%d,%d] equals m[%d,%d] (to allclose's tolerance): "
                                      "the reader mirrors the stored triangle" % (j, i, i, j), (a - c) * (a - c) + (b_ - d) * (b_ - d) <= lim * lim, info=info))
        # which entries were written
        written = set()
        col = None
        gid = {10 + i: i for i in range(n)}
        for ln in lines[1:]:
            if ln.startswith("DMIG*"):
                col = gid[int(ln[24:40])]
            elif ln.startswith("*"):
                written.add((gid[int(ln[8:24])], col))
        for i in range(n):
            for j in range(n):
                if form == 6 and i < j:
                    obls.append(E.Obl("wtdmig form 6: upper-triangle entry (%d,%d) is not written" % (i, j), (i, j) not in written, info=info))
                    continue
                nz = z3.Or(Z[(i, j)][0] != 0, Z[(i, j)][1] != 0)
                obls.append(E.Obl("wtdmig: entry (%d,%d) is written iff it is non-zero" % (i, j), nz if (i, j) in written else z3.Not(nz), info=info))
        return obls
    return fn


def replay_dmig(p):
    import io
    import pandas as pd
    import pyyeti.nastran.bulk as b
    n, mdl = p["n"], p["model"]
    g = lambda k: float(Fraction(mdl.get(k, 0) or 0))
    M = np.array([[complex(g("re%d_%d" % (i, j)), g("im%d_%d" % (i, j))) for j in range(n)] for i in range(n)])
    if not p["cplx"]:
        M = M.real
    ids = pd.MultiIndex.from_tuples([(10 + i, 1 + (i % 3)) for i in range(n)])
    f = io.StringIO()
    b.wtdmig(f, {"kaa": pd.DataFrame(M, index=ids, columns=ids)})
    back = b.rddmig(io.StringIO(f.getvalue()))["kaa"].reindex(index=ids, columns=ids).fillna(0).values
    if back.shape != M.shape or not np.allclose(back, M, rtol=1e-4, atol=1e-7):
        return True, "wtdmig/rddmig of %s gives %s" % (M.tolist(), np.asarray(back).tolist())
    return False, "DMIG round trip fine on the real code"


REPLAY = {"dmig": replay_dmig, "ids": replay_ids, "tabled1": replay_tabled1, "coord": replay_coord}


def job(kind, *args, split_depth=None, roots=None):
    eng = E.Engine()
    eng.fast_ms = 300
    if kind == "thru":
        fn = thru_fn(*args)
        which = args[0]
    elif kind == "nasints":
        fn = nasints_fn(*args)
        which = args[0]
    elif kind == "set":
        fn = set_fn(*args)
        which = "set"
    elif kind == "coord":
        fn = coord_fn(*args)
        which = "coord"
    elif kind == "dmig":
        fn = dmig_fn(*args)
        which = "dmig"
    else:
        fn = tabled1_fn(*args)
        which = "tabled1"
    res = eng.explore(fn, max_cex=3, roots=roots, split_depth=split_depth)
    res["note"] = "%s %s" % (kind, args)
    if split_depth is not None and res["roots"]:
        rs = res.pop("roots")
        res["spawn"] = [("%s-%s-sub%d" % (kind, args, i), job, (kind,) + tuple(args), dict(roots=rs[i::16])) for i in range(16) if rs[i::16]]
    res["roots"] = []

    def payload(c):
        info = (c.get("info") or [{}])[0]
        d = dict(info)
        d["model"] = c["model"]
        return d
    rk = which if which in ("tabled1", "coord", "dmig") else "ids"
    H.triage(res, rk, REPLAY[rk], payload)
    return res


def jobs(tier, seed):
    q = tier == "quick"
    out = []
    for which in ("spoint", "xset1"):
        for L in range(1, (9 if q else 12) + 1):
            out.append(H.Job("thru-%s-%d" % (which, L), job, "thru", which, L, split_depth=6 if L > 9 else None, weight=2 ** L))
    for which in ("csuper", "spc1", "extrn"):
        out.append(H.Job("nasints-%s" % which, job, "nasints", which, 20 if q else 40, weight=50))
    for L, ml in ((4, 72), (6, 30), (7, 24)) if q else ((4, 72), (6, 30), (7, 24), (9, 40), (10, 72), (8, 20)):
        out.append(H.Job("set-%d-%d" % (L, ml), job, "set", L, ml, weight=2 ** L))
    for nm in CORD_ABC:
        out.append(H.Job("coord-%s" % nm, job, "coord", nm, weight=5))
    out.append(H.Job("dmig-2-complex", job, "dmig", 2, True, weight=20))
    out.append(H.Job("dmig-2-real", job, "dmig", 2, False, weight=10))
    if not q:
        out.append(H.Job("dmig-3-real", job, "dmig", 3, False, split_depth=6, weight=100))
    out.append(H.Job("tabled1-small", job, "tabled1", "small", 6 if q else 9, weight=200))
    out.append(H.Job("tabled1-large", job, "tabled1", "large", 4 if q else 7, weight=200))
    return out


def extra_coverage(results):
    import pyyeti.nastran.bulk as b
    import pyyeti.writer as w
    fns = [b._find_sequence, b._wt_with_thru, b.wtspoints, b.rdspoints, b.wtxset1, b.wtspc1, b.wtnasints, b.wtcsuper, b.rdcsupers, b.wtextrn, b.rdextrn,
           b.wtset, b._wrap_text_lines, b.rdsets, b._rdset, b._rd_set_line, b.wttabled1, b.rdtabled1, b.wtcoordcards, b.wtdmig, b.rdcards, b._rdfixed, b.wtcard8, w.vecwrite, w._vecwrite]
    return dict(functions_encoded=[H.fn_id(getattr(f, "__wrapped__", f)) for f in fns],
                ast_hook_hits={"%s:%s" % k: v for k, v in astload.HITS.items()})
