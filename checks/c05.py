"""C05 - rainflow: compiled C == pure Python == ASTM E1049-85, for every
sequence of L reversal points (L bounded), decided by path exploration + z3.

Encoded from the working tree on every run:
  * pyyeti/rainflow/py_rain.py  _rainflow1/_rainflow2 (code objects, np proxied)
  * pyyeti/rainflow/c_rain.c    rainflow1/rainflow2 as clang -O0 LLVM IR, both
    preprocessor variants (USE_FASTER_RAINFLOW_ROUTINE defined / not defined)
Reference: ASTM E1049-85 5.4.4 rules transcribed below from the standard.
"""
import itertools
import os
import sys
import time
import types
from fractions import Fraction

import numpy as np
import z3

from vsym import sym as S
from vsym import engine as E
from vsym import harness as H
from vsym import llvmir, cbuild
from vsym.npproxy import NPProxy, rebind

PID = "C05"

META = dict(
    level="other",
    functions=[],  # filled at import of the repo modules (job side)
    stubs=["np.empty -> dtype=object array (py_rain)",
           "C: calloc/free/fabs/PyArray_DATA/PyArray_New(API[93])/PyLong_FromSsize_t/PySlice_New/"
           "PyObject_GetItem([:stop])/Py_BuildValue/_Py_Dealloc modelled in vsym/llvmir.py"],
    bounds=dict(quick="L = 2..10 over reals (all 6 implementations + reference); L = 2..8 EUF (IEEE-agnostic C==Python); metamorphic L <= 8",
                thorough="L = 2..13 over reals; L = 2..10 EUF; metamorphic L <= 10"),
    outside=["numba-jitted definition (numba not installed; same source object)",
             "sequences longer than the bound", "NaN / infinite inputs"],
    assumptions=["reals model IEEE doubles for the ASTM comparison; the C==Python claim is also decided with "
                 "fsub/fabs/fadd/fhalf uninterpreted and only the order of finite values assumed",
                 "clang -O0 IR of c_rain.c has the semantics of the shipped build of the same source"],
    reach_required=["alternating", "full-cycle", "half-cycle-j2", "tie", "monotone", "remainder>=3", "repeated-value", "wrapper"],
    trusted_base=["z3 5.1", "clang-14 front end", "vsym/llvmir.py interpreter + extern models", "CPython 3.12"],
)


# ----------------------------------------------------------------------------
# ASTM E1049-85 section 5.4.4 (rainflow counting), rules 1-6, transcribed from
# the standard: X = range under consideration, Y = previous range adjacent to X,
# S = starting point in the history.
def astm(peaks, note=None):
    out = []
    stack = []                                   # (value, index) not yet counted
    for k, p in enumerate(peaks):                # (1) read next peak or valley
        stack.append((p, k))
        while len(stack) >= 3:                   # (2) fewer than three points -> (1)
            X = abs(stack[-1][0] - stack[-2][0])  # (3) compare |X| with |Y|
            Y = abs(stack[-2][0] - stack[-3][0])
            if X < Y:
                break
            if note is not None:
                note.append((X, Y))
            if len(stack) == 3:
                # (5) range Y contains the starting point S: half cycle;
                #     discard the first point of Y, move S to the second
                a, b = stack[0], stack[1]
                out.append((abs(a[0] - b[0]) / 2, (a[0] + b[0]) / 2, 0.5, a[1], b[1]))
                del stack[0]
            else:
                # (4) Y does not contain S: one cycle; discard both points of Y
                a, b = stack[-3], stack[-2]
                out.append((abs(a[0] - b[0]) / 2, (a[0] + b[0]) / 2, 1.0, a[1], b[1]))
                del stack[-3:-1]
    # (6) out of data: every remaining range is a half cycle
    for a, b in zip(stack[:-1], stack[1:]):
        out.append((abs(a[0] - b[0]) / 2, (a[0] + b[0]) / 2, 0.5, a[1], b[1]))
    return out, len(stack)


# ----------------------------------------------------------------------------
# IEEE-agnostic scalars: arithmetic is uninterpreted, only the order of the
# (finite) results is interpreted.
_R = z3.RealSort()
_fsub = z3.Function("fsub", _R, _R, _R)
_fadd = z3.Function("fadd", _R, _R, _R)
_fabs = z3.Function("fabs", _R, _R)
_fdiv = z3.Function("fdiv", _R, _R, _R)
_fmul = z3.Function("fmul", _R, _R, _R)


class SymU(S.SymR):
    __slots__ = ()

    def _t(s, o):
        if isinstance(o, np.ndarray) and o.shape != ():
            return None
        return S.lift(o)

    def __add__(s, o):
        t = s._t(o)
        return NotImplemented if t is None else SymU(_fadd(s.e, t))

    def __radd__(s, o):
        t = s._t(o)
        return NotImplemented if t is None else SymU(_fadd(t, s.e))

    def __sub__(s, o):
        t = s._t(o)
        return NotImplemented if t is None else SymU(_fsub(s.e, t))

    def __rsub__(s, o):
        t = s._t(o)
        return NotImplemented if t is None else SymU(_fsub(t, s.e))

    def __mul__(s, o):
        t = s._t(o)
        return NotImplemented if t is None else SymU(_fmul(s.e, t))

    def __truediv__(s, o):
        t = s._t(o)
        return NotImplemented if t is None else SymU(_fdiv(s.e, t))

    def __abs__(s):
        return SymU(_fabs(s.e))

    def __neg__(s):
        raise TypeError("SymU neg")


# ----------------------------------------------------------------------------
_CACHE = {}


def _py():
    if "py" not in _CACHE:
        import pyyeti.rainflow.py_rain as pr
        npx = NPProxy()
        f = rebind([pr._rainflow1, pr._rainflow2], dict(np=npx))
        _CACHE["py"] = f
        _CACHE["py_ids"] = [H.fn_id(pr._rainflow1), H.fn_id(pr._rainflow2)]
    return _CACHE["py"]


def _ir(variant):
    key = "ir_" + variant
    if key not in _CACHE:
        ip = llvmir.Interp(text=cbuild.emit_ir(variant))
        llvmir.setup(ip, api_new=cbuild.api_index("PyArray_New"))
        _CACHE[key] = ip
    return _CACHE[key]


def run_c(variant, peaks, getoffsets):
    ip = _ir(variant)
    L = len(peaks)
    llvmir.setup(ip, api_new=ip.api_new)
    ip.steps = 0
    ip.maxsteps = 50 * L * L + 2000
    inp = llvmir.Block("ndarray", shape=(L,), typenum=12, size=96)
    data = llvmir.Block("arraydata", size=8 * L)
    for i, p in enumerate(peaks):
        data.mem[8 * i] = p
    inp.mem[0] = 2          # refcount held by the wrapper
    inp.mem[16] = (data, 0)
    inp.data = data
    res = ip.run("rainflow2" if getoffsets else "rainflow1", [(inp, 0), L])
    if res is None or res[0] != "tuple":
        raise llvmir.IRError("C routine returned %r" % (res,))
    return [llvmir.read_array(b) for b in res[1]]


def run_py(peaks, which):
    arr = np.empty(len(peaks), dtype=object)
    for i, p in enumerate(peaks):
        arr[i] = p
    return _py()[which](arr, len(peaks))


def _eq(a, b):
    """z3 equality of two scalar results (symbolic or concrete)"""
    return S.lift(a) == S.lift(b)


def _rows_equal(obls, tag, A, B, ncol):
    if len(A) != len(B):
        obls.append(E.Obl("%s: number of rows %d vs %d" % (tag, len(A), len(B)), False))
        return
    for r, (x, y) in enumerate(zip(A, B)):
        for c in range(ncol):
            obls.append(E.Obl("%s row %d col %d" % (tag, r, c), _eq(x[c], y[c])))


def _int_rows_equal(obls, tag, A, B):
    if len(A) != len(B):
        obls.append(E.Obl("%s: number of rows" % tag, False))
        return
    for r, (x, y) in enumerate(zip(A, B)):
        for c in range(2):
            obls.append(E.Obl("%s row %d col %d: %s vs %s" % (tag, r, c, x[c], y[c]), int(x[c]) == int(y[c])))


# ----------------------------------------------------------------------------
def path_real(L, with_c=True):
    xs = [z3.Real("x%d" % i) for i in range(L)]

    def fn(eng):
        S.set_engine(eng)
        peaks = [S.SymR(x) for x in xs]
        obls = []
        note = []
        ref, nstack = astm(peaks, note)
        rf2, os2 = run_py(peaks, "_rainflow2")
        rf1 = run_py(peaks, "_rainflow1")
        refrows = [r[:3] for r in ref]
        refos = [r[3:] for r in ref]
        _rows_equal(obls, "py2==ASTM", list(rf2), refrows, 3)
        _int_rows_equal(obls, "py2 offsets==ASTM", list(os2), refos)
        _rows_equal(obls, "py1==py2", list(rf1), list(rf2), 3)
        if with_c:
            for variant in ("asis", "twopass"):
                try:
                    crf, cos = run_c(variant, peaks, True)
                    (crf1,) = run_c(variant, peaks, False)
                except (llvmir.IRError, llvmir.StepBudget) as ex:
                    obls.append(E.Obl("C(%s) memory/termination: %s" % (variant, ex), False))
                    continue
                _rows_equal(obls, "C2(%s)==py2" % variant, crf, list(rf2), 3)
                _int_rows_equal(obls, "C2(%s) offsets==py2" % variant, cos, list(os2))
                _rows_equal(obls, "C1(%s)==py1" % variant, crf1, list(rf1), 3)
        # invariants (on the Python output; the others are equal to it)
        tot = 0
        nfull = 0
        for r, (row, o) in enumerate(zip(rf2, os2)):
            s, e = int(o[0]), int(o[1])
            d = xs[s] - xs[e]
            obls.append(E.Obl("amp row %d = |p[s]-p[e]|/2" % r, S.lift(row[0]) == z3.If(d >= 0, d, -d) / 2))
            obls.append(E.Obl("mean row %d = (p[s]+p[e])/2" % r, S.lift(row[1]) == (xs[s] + xs[e]) / 2))
            obls.append(E.Obl("offsets ordered row %d" % r, 0 <= s < e < L))
            cnt = row[2]
            obls.append(E.Obl("count in {0.5, 1}", cnt in (0.5, 1.0)))
            tot += cnt
            nfull += cnt == 1.0
        obls.append(E.Obl("2*sum(count) == L-1", 2 * tot == L - 1))
        obls.append(E.Obl("rows == L-1-fullcycles", len(rf2) == L - 1 - nfull))
        # largest range always counted
        big = []
        for row in rf2:
            a2 = 2 * S.lift(row[0])
            big.append(z3.And([z3.And(a2 >= xs[i] - xs[j], a2 >= xs[j] - xs[i])
                               for i in range(L) for j in range(i + 1, L)]))
        # ... for reversal points, i.e. strictly alternating input
        up = [xs[i] < xs[i + 1] for i in range(L - 1)]
        dn = [xs[i] > xs[i + 1] for i in range(L - 1)]
        alt = z3.Or(z3.And([up[i] if i % 2 == 0 else dn[i] for i in range(L - 1)]),
                    z3.And([dn[i] if i % 2 == 0 else up[i] for i in range(L - 1)]))
        obls.append(E.Obl("largest range counted (alternating input)", z3.Implies(alt, z3.Or(big))))
        if eng._check(alt) == "sat":
            eng.tag("alternating")
        # reachability tags
        if nfull:
            eng.tag("full-cycle")
        if any(r[2] == 0.5 for r in ref[:len(ref) - (nstack - 1)]):
            eng.tag("half-cycle-j2")
        if nstack - 1 >= 3:
            eng.tag("remainder>=3")
        if note and eng._check(z3.Or([S.lift(X) == S.lift(Y) for X, Y in note])) == "sat":
            eng.tag("tie")
        if L >= 3 and eng._check(z3.And([xs[i] < xs[i + 1] for i in range(L - 1)])) == "sat":
            eng.tag("monotone")
        if eng._check(z3.Or([xs[i] == xs[i + 1] for i in range(L - 1)])) == "sat":
            eng.tag("repeated-value")
        return obls
    return fn, xs


def path_euf(L):
    xs = [z3.Real("x%d" % i) for i in range(L)]

    def fn(eng):
        S.set_engine(eng)
        peaks = [SymU(x) for x in xs]
        obls = []
        rf2, os2 = run_py(peaks, "_rainflow2")
        rf1 = run_py(peaks, "_rainflow1")
        _rows_equal(obls, "euf py1==py2", list(rf1), list(rf2), 3)
        for variant in ("asis", "twopass"):
            try:
                crf, cos = run_c(variant, peaks, True)
                (crf1,) = run_c(variant, peaks, False)
            except (llvmir.IRError, llvmir.StepBudget) as ex:
                obls.append(E.Obl("C(%s) memory/termination: %s" % (variant, ex), False))
                continue
            _rows_equal(obls, "euf C2(%s)==py2" % variant, crf, list(rf2), 3)
            _int_rows_equal(obls, "euf C2(%s) offsets==py2" % variant, cos, list(os2))
            _rows_equal(obls, "euf C1(%s)==py1" % variant, crf1, list(rf1), 3)
        eng.tag("euf")
        return obls
    return fn, xs


def path_meta(L):
    """negate / shift / positive scale, on the Python routine and the C IR"""
    xs = [z3.Real("x%d" % i) for i in range(L)]
    c = z3.Real("shift")

    def fn(eng):
        S.set_engine(eng)
        peaks = [S.SymR(x) for x in xs]
        base, bos = run_py(peaks, "_rainflow2")
        obls = []
        variants = [
            ("negate", [S.SymR(-x) for x in xs], lambda a: a, lambda m: -m),
            ("shift", [S.SymR(x + c) for x in xs], lambda a: a, lambda m: m + c),
            ("scale3", [S.SymR(3 * x) for x in xs], lambda a: 3 * a, lambda m: 3 * m),
            ("scale1/2", [S.SymR(x / 2) for x in xs], lambda a: a / 2, lambda m: m / 2),
        ]
        for name, pk, fa, fm in variants:
            for impl in ("py", "C"):
                if impl == "py":
                    rf, os_ = run_py(pk, "_rainflow2")
                else:
                    try:
                        rf, os_ = run_c("asis", pk, True)
                    except (llvmir.IRError, llvmir.StepBudget) as ex:
                        obls.append(E.Obl("C memory/termination: %s" % ex, False))
                        continue
                if len(rf) != len(base):
                    obls.append(E.Obl("%s/%s: row count changes" % (name, impl), False))
                    continue
                for r in range(len(base)):
                    obls.append(E.Obl("%s/%s amp row %d" % (name, impl, r), S.lift(rf[r][0]) == fa(S.lift(base[r][0]))))
                    obls.append(E.Obl("%s/%s mean row %d" % (name, impl, r), S.lift(rf[r][1]) == fm(S.lift(base[r][1]))))
                    obls.append(E.Obl("%s/%s count row %d" % (name, impl, r), rf[r][2] == base[r][2]))
                    obls.append(E.Obl("%s/%s offsets row %d" % (name, impl, r),
                                      int(os_[r][0]) == int(bos[r][0]) and int(os_[r][1]) == int(bos[r][1])))
        eng.tag("meta")
        return obls
    return fn, xs


def _refine_int(xs):
    def r(eng):
        out = []
        for i, x in enumerate(xs):
            k = z3.Int("xi%d" % i)
            out += [x == z3.ToReal(k), k >= -4096, k <= 4096]
        return out
    return r


def run_c_wrapper(variant, peaks, getoffsets):
    """interpret the Python-facing wrapper `rainflow(self, args, kw)`: argument parsing, the
    array conversion it requests, dimension checks, dispatch to rainflow1/2.
    PyArray_FromAny is ADVERSARIAL: it returns the input array itself only when the requested
    flags force a C-contiguous aligned float64 array; otherwise it returns what NumPy may return
    then - a strided array (every second slot of its buffer holds an unrelated value)."""
    ip = _ir(variant)
    L = len(peaks)
    llvmir.setup(ip, api_new=ip.api_new)
    ip.steps = 0
    ip.maxsteps = 50 * L * L + 4000

    def mk(datavals):
        arr = llvmir.Block("ndarray", shape=(L,), typenum=12, size=96)
        data = llvmir.Block("arraydata", size=8 * len(datavals))
        for i, p in enumerate(datavals):
            data.mem[8 * i] = p
        dims = llvmir.Block("dims", size=8)
        dims.mem[0] = L
        arr.mem[0] = 2
        arr.mem[16] = (data, 0)
        arr.mem[24] = 1
        arr.mem[32] = (dims, 0)
        arr.data = data
        return arr
    inp = mk(list(peaks))
    rec = {}

    def parse(ip_, args):
        ip_.store(args[4], (inp, 0))
        ip_.store(args[5], 1 if getoffsets else 0)
        return 1

    def descr(ip_, args):
        b = llvmir.Block("descr", typenum=args[0], size=16)
        b.mem[0] = 1
        return (b, 0)

    def fromany(ip_, args):
        typenum = getattr(args[1][0], "typenum", None)
        flags = args[4]
        rec["typenum"], rec["flags"] = typenum, flags
        if typenum == 12 and (flags & 0x1) and (flags & 0x100):
            return args[0]
        vals = []
        for i, p in enumerate(peaks):
            vals += [p, S.SymR(z3.Real("garbage%d" % i))]
        return (mk(vals[:max(L, 1) * 2]), 0)
    ip.hooks = {"PyArg_ParseTupleAndKeywords": parse, ("pyapi", cbuild.api_index("PyArray_DescrFromType")): descr,
                ("pyapi", cbuild.api_index("PyArray_FromAny")): fromany, "PyErr_SetString": lambda ip_, a: None}
    try:
        res = ip.run("rainflow", [None, None, None])
    finally:
        ip.hooks = {}
    if res is None or res[0] != "tuple":
        raise llvmir.IRError("wrapper returned %r" % (res,))
    return [llvmir.read_array(b) for b in res[1]], rec


def path_wrapper(L):
    xs = [z3.Real("x%d" % i) for i in range(L)]

    def fn(eng):
        S.set_engine(eng)
        peaks = [S.SymR(x) for x in xs]
        obls = []
        for variant in ("asis", "twopass"):
            for go in (True, False):
                try:
                    direct = run_c(variant, peaks, go)
                    viaw, rec = run_c_wrapper(variant, peaks, go)
                except (llvmir.IRError, llvmir.StepBudget) as ex:
                    obls.append(E.Obl("C wrapper (%s): %s" % (variant, ex), False))
                    continue
                eng.tag("wrapper")
                _rows_equal(obls, "wrapper(%s, getoffsets=%s) table == kernel on the caller's values" % (variant, go), viaw[0], direct[0], 3)
                if go:
                    _int_rows_equal(obls, "wrapper(%s) offsets == kernel" % variant, viaw[1], direct[1])
        return obls
    return fn, xs


MODES = dict(real=path_real, euf=path_euf, meta=path_meta, wrapper=path_wrapper)


def job(mode, L, roots=None, split_depth=None, budget_s=None):
    fn, xs = MODES[mode](L)
    eng = E.Engine()
    eng.refine = _refine_int(xs)
    deadline = time.time() + budget_s if budget_s else None
    res = eng.explore(fn, roots=roots, split_depth=split_depth, deadline=deadline, max_cex=3)
    res["note"] = "%s L=%d%s" % (mode, L, " (subtree)" if roots else "")
    if split_depth is not None and res["roots"]:
        rs = res.pop("roots")
        nchunk = 48
        chunks = [rs[i::nchunk] for i in range(nchunk)]
        res["spawn"] = [("%s-L%d-sub%d" % (mode, L, i), job, (mode, L, ch), dict(budget_s=budget_s))
                        for i, ch in enumerate(chunks) if ch]
    res["roots"] = []
    kernel = "rainflow-%s" % mode
    H.triage(res, kernel, replay, lambda c: dict(
        peaks=[float(c["model"].get("x%d" % i, 0) or 0) for i in range(L)],
        shift=float(c["model"].get("shift", 0) or 0), mode=mode, labels=c["labels"]))
    _py()
    res["functions"] = _CACHE.get("py_ids")
    return res


# ----------------------------------------------------------------------------
def replay(payload):
    """run the real implementations on the concrete peaks"""
    import pyyeti.rainflow.py_rain as pr
    peaks = [float(p) for p in payload["peaks"]]
    L = len(peaks)
    ref, _ = astm(peaks)
    refrf = np.array([r[:3] for r in ref], float).reshape(-1, 3)
    refos = np.array([r[3:] for r in ref], np.int64).reshape(-1, 2)
    problems = []
    impls = {}
    impls["py2"] = pr.rainflow(peaks, getoffsets=True)
    impls["py1"] = (pr.rainflow(peaks), None)
    for variant in ("asis", "twopass"):
        r = H.isolated("checks.c05:c_run", dict(variant=variant, peaks=peaks), timeout=120)
        if "crashed" in r:
            problems.append("compiled C (%s) crashed / did not return on these peaks: %s (exit %s)" % (
                variant, str(r["crashed"])[-120:], r.get("returncode")))
            continue
        impls["C2-" + variant] = (np.array(r["rf2"], float).reshape(-1, 3), np.array(r["os2"], np.int64).reshape(-1, 2))
        impls["C1-" + variant] = (np.array(r["rf1"], float).reshape(-1, 3), None)
        if "rf2s" in r:
            impls["C2-%s on a strided view of the same values" % variant] = (np.array(r["rf2s"], float).reshape(-1, 3), np.array(r["os2s"], np.int64).reshape(-1, 2))
            if not r.get("same_views", True):
                problems.append("compiled C (%s): list / reversed-view input gives a different table than the contiguous array" % variant)
    for name, (rf, os_) in impls.items():
        rf = np.asarray(rf)
        if rf.shape != refrf.shape or not np.array_equal(rf, refrf):
            problems.append("%s table differs from ASTM reference: %s vs %s" % (name, rf.tolist(), refrf.tolist()))
        elif os_ is not None and not np.array_equal(np.asarray(os_), refos):
            problems.append("%s offsets differ from ASTM reference: %s vs %s" % (name, np.asarray(os_).tolist(), refos.tolist()))
    rf, os_ = impls["py2"]
    if abs(2 * rf[:, 2].sum() - (L - 1)) > 0:
        problems.append("2*sum(count)=%s != L-1=%d" % (2 * rf[:, 2].sum(), L - 1))
    d = np.diff(peaks)
    alternating = L >= 2 and np.all(d != 0) and np.all(d[:-1] * d[1:] < 0)
    if alternating and len(rf) and abs(rf[:, 0].max() - (max(peaks) - min(peaks)) / 2) > 0:
        problems.append("largest range not counted: max amp %s, (max-min)/2 %s" % (rf[:, 0].max(), (max(peaks) - min(peaks)) / 2))
    # metamorphic relations on the shipped implementations
    for name, f in (("py", lambda p: pr.rainflow(p, getoffsets=True)),):
        b, bo = f(peaks)
        n, no = f([-p for p in peaks])
        if b.shape != n.shape or not (np.array_equal(b[:, 0], n[:, 0]) and np.array_equal(b[:, 1], -n[:, 1]) and np.array_equal(bo, no) and np.array_equal(b[:, 2], n[:, 2])):
            problems.append("negation changes the table beyond mean sign (%s)" % name)
        s, so = f([3 * p for p in peaks])
        if b.shape != s.shape or not (np.array_equal(3 * b[:, :2], s[:, :2]) and np.array_equal(bo, so)):
            problems.append("scaling by 3 changes the table beyond scaling (%s)" % name)
    if problems:
        return True, "peaks=%s: %s" % (peaks, "; ".join(problems[:3]))
    return False, "peaks=%s: all implementations agree with the reference" % peaks


def c_run(payload):
    """(isolated process) build c_rain.c from the working tree and run it"""
    m = cbuild.build_so(payload["variant"])
    p = np.array(payload["peaks"], float)
    rf2, os2 = m.rainflow(p, getoffsets=True)
    rf1 = m.rainflow(p)
    # the same values handed over as a non-contiguous view, a reversed view and a list
    base = np.empty(2 * len(p))
    base[::2] = p
    base[1::2] = 1.0e6 + np.arange(len(p))
    rf2s, os2s = m.rainflow(base[::2], getoffsets=True)
    rf2r, os2r = m.rainflow(p[::-1][::-1], getoffsets=True)
    rf2l, os2l = m.rainflow(list(p), getoffsets=True)
    return dict(rf2=rf2.tolist(), os2=os2.tolist(), rf1=rf1.tolist(), rf2s=rf2s.tolist(), os2s=os2s.tolist(),
                same_views=bool(np.array_equal(rf2r, rf2) and np.array_equal(rf2l, rf2) and np.array_equal(os2l, os2)))


REPLAY = {"rainflow-real": replay, "rainflow-euf": replay, "rainflow-meta": replay, "rainflow-wrapper": replay}


def selection_job():
    """cyclecount.rainflow is the compiled routine when it imports (concrete)"""
    import pyyeti.cyclecount as cc
    res = dict(paths=1, obligations=1, unsat=0, nontrivial=0)
    try:
        import pyyeti.rainflow.c_rain as cr
        ok = cc.rainflow is cr.rainflow
    except ImportError:
        import pyyeti.rainflow.py_rain as pr
        ok = cc.rainflow is pr.rainflow
    res["unsat"] = 1 if ok else 0
    res["note"] = "implementation selection (concrete)"
    if not ok:
        res["violations"] = [dict(kernel="selection", detail="cyclecount.rainflow is not the preferred implementation", payload={})]
    return res


def jobs(tier, seed):
    q = tier == "quick"
    out = []
    Lreal = 10 if q else 13
    Leuf = 8 if q else 10
    Lmeta = 8 if q else 10
    for L in range(2, Lreal + 1):
        if L >= 9:
            out.append(H.Job("real-L%d-split" % L, job, "real", L, None, 6 if L < 11 else 9, weight=3 ** L))
        else:
            out.append(H.Job("real-L%d" % L, job, "real", L, weight=3 ** L))
    for L in range(2, Leuf + 1):
        if L >= 7:
            out.append(H.Job("euf-L%d-split" % L, job, "euf", L, None, 6, weight=4 ** L))
        else:
            out.append(H.Job("euf-L%d" % L, job, "euf", L, weight=4 ** L))
    for L in range(2, 6 if q else 8):
        out.append(H.Job("wrapper-L%d" % L, job, "wrapper", L, weight=3 ** L))
    for L in range(2, Lmeta + 1):
        if L >= 8:
            out.append(H.Job("meta-L%d-split" % L, job, "meta", L, None, 6, weight=3 ** L))
        else:
            out.append(H.Job("meta-L%d" % L, job, "meta", L, weight=3 ** L))
    return out


def extra_coverage(results):
    fns = set()
    for r in results:
        for f in r.get("functions") or []:
            fns.add(f)
    fns.add("pyyeti/rainflow/c_rain.c:rainflow1,rainflow2 and the Python-facing wrapper rainflow (LLVM IR, variants: as-is, other macro setting)")
    return dict(functions_encoded=sorted(fns))
