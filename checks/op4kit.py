"""Shared plumbing of the OUTPUT4 checks (C04, C11): the OP4 class rebuilt from
/repo's current code objects with `np`, `struct`, `open` patched so that its
methods run on the symbolic record stream (vsym/recstream.py), plus an
INDEPENDENT encoder of the binary OUTPUT4 layout written from the Nastran
format description (shares no code with pyYeti)."""
import types

import numpy as np
import z3

from vsym import sym as S
from vsym import engine as E
from vsym import astload
from vsym import recstream as R
from vsym.npproxy import NPProxy


class CTok:
    """complex payload value made of two stored numbers"""
    __slots__ = ("re", "im")

    def __init__(self, re, im):
        self.re, self.im = re, im

    def __eq__(self, o):
        return isinstance(o, CTok) and self.re is o.re and self.im is o.im

    def __hash__(self):
        return hash((id(self.re), id(self.im)))

    def __repr__(self):
        return "CTok(%r,%r)" % (self.re, self.im)


class _Im:
    def __init__(self, t):
        self.t = t


def _tok_rmul(self, o):
    if o == 1j:
        return _Im(self)
    return NotImplemented


def _tok_add(self, o):
    if isinstance(o, _Im):
        return CTok(self, o.t)
    return NotImplemented


R.Tok.__rmul__ = _tok_rmul
R.Tok.__add__ = _tok_add


class NPO(NPProxy):
    """np stand-in: allocations are object arrays; fromfile is served by the stream"""

    def zeros(self, shape, dtype=float, order="C"):
        if dtype not in (float, complex, np.float64, np.complex128, None):
            return np.zeros(shape, dtype, order=order)
        a = np.empty(shape, dtype=object, order=order)
        a.fill(0.0)
        return a

    empty = zeros

    def fromfile(self, fp, dtype=float, count=-1, **kw):
        if isinstance(fp, R.SymFile):
            return fp.fromfile(dtype, count)
        return np.fromfile(fp, dtype, count, **kw)

    def any(self, a, *args, **kw):
        if isinstance(a, np.ndarray) and a.dtype == object:
            for v in a.ravel():
                if bool(v != 0) if S.is_sym(v) else bool(v):
                    return True
            return False
        return np.any(a, *args, **kw)

    def iscomplexobj(self, a):
        if isinstance(a, np.ndarray) and a.dtype == object:
            return any(isinstance(v, (S.SymC, complex)) for v in a.ravel())
        return np.iscomplexobj(a)


def _sx_setdtype(x, t):
    """`x.dtype = t` for a symbolic (object) array of reals with t = float: no reinterpretation"""
    if isinstance(x, np.ndarray) and x.dtype == object:
        if t is float:
            return x
        raise TypeError("dtype reinterpretation of symbolic data as %r" % (t,))
    x.dtype = t
    return x


_OPEN = [None]


def sx_open(name, mode="r", *a, **k):
    return _OPEN[0](name, mode)


_C = {}


def op4class():
    """OP4 subclass whose methods are the repository's code objects over patched globals;
    functions containing `x.dtype = float` are re-compiled from source with that
    statement redirected (AST hook 'setdtype')"""
    if "cls" in _C:
        return _C["cls"]
    import pyyeti.nastran.op4 as m
    g = dict(m.__dict__)
    g.update(np=NPO(), struct=R.StructStub, open=sx_open, _sx_setdtype=_sx_setdtype)

    class OP4X(m.OP4):
        pass
    need_src = {"_write_binary", "_write_binary_sparse", "_write_ascii", "_write_ascii_sparse"}
    for nm, f in list(vars(m.OP4).items()):
        static = isinstance(f, staticmethod)
        ff = f.__func__ if static else f
        if not isinstance(ff, types.FunctionType):
            continue
        if nm in need_src:
            nf = astload.load(ff, hooks=("setdtype",), globs=g)
        else:
            nf = types.FunctionType(ff.__code__, g, nm, ff.__defaults__, ff.__closure__)
            nf.__kwdefaults__ = ff.__kwdefaults__
        setattr(OP4X, nm, staticmethod(nf) if static else nf)
    g["OP4"] = OP4X
    # raw (I, J, V) instead of scipy's coo_matrix for symbolic payloads
    OP4X._sparse_matrix = staticmethod(lambda rows, cols, X: ("coo", rows, cols, X))
    _C["cls"] = OP4X
    _C["g"] = g
    return OP4X


def op4class_ascii():
    """OP4 subclass for the ASCII readers on the symbolic line stream (vsym/linestream.py): `int`/`float` of the module
    resolve card fields, `''.join` of card pieces keeps the field map (AST hook 'join' in _get_ascii_block)"""
    if "acls" in _C:
        return _C["acls"]
    import pyyeti.nastran.op4 as m
    from vsym import linestream as L
    g = dict(m.__dict__)

    class NPA(NPO):
        def zeros(self, shape, dtype=float, order="C"):
            return NPO.zeros(self, shape, float if dtype is L.sx_float else dtype, order=order)
        empty = zeros
    g.update(np=NPA(), open=sx_open, int=L.sx_int, float=L.sx_float, _sx_join=L.sx_join)

    class OP4A(m.OP4):
        pass
    for nm, f in list(vars(m.OP4).items()):
        static = isinstance(f, staticmethod)
        ff = f.__func__ if static else f
        if not isinstance(ff, types.FunctionType):
            continue
        if nm == "_get_ascii_block":
            nf = astload.load(ff, hooks=("join",), globs=g)
        else:
            nf = types.FunctionType(ff.__code__, g, nm, ff.__defaults__, ff.__closure__)
            nf.__kwdefaults__ = ff.__kwdefaults__
        setattr(OP4A, nm, staticmethod(nf) if static else nf)
    g["OP4"] = OP4A
    OP4A._sparse_matrix = staticmethod(lambda rows, cols, X: ("coo", rows, cols, X))
    _C["acls"] = OP4A
    return OP4A


# ---------------------------------------------------------------------------
# independent encoder of the ASCII OUTPUT4 layout
#
#   line 1      : NCOL NROW NF NTYPE (4I8), NAME (A8), then the FORTRAN format of the numbers, e.g. 1P,3E23.16
#                 (NROW < 0 flags BIGMAT; files of 65536 rows or more are BIGMAT whatever the sign)
#   per non-null column: ICOL IROW NW (3I8), then
#       dense   IROW > 0 : NW numbers (in ASCII dense columns NW counts numbers, not words: compared with
#                          pyyeti/tests/nastran_op4_data/double_dense_ascii.op4), `perline` to a line, each `numlen` wide
#       sparse  IROW = 0 : strings; non-BIGMAT: one line IS = IROW + 65536*(L+1), then L/wper numbers
#                                    BIGMAT    : one line L+1, IROW (2I8), then L/wper numbers
#   last        : NCOL+1, 1, 1 (3I8) and a line with one number
#   wper = words per number: 1 for single precision types (1, 3), 2 for double (2, 4); complex = 2 numbers

def encode_ascii(mats, layout, perline, numlen, dform=False, fmt=True, posnr=False):
    """mats as for encode_binary.  Returns the list of ALine."""
    from vsym import linestream as L
    lines = []
    mark = "D" if dform else "E"

    def numlines(nums):
        for a in range(0, len(nums), perline):
            lines.append(L.ALine.build([("n", numlen, (x, mark)) for x in nums[a:a + perline]]))
    for mt in mats:
        cplx = mt["mtype"] in (3, 4)
        wper = 1 if mt["mtype"] in (1, 3) else 2
        nrow = mt["rows"] if (layout != "bigmat" or posnr) else -mt["rows"]
        head = [("i", 8, mt["cols"]), ("i", 8, nrow), ("i", 8, mt["form"]), ("i", 8, mt["mtype"]), ("t", 8, mt["name"].upper().ljust(8))]
        if fmt:
            head.append(("t", 12, "1P,%d%s%d.%d" % (perline, mark, numlen, numlen - 7)))
        lines.append(L.ALine.build(head))
        for c in sorted(mt["columns"]):
            strings = mt["columns"][c]
            if not strings:
                continue
            if layout == "dense":
                r0, vals = strings[0]
                nums = [x for v in vals for x in (v if cplx else (v,))]
                lines.append(L.ALine.build([("i", 8, c + 1), ("i", 8, r0 + 1), ("i", 8, len(nums))]))
                numlines(nums)
                continue
            per = [[x for v in vals for x in (v if cplx else (v,))] for _, vals in strings]
            nw = sum(len(n_) * wper + (2 if layout == "bigmat" else 1) for n_ in per)
            lines.append(L.ALine.build([("i", 8, c + 1), ("i", 8, 0), ("i", 8, nw)]))
            for (r0, _), nums in zip(strings, per):
                Lw = len(nums) * wper
                if layout == "bigmat":
                    lines.append(L.ALine.build([("i", 8, Lw + 1), ("i", 8, r0 + 1)]))
                else:
                    lines.append(L.ALine.build([("i", 8, (r0 + 1) + 65536 * (Lw + 1))]))
                numlines(nums)
        lines.append(L.ALine.build([("i", 8, mt["cols"] + 1), ("i", 8, 1), ("i", 8, 1)]))
        numlines([R.Tok("last")])
    return lines


def ascii_text(lines, tokval, numlen, dform):
    """the physical text of a fully concrete line list (replay)"""
    out = []
    for l in lines:
        t = list(str(l))
        for a, b, kind, val in l.fields:
            if kind == "i":
                t[a:b] = str(int(val)).rjust(b - a)
            else:
                x = ("%%%d.%dE" % (numlen, numlen - 7)) % tokval(val)
                t[a:b] = x.replace("E", "D") if dform else x
        out.append("".join(t))
    return "".join(out)


def new_reader_ascii(lines):
    from vsym import linestream as L
    cls = op4class_ascii()
    o = cls()
    fh = [None]

    def op(name, mode):
        fh[0] = L.AFile(lines, mode)
        return fh[0]
    _OPEN[0] = op
    o._op4open_read("<stream>")
    return o, fh[0]


# ---------------------------------------------------------------------------
# independent encoder of the binary OUTPUT4 layout
#
#   record 1 : NCOL NROW NF NTYPE NAME            (keys are 4-byte, or 8-byte in "64-bit" files,
#                                                   NAME is 2 words; NROW < 0 flags BIGMAT)
#   per non-null column, one record: ICOL IROW NW followed by NW words
#       dense        IROW > 0 : the values of rows IROW.. (NW words)
#       sparse       IROW = 0 : strings; non-BIGMAT: IS = IROW + 65536*(L+1), then L words
#                                        BIGMAT    : L+1, IROW, then L words
#   last record : ICOL = NCOL+1, IROW = 1, NW = words of one real, one value
#   every record is bracketed by 4-byte length markers; a word is 4 bytes (8 in 64-bit files);
#   a single-precision number is 1 word, a double 2 words (1 in 64-bit files), complex = 2 numbers.

def encode_binary(mats, endian, bit64, layout, split_at=None):
    """mats: list of dict(name, rows, cols, form, mtype, columns={c: [(irow0 (0-based, int or SymI), [values...]), ...]})
    values: Tok (real) or (Tok, Tok) complex.  Returns the field list."""
    kw = 8 if bit64 else 4
    fields = []

    def mark(n):
        fields.append(R.Field(4, n, "i", endian, "marker"))

    def key(v, tag=""):
        fields.append(R.Field(kw, v, "i", endian, tag))
    for mt in mats:
        single = mt["mtype"] in (1, 3)
        cplx = mt["mtype"] in (3, 4)
        nbytes = 8 if (bit64 or not single) else 4
        fkind = "d" if nbytes == 8 else "f"
        wper = nbytes // kw if nbytes >= kw else 1          # words per stored number
        hl = 4 * kw + 2 * kw
        mark(hl)
        key(mt["cols"], "ncol")
        key(-mt["rows"] if layout == "bigmat" else mt["rows"], "nrow")
        key(mt["form"], "form")
        key(mt["mtype"], "mtype")
        fields.append(R.Field(2 * kw, (mt["name"].upper().ljust(2 * kw)).encode(), "s", endian, "name"))
        mark(hl)
        for c in sorted(mt["columns"]):
            strings = mt["columns"][c]
            if not strings:
                continue
            body = []
            nw = 0
            if layout == "dense":
                assert len(strings) == 1
                r0, vals = strings[0]
                nums = [x for v in vals for x in (v if cplx else (v,))]
                nw = len(nums) * wper
                irow = r0 + 1
                for x in nums:
                    body.append(R.Field(nbytes, x, fkind, endian, "value"))
            else:
                irow = 0
                for r0, vals in strings:
                    nums = [x for v in vals for x in (v if cplx else (v,))]
                    L = len(nums) * wper
                    if layout == "nonbigmat":
                        body.append(R.Field(kw, (r0 + 1) + 65536 * (L + 1), "i", endian, "IS"))
                        nw += 1 + L
                    else:
                        body.append(R.Field(kw, L + 1, "i", endian, "L+1"))
                        body.append(R.Field(kw, r0 + 1, "i", endian, "irow"))
                        nw += 2 + L
                    for x in nums:
                        body.append(R.Field(nbytes, x, fkind, endian, "value"))
            reclen = (3 + nw) * kw
            mark(reclen)
            key(c + 1, "icol")
            key(irow, "irow")
            key(nw, "nw")
            fields.extend(body)
            mark(reclen)
        reclen = 3 * kw + (8 if (bit64 or not single) else 4)
        mark(reclen)
        key(mt["cols"] + 1, "icol")
        key(1, "irow")
        key((8 if (bit64 or not single) else 4) // kw or 1, "nw")
        fields.append(R.Field(8 if (bit64 or not single) else 4, R.Tok("last"), "d" if (bit64 or not single) else "f", endian, "value"))
        mark(reclen)
    return fields


def new_reader(fields):
    """OP4X instance opened on the stream through the real _op4open_read (format detection)"""
    cls = op4class()
    o = cls()
    fh = R.SymFile(fields)
    _OPEN[0] = lambda name, mode: fh
    o._op4open_read("<stream>")
    return o, fh
