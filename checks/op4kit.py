"""Shared plumbing of the OUTPUT4 checks (C04, C11): the OP4 class rebuilt from
/repo's current code objects with `np`, `struct`, `open` patched so that its
methods run on the symbolic record stream (vsym/recstream.py), plus an
INDEPENDENT encoder of the binary OUTPUT4 layout written from the Nastran
format description (shares no code with pyYeti)."""
import types

import numpy as np
import z3

from vsym import sym as S
from vsym import engine as E
from vsym import astload
from vsym import recstream as R
from vsym.npproxy import NPProxy


class CTok:
    """complex payload value made of two stored numbers"""
    __slots__ = ("re", "im")

    def __init__(self, re, im):
        self.re, self.im = re, im

    def __eq__(self, o):
        return isinstance(o, CTok) and self.re is o.re and self.im is o.im

    def __hash__(self):
        return hash((id(self.re), id(self.im)))

    def __repr__(self):
        return "CTok(%r,%r)" % (self.re, self.im)


class _Im:
    def __init__(self, t):
        self.t = t


def _tok_rmul(self, o):
    if o == 1j:
        return _Im(self)
    return NotImplemented


def _tok_add(self, o):
    if isinstance(o, _Im):
        return CTok(self, o.t)
    return NotImplemented


R.Tok.__rmul__ = _tok_rmul
R.Tok.__add__ = _tok_add


class NPO(NPProxy):
    """np stand-in: allocations are object arrays; fromfile is served by the stream"""

    def zeros(self, shape, dtype=float, order="C"):
        if dtype not in (float, complex, np.float64, np.complex128, None):
            return np.zeros(shape, dtype, order=order)
        a = np.empty(shape, dtype=object, order=order)
        a.fill(0.0)
        return a

    empty = zeros

    def fromfile(self, fp, dtype=float, count=-1, **kw):
        if isinstance(fp, R.SymFile):
            return fp.fromfile(dtype, count)
        return np.fromfile(fp, dtype, count, **kw)

    def any(self, a, *args, **kw):
        if isinstance(a, np.ndarray) and a.dtype == object:
            for v in a.ravel():
                if bool(v != 0) if S.is_sym(v) else bool(v):
                    return True
            return False
        return np.any(a, *args, **kw)

    def iscomplexobj(self, a):
        if isinstance(a, np.ndarray) and a.dtype == object:
            return any(isinstance(v, (S.SymC, complex)) for v in a.ravel())
        return np.iscomplexobj(a)


def _sx_setdtype(x, t):
    """`x.dtype = t` for a symbolic (object) array of reals with t = float: no reinterpretation"""
    if isinstance(x, np.ndarray) and x.dtype == object:
        if t is float:
            return x
        raise TypeError("dtype reinterpretation of symbolic data as %r" % (t,))
    x.dtype = t
    return x


_OPEN = [None]


def sx_open(name, mode="r", *a, **k):
    return _OPEN[0](name, mode)


_C = {}


def op4class():
    """OP4 subclass whose methods are the repository's code objects over patched globals;
    functions containing `x.dtype = float` are re-compiled from source with that
    statement redirected (AST hook 'setdtype')"""
    if "cls" in _C:
        return _C["cls"]
    import pyyeti.nastran.op4 as m
    g = dict(m.__dict__)
    g.update(np=NPO(), struct=R.StructStub, open=sx_open, _sx_setdtype=_sx_setdtype)

    class OP4X(m.OP4):
        pass
    need_src = {"_write_binary", "_write_binary_sparse", "_write_ascii", "_write_ascii_sparse"}
    for nm, f in list(vars(m.OP4).items()):
        static = isinstance(f, staticmethod)
        ff = f.__func__ if static else f
        if not isinstance(ff, types.FunctionType):
            continue
        if nm in need_src:
            nf = astload.load(ff, hooks=("setdtype",), globs=g)
        else:
            nf = types.FunctionType(ff.__code__, g, nm, ff.__defaults__, ff.__closure__)
            nf.__kwdefaults__ = ff.__kwdefaults__
        setattr(OP4X, nm, staticmethod(nf) if static else nf)
    g["OP4"] = OP4X
    # raw (I, J, V) instead of scipy's coo_matrix for symbolic payloads
    OP4X._sparse_matrix = staticmethod(lambda rows, cols, X: ("coo", rows, cols, X))
    _C["cls"] = OP4X
    _C["g"] = g
    return OP4X


# ---------------------------------------------------------------------------
# independent encoder of the binary OUTPUT4 layout
#
#   record 1 : NCOL NROW NF NTYPE NAME            (keys are 4-byte, or 8-byte in "64-bit" files,
#                                                   NAME is 2 words; NROW < 0 flags BIGMAT)
#   per non-null column, one record: ICOL IROW NW followed by NW words
#       dense        IROW > 0 : the values of rows IROW.. (NW words)
#       sparse       IROW = 0 : strings; non-BIGMAT: IS = IROW + 65536*(L+1), then L words
#                                        BIGMAT    : L+1, IROW, then L words
#   last record : ICOL = NCOL+1, IROW = 1, NW = words of one real, one value
#   every record is bracketed by 4-byte length markers; a word is 4 bytes (8 in 64-bit files);
#   a single-precision number is 1 word, a double 2 words (1 in 64-bit files), complex = 2 numbers.

def encode_binary(mats, endian, bit64, layout, split_at=None):
    """mats: list of dict(name, rows, cols, form, mtype, columns={c: [(irow0 (0-based, int or SymI), [values...]), ...]})
    values: Tok (real) or (Tok, Tok) complex.  Returns the field list."""
    kw = 8 if bit64 else 4
    fields = []

    def mark(n):
        fields.append(R.Field(4, n, "i", endian, "marker"))

    def key(v, tag=""):
        fields.append(R.Field(kw, v, "i", endian, tag))
    for mt in mats:
        single = mt["mtype"] in (1, 3)
        cplx = mt["mtype"] in (3, 4)
        nbytes = 8 if (bit64 or not single) else 4
        fkind = "d" if nbytes == 8 else "f"
        wper = nbytes // kw if nbytes >= kw else 1          # words per stored number
        hl = 4 * kw + 2 * kw
        mark(hl)
        key(mt["cols"], "ncol")
        key(-mt["rows"] if layout == "bigmat" else mt["rows"], "nrow")
        key(mt["form"], "form")
        key(mt["mtype"], "mtype")
        fields.append(R.Field(2 * kw, (mt["name"].upper().ljust(2 * kw)).encode(), "s", endian, "name"))
        mark(hl)
        for c in sorted(mt["columns"]):
            strings = mt["columns"][c]
            if not strings:
                continue
            body = []
            nw = 0
            if layout == "dense":
                assert len(strings) == 1
                r0, vals = strings[0]
                nums = [x for v in vals for x in (v if cplx else (v,))]
                nw = len(nums) * wper
                irow = r0 + 1
                for x in nums:
                    body.append(R.Field(nbytes, x, fkind, endian, "value"))
            else:
                irow = 0
                for r0, vals in strings:
                    nums = [x for v in vals for x in (v if cplx else (v,))]
                    L = len(nums) * wper
                    if layout == "nonbigmat":
                        body.append(R.Field(kw, (r0 + 1) + 65536 * (L + 1), "i", endian, "IS"))
                        nw += 1 + L
                    else:
                        body.append(R.Field(kw, L + 1, "i", endian, "L+1"))
                        body.append(R.Field(kw, r0 + 1, "i", endian, "irow"))
                        nw += 2 + L
                    for x in nums:
                        body.append(R.Field(nbytes, x, fkind, endian, "value"))
            reclen = (3 + nw) * kw
            mark(reclen)
            key(c + 1, "icol")
            key(irow, "irow")
            key(nw, "nw")
            fields.extend(body)
            mark(reclen)
        reclen = 3 * kw + (8 if (bit64 or not single) else 4)
        mark(reclen)
        key(mt["cols"] + 1, "icol")
        key(1, "irow")
        key((8 if (bit64 or not single) else 4) // kw or 1, "nw")
        fields.append(R.Field(8 if (bit64 or not single) else 4, R.Tok("last"), "d" if (bit64 or not single) else "f", endian, "value"))
        mark(reclen)
    return fields


def new_reader(fields):
    """OP4X instance opened on the stream through the real _op4open_read (format detection)"""
    cls = op4class()
    o = cls()
    fh = R.SymFile(fields)
    _OPEN[0] = lambda name, mode: fh
    o._op4open_read("<stream>")
    return o, fh
