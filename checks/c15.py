"""C15 - Norton-Thevenin coupling (frclim.ntfl / calcAM) reproduces the directly
coupled system: symbolic external forces on the source, concrete source / load
models on a small grid, independent mpmath reference of the coupled system."""
import math
from fractions import Fraction

import numpy as np
import z3

from vsym import sym as S
from vsym import engine as E
from vsym import harness as H
from vsym import odekit
from vsym.npproxy import NPProxy

PID = "C15"

META = dict(
    level="other",
    stubs=["np.empty/np.zeros with complex dtype in frclim.ntfl -> object arrays (symbolic complex entries)",
           "the apparent masses themselves are computed by the unmodified calcAM on concrete models (SolveUnc / FreqDirect / cbtf routes); only the free acceleration is symbolic"],
    outside=["the vanishing-frequency mass limit", "models other than the listed chains", "stdfs/ctdfs/sefl"],
    assumptions=["external force amplitudes on the source (complex) in [-1, 1]; frequencies 0.7, 3, 11 Hz"],
    reach_required=["drm-form", "partition-form", "two-interface-dof", "array-source", "history"],
    trusted_base=["z3 5.1", "mpmath linear solves (40 digits)"],
)

FREQ = np.array([0.7, 3.0, 11.0])


def chain(masses, ks, damp, ground=False):
    n = len(masses)
    M = np.diag(np.array(masses, float))
    K = np.zeros((n, n))
    for i, k in enumerate(ks):
        K[i, i] += k
        K[i + 1, i + 1] += k
        K[i, i + 1] -= k
        K[i + 1, i] -= k
    if ground:
        K[0, 0] += ks[0]
    B = damp * K          # stiffness-proportional: no damping on the rigid-body modes (pyYeti's frequency-domain rigid-body rule is a = F/m)
    return M, B, K


def pairs():
    """(source M,B,K, source interface dofs, load M,B,K, load interface dofs)"""
    out = {}
    out["chain-1dof"] = (chain([3., 2., 1.5], [900., 400.], 2e-4), [2], chain([1., 2.5], [600.], 3e-4), [0])
    out["chain-iface-first"] = (chain([2., 3., 1.], [500., 800.], 2e-4), [0], chain([0.8, 1.2, 2.0], [700., 300.], 1e-4), [2])
    # two interface DOF: two parallel chains joined at both ends of the load
    Ms, Bs, Ks = chain([2., 1., 1.5, 2.5], [800., 500., 650.], 2e-4)
    Ml, Bl, Kl = chain([1.2, 0.7, 1.9], [400., 900.], 2e-4)
    out["two-dof"] = ((Ms, Bs, Ks), [0, 3], (Ml, Bl, Kl), [0, 2])
    # a rigid source (a single mass at the interface): its apparent mass is the real number M
    out["rigid-source"] = ((np.array([[2.5]]), np.zeros((1, 1)), np.zeros((1, 1))), [0], chain([1.0, 2.0, 0.5], [700., 350.], 4e-4), [0])
    return out


def cb_form(M, B, K, bidx, bfirst):
    """exact Craig-Bampton form of (M, B, K) with boundary DOF `bidx` (all fixed-interface modes kept):
    returns (Mcb, Bcb, Kcb, bset) with the boundary DOF first or last"""
    import scipy.linalg as la
    n = M.shape[0]
    ii = [i for i in range(n) if i not in bidx]
    Kii, Kib = K[np.ix_(ii, ii)], K[np.ix_(ii, bidx)]
    Psi = -np.linalg.solve(Kii, Kib)
    w2, Phi = la.eigh(Kii, M[np.ix_(ii, ii)])
    nb, nq = len(bidx), len(ii)
    T = np.zeros((n, nb + nq))
    for r, i in enumerate(bidx):
        T[i, r] = 1.0
    for r, i in enumerate(ii):
        T[i, :nb] = Psi[r]
        T[i, nb:] = Phi[r]
    if not bfirst:
        perm = list(range(nb, nb + nq)) + list(range(nb))
        T = T[:, perm]
        bset = np.arange(nq, nq + nb)
    else:
        bset = np.arange(nb)
    return T.T @ M @ T, T.T @ B @ T, T.T @ K @ T, bset


def _mp():
    import mpmath as mp
    mp.mp.dps = 40
    return mp


def reference(src, si, lod, li, freq):
    """linear maps f_ext (force on all source DOFs) -> (As, A, F) at the interface, as lists
    [nf] of (rows x ns) complex-rational matrices"""
    mp = _mp()
    (Ms, Bs, Ks), (Ml, Bl, Kl) = src, lod
    ns, nl = Ms.shape[0], Ml.shape[0]
    out = []
    lint = [j for j in range(nl) if j not in li]
    for f in freq:
        w = 2 * mp.pi * mp.mpf(float(f))
        Zs = mp.matrix(ns, ns)
        Zl = mp.matrix(nl, nl)
        for i in range(ns):
            for j in range(ns):
                Zs[i, j] = mp.mpf(float(Ks[i, j])) + 1j * w * mp.mpf(float(Bs[i, j])) - w * w * mp.mpf(float(Ms[i, j]))
        for i in range(nl):
            for j in range(nl):
                Zl[i, j] = mp.mpf(float(Kl[i, j])) + 1j * w * mp.mpf(float(Bl[i, j])) - w * w * mp.mpf(float(Ml[i, j]))
        # source alone
        Xs = Zs ** -1
        As_map = [[-w * w * Xs[i, j] for j in range(ns)] for i in si]
        # coupled: unknowns = source dofs + load interior dofs; load interface dof li[k] == source dof si[k]
        nc = ns + len(lint)
        pos = {}
        for k, j in enumerate(li):
            pos[j] = si[k]
        for k, j in enumerate(lint):
            pos[j] = ns + k
        Zc = mp.matrix(nc, nc)
        for i in range(ns):
            for j in range(ns):
                Zc[i, j] += Zs[i, j]
        for i in range(nl):
            for j in range(nl):
                Zc[pos[i], pos[j]] += Zl[i, j]
        Xc = Zc ** -1
        A_map = [[-w * w * Xc[i, j] for j in range(ns)] for i in si]
        # force the source applies to the load at the interface: rows li of Zl x_load
        F_map = []
        for i in li:
            row = []
            for j in range(ns):
                row.append(sum(Zl[i, q] * Xc[pos[q], j] for q in range(nl)))
            F_map.append(row)
        out.append((As_map, A_map, F_map))
    return out


def _q(c):
    return S.SymC(z3.RealVal(odekit._toQ(c.real)), z3.RealVal(odekit._toQ(c.imag)))


def _apply(Map, fz):
    """Map: rows x ns of mpmath complex; fz: ns SymC -> list of SymC"""
    out = []
    for row in Map:
        acc = S.SymC(z3.RealVal(0), z3.RealVal(0))
        for c, f in zip(row, fz):
            acc = acc + _q(c) * f
        out.append(acc)
    return out


def _models(form, Ms, Bs, Ks, si, Ml, Bl, Kl, li):
    """the [m, b, k, bdof] lists handed to pyYeti: recovery-matrix form on the physical matrices, or
    partition-vector form on the exact Craig-Bampton models (source: boundary last, load: boundary first)"""
    if form == "pv":
        a = cb_form(Ms, Bs, Ks, si, bfirst=False)
        b = cb_form(Ml, Bl, Kl, li, bfirst=True)
        return [a[0], a[1], a[2], a[3]], [b[0], b[1], b[2], b[3]]

    def T(M, idx):
        t = np.zeros((len(idx), M.shape[0]))
        for r, i in enumerate(idx):
            t[r, i] = 1.0
        return t
    return [Ms.copy(), Bs.copy(), Ks.copy(), T(Ms, si)], [Ml.copy(), Bl.copy(), Kl.copy(), T(Ml, li)]


class NPF(NPProxy):
    def empty(self, shape, dtype=float, order="C"):
        if dtype in (complex, np.complex128):
            a = np.empty(shape, dtype=object, order=order)
            a.fill(0.0)
            return a
        return np.empty(shape, dtype, order=order)

    def empty_like(self, a, dtype=None, **kw):
        return np.empty_like(a, dtype=dtype, **kw)


def _frclim():
    import pyyeti.frclim as fl
    from vsym.npproxy import rebind
    return fl, rebind([fl.ntfl], dict(np=NPF()))["ntfl"]


def ntfl_fn(pair, form, variant):
    """form: 'drm' (recovery matrix) | 'pv' (partition vector: cbtf route);
    variant: 'plain' | 'array-source' (source apparent mass passed as a precomputed array) | 'history' (second call after in-place change)"""
    def fn(eng):
        S.set_engine(eng)
        fl, ntfl = _frclim()
        src, si, lod, li = pairs()[pair]
        (Ms, Bs, Ks), (Ml, Bl, Kl) = [tuple(np.array(x, copy=True) for x in t) for t in (src, lod)]
        ns = Ms.shape[0]
        info = dict(pair=pair, form=form, variant=variant)
        fre = [z3.Real("f%d_re" % i) for i in range(ns)]
        fim = [z3.Real("f%d_im" % i) for i in range(ns)]
        for v in fre + fim:
            eng.assume(z3.And(v >= -1, v <= 1))
        fz = [S.SymC(a, b) for a, b in zip(fre, fim)]
        eng.tag("drm-form" if form == "drm" else "partition-form")
        if len(si) > 1:
            eng.tag("two-interface-dof")

        Sm, Lm = _models(form, Ms, Bs, Ks, si, Ml, Bl, Kl, li)
        try:
            if variant == "history":
                eng.tag("history")
                # first call on a different damping, then change the same arrays in place and call again
                Sm[1] *= 6.0
                Lm[1] *= 0.25
                fl.ntfl(Sm, Lm, np.ones((len(si), len(FREQ))), FREQ)
                Sm[1] /= 6.0
                Lm[1] /= 0.25
            Sarg = list(Sm)
            Larg = list(Lm)
            ref = reference((Ms, Bs, Ks), si, (Ml, Bl, Kl), li, FREQ)
            As = np.empty((len(si), len(FREQ)), dtype=object)
            for j in range(len(FREQ)):
                col = _apply(ref[j][0], fz)
                for r in range(len(si)):
                    As[r, j] = col[r]
            if variant == "array-source":
                eng.tag("array-source")
                if pair == "rigid-source":
                    Sarg = float(Ms[0, 0]) * np.ones((1, len(FREQ), 1))      # a stored real apparent mass
                else:
                    Sarg = fl.calcAM(Sarg, FREQ)
            r = ntfl(Sarg, Larg, As, FREQ)
        except E.Inconclusive:
            raise
        except Exception as ex:
            import traceback
            return [E.Obl("ntfl raises %r (%s)" % (ex, traceback.format_exc()[-300:]), False, info=info)]
        obls = []
        for j in range(len(FREQ)):
            Aref = _apply(ref[j][1], fz)
            Fref = _apply(ref[j][2], fz)
            for k in range(len(si)):
                sc = max(1.0, float(sum(abs(complex(c)) for c in ref[j][1][k])))
                obls.append(E.Obl("ntfl: interface acceleration dof %d at %.1f Hz equals the directly coupled system" % (k, FREQ[j]), S.close(r.A[k, j], Aref[k], 1e-8 * sc), info=info))
                scf = max(1.0, float(sum(abs(complex(c)) for c in ref[j][2][k])))
                obls.append(E.Obl("ntfl: interface force dof %d at %.1f Hz equals the directly coupled system" % (k, FREQ[j]), S.close(r.F[k, j], Fref[k], 1e-8 * scf), info=info))
        # concrete bookkeeping: TAM = SAM + LAM, SAM * accelerance = I
        obls.append(E.Obl("TAM == SAM + LAM", bool(np.allclose(np.asarray(r.TAM, complex), np.asarray(r.SAM, complex) + np.asarray(r.LAM, complex), rtol=1e-12)), info=info))
        mp = _mp()
        for j, f in enumerate(FREQ):
            w = 2 * math.pi * f
            Zs = Ks + 1j * w * Bs - w * w * Ms
            acc = (-w * w * np.linalg.inv(Zs))[np.ix_(si, si)]
            I = np.asarray(r.SAM[:, j, :], complex) @ acc
            obls.append(E.Obl("source apparent mass at %.1f Hz is the inverse of the boundary accelerance" % f, bool(np.allclose(I, np.eye(len(si)), atol=1e-7)), info=info))
        return obls
    return fn


def replay(p):
    import pyyeti.frclim as fl
    src, si, lod, li = pairs()[p["pair"]]
    (Ms, Bs, Ks), (Ml, Bl, Kl) = [tuple(np.array(x, copy=True) for x in t) for t in (src, lod)]
    ns = Ms.shape[0]
    mdl = p["model"]
    f = np.array([complex(float(Fraction(mdl.get("f%d_re" % i, 0) or 0)), float(Fraction(mdl.get("f%d_im" % i, 0) or 0))) for i in range(ns)])
    if not f.any():
        f = np.arange(1, ns + 1) * (1 + 0.5j)
    form, variant = p["form"], p["variant"]

    Sm, Lm = _models(form, Ms, Bs, Ks, si, Ml, Bl, Kl, li)
    try:
        if variant == "history":
            Sm[1] *= 6.0
            Lm[1] *= 0.25
            fl.ntfl(Sm, Lm, np.ones((len(si), len(FREQ))), FREQ)
            Sm[1] /= 6.0
            Lm[1] /= 0.25
        msgs = []
        As = np.zeros((len(si), len(FREQ)), complex)
        Aref = np.zeros_like(As)
        Fref = np.zeros_like(As)
        nl = Ml.shape[0]
        lint = [j for j in range(nl) if j not in li]
        for j, fr in enumerate(FREQ):
            w = 2 * math.pi * fr
            Zs = Ks + 1j * w * Bs - w * w * Ms
            Zl = Kl + 1j * w * Bl - w * w * Ml
            As[:, j] = (-w * w * np.linalg.solve(Zs, f))[si]
            nc = ns + len(lint)
            pos = {}
            for k, q in enumerate(li):
                pos[q] = si[k]
            for k, q in enumerate(lint):
                pos[q] = ns + k
            Zc = np.zeros((nc, nc), complex)
            Zc[:ns, :ns] += Zs
            for a in range(nl):
                for b in range(nl):
                    Zc[pos[a], pos[b]] += Zl[a, b]
            x = np.linalg.solve(Zc, np.r_[f, np.zeros(len(lint))])
            Aref[:, j] = -w * w * x[si]
            xl = np.array([x[pos[q]] for q in range(nl)])
            Fref[:, j] = (Zl @ xl)[li]
        Sarg = list(Sm)
        if variant == "array-source":
            Sarg = float(Ms[0, 0]) * np.ones((1, len(FREQ), 1)) if p["pair"] == "rigid-source" else fl.calcAM(Sarg, FREQ)
        r = fl.ntfl(Sarg, list(Lm), As, FREQ)
    except Exception as ex:
        return True, "ntfl(%s, %s, %s) raises %r" % (p["pair"], form, variant, ex)
    if not np.allclose(r.A, Aref, rtol=1e-6, atol=1e-9 * np.abs(Aref).max()):
        msgs.append("interface acceleration differs from the directly coupled system by %.3e (scale %.3e)" % (np.abs(r.A - Aref).max(), np.abs(Aref).max()))
    if not np.allclose(r.F, Fref, rtol=1e-6, atol=1e-9 * np.abs(Fref).max()):
        msgs.append("interface force differs from the directly coupled system by %.3e (scale %.3e)" % (np.abs(r.F - Fref).max(), np.abs(Fref).max()))
    if msgs:
        return True, "ntfl on %s (%s form, %s): %s" % (p["pair"], form, variant, "; ".join(msgs))
    return False, "ntfl agrees with the coupled system on the real code"


REPLAY = {"ntfl": replay}


def job(pair, form, variant):
    eng = E.Engine(obl_timeout_ms=60000)
    eng.obl_mode = "each"
    res = eng.explore(ntfl_fn(pair, form, variant), max_cex=3)
    res["note"] = "%s %s %s" % (pair, form, variant)

    def payload(c):
        d = dict((c.get("info") or [dict(pair=pair, form=form, variant=variant)])[0])
        d["model"] = c["model"]
        return d
    H.triage(res, "ntfl", replay, payload)
    return res


def jobs(tier, seed):
    global FREQ
    if tier != "quick":
        FREQ = np.array([0.2, 0.7, 1.9, 3.0, 6.5, 11.0, 40.0])
    out = []
    for pair in pairs():
        for form in ("drm", "pv"):
            for variant in ("plain", "array-source", "history"):
                if pair == "rigid-source" and (form == "pv" or variant == "history"):
                    continue
                out.append(H.Job("ntfl-%s-%s-%s" % (pair, form, variant), job, pair, form, variant, weight=10))
    return out


def extra_coverage(results):
    import pyyeti.frclim as fl
    import pyyeti.cb as cb
    return dict(functions_encoded=[H.fn_id(fl.ntfl), H.fn_id(fl.calcAM), H.fn_id(cb.cbtf)], models=sorted(pairs()))
