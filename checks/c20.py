"""C20 - order statistics: stats.order_stats('c') and ('r') meet their
definitions for symbolic coverage p and confidence c (n <= 6); ksingle, kdouble,
_getr and the root-finding modes of order_stats are what the property says they
are in terms of SciPy's special functions, taken as uninterpreted functions."""
import itertools
from fractions import Fraction
from math import comb

import numpy as np
import z3

from vsym import sym as S
from vsym import engine as E
from vsym import harness as H
from vsym.npproxy import NPProxy, rebind

PID = "C20"

META = dict(
    level="other",
    stubs=["scipy.stats.binom.sf(k, n, q) / binom.ppf(x, n, q) / binom.cdf -> the exact binomial tail polynomial in q for concrete integer n, k "
           "(ppf: smallest k whose cdf reaches x, found by solver-decided comparisons)", "np.broadcast/np.empty on scalars: NumPy's own",
           "k-factor kernels: norm.ppf, norm.cdf, nct.ppf, chi2.ppf, np.sqrt, np.exp, betainc -> uninterpreted functions (z3 EUF) with sqrt(x)^2 = x, sqrt, exp, chi2.ppf > 0 "
           "and, for the monotonicity obligations only, ground instances of: quantile functions increase with the probability, nct.ppf increases with the non-centrality, sqrt increases",
           "_getr inside kdouble -> uninterpreted r(n, p, tol) > 0 (its own code is a separate kernel)",
           "scipy.optimize.brentq(f, a, b, args, xtol, rtol) -> returns x0 with |x0 - x*| <= xtol + rtol |x0| for some x* in [a, b] with f(x*) = 0 (SciPy's documented contract); defaults xtol=2e-12, rtol=4 eps",
           "np.ceil -> the integer m with m-1 < x <= m; .astype(int) on symbolic values -> identity (AST hook)"],
    outside=["numerical values of the k-factors (accuracy of SciPy's nct/chi2/norm, convergence of the Newton iteration of _getr beyond 4 steps, convergence to the normal quantile as n grows)",
             "monotonicity of kdouble in the coverage p (a property of the solution r of the coverage equation, not of code)",
             "order_stats('n'): that the bracket [a, b] found by doubling contains a sign change (a property of the incomplete beta function); more than 4 doublings; roots above 1000 (rtol term) or within 1e-9 of an integer",
             "order_stats('c')/('r') for n > 7; broadcasting beyond one 2-element axis"],
    assumptions=["0 < p < 1, 0 < c < 1, 1 <= r <= n <= 6 (7 thorough); exact ties c(r) == c excluded from the extremality statement",
                 "k-factors: real n >= 2, 0 < p < p2 < 1, 0 < c < c2 < 1; _getr: 0 < tol <= 1e-3, at most 2 (4) Newton steps"],
    reach_required=["c", "r", "ksingle-scalar", "ksingle-array", "kdouble-scalar", "kdouble-array", "getr-1", "getr-2", "n-search", "p-search"],
    trusted_base=["z3 5.1 (nlsat, EUF)", "binomial tail polynomial", "SciPy's documented brentq contract"],
)


def tail(q, n, r):
    """P(X >= r), X ~ Bin(n, q) as a z3 term (q a z3 Real)"""
    if r <= 0:
        return z3.RealVal(1)
    t = z3.RealVal(0)
    for k in range(r, n + 1):
        term = z3.RealVal(comb(n, k))
        for _ in range(k):
            term = term * q
        for _ in range(n - k):
            term = term * (1 - q)
        t = t + term
    return t


class Binom:
    @staticmethod
    def _q(q):
        return S.lift(q)

    @staticmethod
    def sf(k, n, q):
        k, n = int(k), int(n)
        return S.SymR(tail(Binom._q(q), n, k + 1))

    @staticmethod
    def cdf(k, n, q):
        k, n = int(k), int(n)
        return S.SymR(1 - tail(Binom._q(q), n, k + 1))

    @staticmethod
    def ppf(x, n, q):
        n = int(n)
        xq = S.lift(x)
        for k in range(n + 1):
            if S.eng().decide(1 - tail(Binom._q(q), n, k + 1) >= xq):
                return float(k)
        return float(n)


class NPS(NPProxy):
    def asarray(self, a, dtype=None, **kw):
        if S.is_sym(a):
            return a
        return np.asarray(a, dtype=dtype, **kw)


def os_fn(n):
    def fn(eng):
        S.set_engine(eng)
        import pyyeti.stats as st
        f = rebind([st.order_stats], dict(binom=Binom, np=NPS()))["order_stats"]
        p, c = z3.Real("p"), z3.Real("c")
        eng.assume(z3.And(p > 0, p < 1, c > 0, c < 1))
        info = dict(n=n)
        obls = []
        q = 1 - p
        for r in range(1, n + 1):
            try:
                got = f("c", p=S.SymR(p), n=n, r=r)
            except E.Inconclusive:
                raise
            except Exception as ex:
                return [E.Obl("order_stats('c') raises %r" % (ex,), False, info=info)]
            eng.tag("c")
            obls.append(E.Obl("order_stats('c', n=%d, r=%d): confidence that at least r of n exceed the p-quantile" % (n, r), S.lift(got) == tail(q, n, r), info=info))
        try:
            rs = f("r", p=S.SymR(p), c=S.SymR(c), n=n)
        except E.Inconclusive:
            raise
        except Exception as ex:
            return obls + [E.Obl("order_stats('r') raises %r" % (ex,), False, info=info)]
        eng.tag("r")
        rs = int(rs)
        info2 = dict(n=n, r=rs)
        obls.append(E.Obl("order_stats('r', n=%d) = %d lies in 0..n" % (n, rs), 0 <= rs <= n, info=info2))
        if 0 <= rs <= n:
            if rs >= 1:
                obls.append(E.Obl("rank %d meets the requested confidence" % rs, tail(q, n, rs) >= c, info=info2))
            if rs < n:
                obls.append(E.Obl("rank %d is the largest one meeting it (rank %d does not exceed it)" % (rs, rs + 1), tail(q, n, rs + 1) <= c, info=info2))
            # consistency of the two modes
            if rs >= 1:
                back = f("c", p=S.SymR(p), n=n, r=rs)
                obls.append(E.Obl("order_stats('c', r=order_stats('r')) >= c", S.lift(back) >= c, info=info2))
        return obls
    return fn


# ---------------------------------------------------------------------------
# k-factors and the root-finding modes: SciPy's special functions become
# uninterpreted functions (z3 EUF + real arithmetic); what is decided is the
# code of pyYeti around them - which quantile of which distribution with which
# arguments, scaling by root n, the Newton iteration of _getr, the bracket and
# tolerance handed to brentq, the rounding to an integer, and that caller
# arrays are left alone.

R_ = z3.RealSort()
Q = z3.Function("norm_ppf", R_, R_)
PHI = z3.Function("norm_cdf", R_, R_)
T = z3.Function("nct_ppf", R_, R_, R_, R_)
CHI = z3.Function("chi2_ppf", R_, R_, R_)
SQ = z3.Function("sqrt", R_, R_)
EXP = z3.Function("exp", R_, R_)
BETA = z3.Function("betainc", R_, R_, R_, R_)
GR = z3.Function("getr", R_, R_, R_, R_)


def _ew(fn, *args):
    """elementwise with NumPy broadcasting over object arrays"""
    if any(isinstance(a, np.ndarray) and a.ndim > 0 for a in args):
        arrs = [a if isinstance(a, np.ndarray) else np.array(a, dtype=object) for a in args]
        b = np.broadcast(*arrs)
        out = np.empty(b.shape, dtype=object)
        for i, t in enumerate(b):
            out.flat[i] = fn(*t)
        return out
    args = [a.item() if isinstance(a, np.ndarray) else a for a in args]
    return fn(*args)


class Lib:
    """the stand-ins of one path; every application is logged so that ground
    instances of the functions' monotonicity can be added"""

    def __init__(self, eng, max_exp=None, max_beta=None):
        self.eng, self.apps, self.roots = eng, {}, []
        self.max_exp, self.max_beta = max_exp, max_beta

    def app(self, f, *args):
        a = [z3.simplify(S.lift(x)) for x in args]
        t = f(*a)
        self.apps.setdefault(f.name(), []).append((a, t))
        return S.SymR(t)

    # scipy.stats / scipy.special / scipy.optimize stand-ins
    def norm(self):
        lib = self

        class N:
            ppf = staticmethod(lambda p: _ew(lambda x: lib.app(Q, x), p))
            cdf = staticmethod(lambda x: _ew(lambda v: lib.app(PHI, v), x))
        return N

    def nct(self):
        lib = self

        class N:
            ppf = staticmethod(lambda c, df, nc: _ew(lambda a, b, d: lib.app(T, a, b, d), c, df, nc))
        return N

    def chi2(self):
        lib = self

        class N:
            ppf = staticmethod(lambda q, df: _ew(lambda a, b: lib._chi(a, b), q, df))
        return N

    def _chi(self, q, df):
        t = self.app(CHI, q, df)
        self.eng.assume(t.e > 0)
        return t

    def getr(self, n, prob, tol):
        def one(a, b):
            t = self.app(GR, a, b, tol)
            self.eng.assume(t.e > 0)
            return t
        return _ew(one, n, prob)

    def betainc(self, a, b, x):
        if self.max_beta is not None and len(self.apps.get("betainc", [])) >= self.max_beta:
            raise E.PathAbort()
        t = self.app(BETA, a, b, x)
        return t

    def brentq(self, f, a, b, args=(), xtol=2e-12, rtol=8.881784197001252e-16, maxiter=100, full_output=False, disp=True):
        eng = self.eng
        xs, x0 = eng.fresh("root"), eng.fresh("brentq")
        fa, fb = f(a, *args), f(b, *args)
        eng.assume(z3.And(xs >= S.lift(a), xs <= S.lift(b)))
        eng.assume(S.lift(f(S.SymR(xs), *args)) == 0)
        xt, rt = S.lift(xtol), S.lift(rtol)
        ax0 = z3.If(x0 >= 0, x0, -x0)
        eng.assume(z3.And(x0 - xs <= xt + rt * ax0, xs - x0 <= xt + rt * ax0))
        self.roots.append(dict(xs=xs, x0=x0, fa=S.lift(fa), fb=S.lift(fb), xtol=xt, rtol=rt, a=S.lift(a), b=S.lift(b)))
        return S.SymR(x0)

    def monotone(self):
        """ground instances, for the applications seen on this path, of: quantile functions increase with the probability;
        the non-central t quantile increases with the non-centrality; sqrt increases; exp is positive"""
        A = self.eng.assume
        for (a1, t1), (a2, t2) in itertools.permutations(self.apps.get("norm_ppf", []), 2):
            A(z3.Implies(a1[0] < a2[0], t1 < t2))
        for (a1, t1), (a2, t2) in itertools.permutations(self.apps.get("sqrt", []), 2):
            A(z3.Implies(a1[0] < a2[0], t1 < t2))
        for (a1, t1), (a2, t2) in itertools.permutations(self.apps.get("chi2_ppf", []), 2):
            A(z3.Implies(z3.And(a1[1] == a2[1], a1[0] < a2[0]), t1 < t2))
        for (a1, t1), (a2, t2) in itertools.permutations(self.apps.get("nct_ppf", []), 2):
            same = a1[1] == a2[1]
            A(z3.Implies(z3.And(same, a1[0] <= a2[0], a1[2] <= a2[2]), t1 <= t2))
            A(z3.Implies(z3.And(same, a1[0] < a2[0], a1[2] <= a2[2]), t1 < t2))
            A(z3.Implies(z3.And(same, a1[0] <= a2[0], a1[2] < a2[2]), t1 < t2))


class NPK(NPProxy):
    def __init__(self, lib):
        NPProxy.__init__(self)
        self.lib = lib

    def asarray(self, a, dtype=None, **kw):
        if S.is_sym(a) or (isinstance(a, np.ndarray) and a.dtype == object):
            return a
        return np.asarray(a, dtype=dtype, **kw)

    def _sqrt1(self, x):
        if not S.is_sym(x):
            return np.sqrt(x)
        t = self.lib.app(SQ, x)
        self.lib.eng.assume(z3.And(t.e > 0, t.e * t.e == x.e))
        return t

    def sqrt(self, a):
        return _ew(self._sqrt1, a)

    def _exp1(self, x):
        if not S.is_sym(x):
            return np.exp(x)
        lib = self.lib
        if lib.max_exp is not None and len(lib.apps.get("exp", [])) >= lib.max_exp:
            raise E.PathAbort()
        t = lib.app(EXP, x)
        lib.eng.assume(t.e > 0)
        return t

    def exp(self, a):
        return _ew(self._exp1, a)

    def any(self, a):
        if isinstance(a, np.ndarray):
            vs = [v.e if isinstance(v, S.SymB) else z3.BoolVal(bool(v)) for v in a.ravel()]
            return S.SymB(z3.Or(vs))
        return a

    def empty(self, shape, dtype=float, order="C"):
        return np.empty(shape, dtype=object)

    def _ceil1(self, x):
        if not S.is_sym(x):
            return np.ceil(x)
        m = self.lib.eng.fresh("ceil", "Int")
        self.lib.eng.assume(z3.And(m - 1 < x.e, x.e <= m))
        return S.SymI(m)

    def ceil(self, a):
        return _ew(self._ceil1, a)


def _stats(lib, *names, getr_stub=False):
    """the named functions of pyyeti.stats recompiled from the current source over the stand-ins"""
    import pyyeti.stats as st
    from vsym import astload
    g = dict(st.ksingle.__globals__)
    g.update(np=NPK(lib), norm=lib.norm(), nct=lib.nct(), chi2=lib.chi2(), betainc=lib.betainc, brentq=lib.brentq, binom=Binom)
    out = {}
    for nm in names:
        out[nm] = astload.load(getattr(st, nm), hooks=("astype",), globs=g)
    if getr_stub:
        g["_getr"] = lib.getr
    return out


def _sq(x):
    return SQ(z3.simplify(x))


def _unchanged(arr, saved):
    return isinstance(arr, np.ndarray) and arr.shape == saved.shape and all(a is b for a, b in zip(arr.ravel(), saved.ravel()))


def kfac_fn(which, mode):
    def fn(eng):
        S.set_engine(eng)
        lib = Lib(eng)
        f = _stats(lib, which, getr_stub=True)[which]
        p, p2, c, c2, n, n2 = [z3.Real(x) for x in ("p", "p2", "c", "c2", "n", "n2")]
        eng.assume(z3.And(0 < p, p < p2, p2 < 1, 0 < c, c < c2, c2 < 1, n >= 2, n2 >= 2))
        info = dict(which=which, mode=mode)
        tol = S.lift(1e-12)        # the default of kdouble, a double

        def ref(pp, cc, nn):
            if which == "ksingle":
                return T(cc, nn - 1, _sq(nn) * Q(pp)) / _sq(nn)
            return _sq((nn - 1) / CHI(1 - cc, nn - 1)) * GR(nn, pp, tol)
        obls = []
        try:
            if mode == "scalar":
                k = f(S.SymR(p), S.SymR(c), S.SymR(n))
                kp = f(S.SymR(p2), S.SymR(c), S.SymR(n))
                kc = f(S.SymR(p), S.SymR(c2), S.SymR(n))
            else:
                pa = np.array([S.SymR(p), S.SymR(p2)], dtype=object)
                na = np.array([S.SymR(n), S.SymR(n2)], dtype=object)
                ca = np.array([S.SymR(c)], dtype=object)
                saved = [x.copy() for x in (pa, ca, na)]
                k = f(pa, ca, na)
        except E.Inconclusive:
            raise
        except Exception as ex:
            import traceback
            return [E.Obl("%s raises %r (%s)" % (which, ex, traceback.format_exc()[-300:]), False, info=info)]
        eng.tag("%s-%s" % (which, mode))
        what = {"ksingle": "the non-central t quantile nct.ppf(c, n-1, sqrt(n) z_p) scaled by 1/sqrt(n)",
                "kdouble": "sqrt((n-1)/chi2.ppf(1-c, n-1)) r(n, p)"}[which]
        if mode == "scalar":
            obls.append(E.Obl("%s(p, c, n) is %s" % (which, what), S.lift(k) == ref(p, c, n), info=info))
            lib.monotone()
            if which == "ksingle":
                obls.append(E.Obl("ksingle increases with the coverage p", S.lift(kp) > S.lift(k), info=info))
            obls.append(E.Obl("%s increases with the confidence c" % which, S.lift(kc) > S.lift(k), info=info))
        else:
            ok = isinstance(k, np.ndarray) and k.shape == (2,)
            obls.append(E.Obl("%s on broadcast arrays returns one factor per element" % which, ok, info=info))
            if ok:
                obls.append(E.Obl("%s(array)[0] is %s of element 0" % (which, what), S.lift(k[0]) == ref(p, c, n), info=info))
                obls.append(E.Obl("%s(array)[1] is %s of element 1" % (which, what), S.lift(k[1]) == ref(p2, c, n2), info=info))
            for nm, a, s0 in zip("pcn", (pa, ca, na), saved):
                obls.append(E.Obl("%s leaves the caller's array `%s` unchanged" % (which, nm), _unchanged(a, s0), info=info))
        return obls
    return fn


def getr_fn(kmax):
    def fn(eng):
        S.set_engine(eng)
        lib = Lib(eng, max_exp=2 * kmax)
        f = _stats(lib, "_getr")["_getr"]
        n, prob, tol = z3.Real("n"), z3.Real("p"), z3.Real("tol")
        eng.assume(z3.And(n >= 2, prob > 0, prob < 1, tol > 0, tol <= z3.RealVal("1e-3")))
        info = dict(which="_getr", mode="scalar", kmax=kmax)
        try:
            r = f(S.SymR(n), S.SymR(prob), S.SymR(tol))
        except E.Inconclusive:
            raise
        except Exception as ex:
            import traceback
            return [E.Obl("_getr raises %r (%s)" % (ex, traceback.format_exc()[-300:]), False, info=info)]
        k = len(lib.apps.get("exp", [])) // 2
        eng.tag("getr-%d" % k)
        # the Newton iteration for  Phi(1/sqrt(n) + r) - Phi(1/sqrt(n) - r) = p, written independently
        sn = 1 / _sq(n)
        spi = S.lift(1 / np.sqrt(2 * np.pi))
        it = [Q(prob + (1 - prob) / 2) * (1 + 1 / (2 * n))]
        for _ in range(k):
            ro = it[-1]
            hi, lo = sn + ro, sn - ro
            it.append(ro - (PHI(hi) - PHI(lo) - prob) / (spi * (EXP(-(hi * hi) / 2) + EXP(-(lo * lo) / 2))))
        ab = lambda x: z3.If(x >= 0, x, -x)
        obls = [E.Obl("_getr returns the Newton iterate number %d of the coverage equation" % k, S.lift(r) == it[k], info=info)]
        if k >= 1:
            obls.append(E.Obl("_getr stops only when the last Newton step is within tol", ab(it[k] - it[k - 1]) <= tol, info=info))
        for j in range(1, k):
            obls.append(E.Obl("_getr continues while the step %d exceeds tol" % j, ab(it[j] - it[j - 1]) > tol, info=info))
        return obls
    return fn


NEAR = "1e-9"     # roots closer than this to an integer are outside the extremality claim (conditioning allowance)


def root_fn(which, nn, r):
    """order_stats('n'): nn is the number of bracket doublings explored; order_stats('p'): nn is n"""
    def fn(eng):
        S.set_engine(eng)
        lib = Lib(eng, max_beta=(nn + 4) if which == "n" else None)
        f = _stats(lib, "order_stats")["order_stats"]
        p, c = z3.Real("p"), z3.Real("c")
        eng.assume(z3.And(p > 0, p < 1, c > 0, c < 1))
        info = dict(which=which, n=nn, r=r)
        try:
            if which == "n":
                got = f("n", p=S.SymR(p), c=S.SymR(c), r=r)
            else:
                got = f("p", c=S.SymR(c), n=nn, r=r)
        except E.Inconclusive:
            raise
        except Exception as ex:
            import traceback
            return [E.Obl("order_stats(%r) raises %r (%s)" % (which, ex, traceback.format_exc()[-300:]), False, info=info)]
        obls = [E.Obl("order_stats(%r): one root search" % which, len(lib.roots) == 1, info=info)]
        if len(lib.roots) != 1:
            return obls
        rt = lib.roots[0]
        xs = rt["xs"]
        got = got.item() if isinstance(got, np.ndarray) else got
        near = z3.RealVal(NEAR)
        if which == "n":
            eng.tag("n-search")
            # the function whose root is sought is 1 - c - (1 - I_{1-p}(r, n - r + 1)): confidence of rank r with n samples minus c
            obls.append(E.Obl("order_stats('n'): the root sought is that of  c = I_(1-p)(r, n-r+1)", BETA(z3.RealVal(r), xs - r + 1, 1 - p) == c, info=info))
            obls.append(E.Obl("order_stats('n'): brentq is asked for the root to within %s" % NEAR, z3.And(rt["xtol"] + rt["rtol"] * 1000 <= near), info=info))
            m = S.lift(got)
            obls.append(E.Obl("order_stats('n') is the smallest integer at or above the root (unless the root is within %s of an integer)" % NEAR,
                              z3.Or(z3.And(m >= xs, m - 1 < xs), z3.And(xs - (m - 1) <= near, (m - 1) - xs <= near), z3.And(xs - m <= near, m - xs <= near), xs > 1000), info=info))
        else:
            eng.tag("p-search")
            q = 1 - xs        # coverage at the exact root
            obls.append(E.Obl("order_stats('p'): bracket [0, 1] has a sign change", z3.And(rt["a"] == 0, rt["b"] == 1, rt["fa"] * rt["fb"] <= 0), info=info))
            obls.append(E.Obl("order_stats('p'): at the root the confidence of rank r is exactly c", tail(1 - q, nn, r) == c, info=info))
            obls.append(E.Obl("order_stats('p') returns 1 - root to within 1e-9", z3.And(S.lift(got) - q <= near, q - S.lift(got) <= near), info=info))
        return obls
    return fn


def replay(p):
    import pyyeti.stats as st
    from scipy.stats import binom
    mdl = p["model"]
    pv = float(Fraction(mdl.get("p", Fraction(1, 2)) or Fraction(1, 2)))
    cv = float(Fraction(mdl.get("c", Fraction(1, 2)) or Fraction(1, 2)))
    n = p["n"]
    msgs = []
    for r in range(1, n + 1):
        want = sum(comb(n, k) * (1 - pv) ** k * pv ** (n - k) for k in range(r, n + 1))
        got = st.order_stats("c", p=pv, n=n, r=r)
        if abs(got - want) > 1e-12:
            msgs.append("order_stats('c', p=%r, n=%d, r=%d) = %r, the binomial tail is %r" % (pv, n, r, got, want))
    rs = st.order_stats("r", p=pv, c=cv, n=n)
    t = lambda r: sum(comb(n, k) * (1 - pv) ** k * pv ** (n - k) for k in range(r, n + 1)) if r >= 1 else 1.0
    if not (0 <= rs <= n) or (rs >= 1 and t(rs) < cv - 1e-12) or (rs < n and t(rs + 1) > cv + 1e-12):
        msgs.append("order_stats('r', p=%r, c=%r, n=%d) = %r: confidence of rank r is %r, of rank r+1 is %r" % (pv, cv, n, rs, t(rs), t(rs + 1)))
    if msgs:
        return True, "; ".join(msgs[:3])
    return False, "order_stats fine on the real code"


def _fr(mdl, k, default):
    v = mdl.get(k)
    try:
        return float(Fraction(v)) if v is not None else default
    except Exception:
        return default


def replay_kfac(p):
    """the solver's counterexample interprets the special functions freely; what it identifies is the path and the
    obligation.  The real functions are then compared with SciPy's at the model's (p, c, n) and at a few fixed
    alternates of the same path region."""
    import pyyeti.stats as st
    from scipy.stats import norm, nct, chi2
    mdl = p["model"]
    which = p["which"]
    f = getattr(st, which)
    n0 = max(2, int(np.ceil(_fr(mdl, "n", 5.0))))
    pts = []
    for pv in (_fr(mdl, "p", 0.3), 0.2, 0.9):
        for cv in (_fr(mdl, "c", 0.3), 0.1, 0.9):
            for nv in (n0, 7):
                if 0 < pv < 1 and 0 < cv < 1:
                    pts.append((pv, cv, nv))

    def ref(pv, cv, nv):
        if which == "ksingle":
            return nct.ppf(cv, nv - 1, np.sqrt(nv) * norm.ppf(pv)) / np.sqrt(nv)
        return np.sqrt((nv - 1) / chi2.ppf(1 - cv, nv - 1)) * st._getr(nv, pv, 1e-12)
    msgs = []
    for pv, cv, nv in pts:
        got, want = f(pv, cv, nv), ref(pv, cv, nv)
        if not abs(got - want) <= 1e-9 * max(1, abs(want)):
            msgs.append("%s(%r, %r, %r) = %r, its definition gives %r" % (which, pv, cv, nv, got, want))
        c2 = (cv + 1) / 2
        if not f(pv, c2, nv) > got:
            msgs.append("%s(%r, c, %r) does not increase from c=%r to c=%r" % (which, pv, nv, cv, c2))
        p2 = (pv + 1) / 2
        if which == "ksingle" and not f(p2, cv, nv) > got:
            msgs.append("ksingle(p, %r, %r) does not increase from p=%r to p=%r" % (cv, nv, pv, p2))
    pa, ca, na = np.array([0.3, 0.95]), np.array([0.8]), np.array([n0, 9])
    sv = [x.copy() for x in (pa, ca, na)]
    ka = f(pa, ca, na)
    for nm, a, b in zip("pcn", (pa, ca, na), sv):
        if not np.array_equal(a, b):
            msgs.append("%s changed the caller's array `%s` from %s to %s" % (which, nm, b.tolist(), a.tolist()))
    want = [ref(sv[0][i], sv[1][0], sv[2][i]) for i in range(2)]
    if np.shape(ka) != (2,) or not np.allclose(ka, want, rtol=1e-9):
        msgs.append("%s on arrays = %s, elementwise definition %s" % (which, np.asarray(ka).tolist(), want))
    if msgs:
        return True, "; ".join(msgs[:3])
    return False, "%s fine on the real code" % which


def replay_getr(p):
    import pyyeti.stats as st
    from scipy.stats import norm
    mdl = p["model"]
    msgs = []
    for nv in (max(2, int(np.ceil(_fr(mdl, "n", 5.0)))), 2, 30):
        for pv in (_fr(mdl, "p", 0.3), 0.5, 0.99):
            if not 0 < pv < 1:
                continue
            r = st._getr(nv, pv, 1e-12)
            res = norm.cdf(1 / np.sqrt(nv) + r) - norm.cdf(1 / np.sqrt(nv) - r) - pv
            if not abs(res) <= 1e-9:
                msgs.append("_getr(%r, %r, 1e-12) = %r leaves the coverage equation with residual %.3e" % (nv, pv, r, res))
    if msgs:
        return True, "; ".join(msgs[:3])
    return False, "_getr fine on the real code"


def replay_root(p):
    import pyyeti.stats as st
    from scipy.stats import binom
    msgs = []
    if p["which"] == "n":
        for pv in (0.9, 0.95, 0.99, 0.5, 0.75):
            for cv in (0.5, 0.6, 0.75, 0.9, 0.95, 0.99):
                for r in (1, 2, 3, 5):
                    got = int(st.order_stats("n", p=pv, c=cv, r=r))
                    n = r
                    while binom.sf(r - 1, n, 1 - pv) < cv and n < 100000:
                        n += 1
                    # a root within 1e-9 of an integer is outside the claim
                    edge = abs(binom.sf(r - 1, n, 1 - pv) - cv) < 1e-9 or (n > r and abs(binom.sf(r - 1, n - 1, 1 - pv) - cv) < 1e-9)
                    if got != n and not edge:
                        msgs.append("order_stats('n', p=%r, c=%r, r=%d) = %d, the smallest sample size meeting the confidence is %d" % (pv, cv, r, got, n))
    else:
        for n in (p.get("n", 5), 10, 59):
            for cv in (_fr(p["model"], "c", 0.5), 0.9, 0.25):
                for r in (1, 2, min(3, n)):
                    if not 0 < cv < 1:
                        continue
                    got = st.order_stats("p", c=cv, n=n, r=r)
                    back = binom.sf(r - 1, n, 1 - got)
                    if not abs(back - cv) <= 1e-8:
                        msgs.append("order_stats('p', c=%r, n=%d, r=%d) = %r gives confidence %r" % (cv, n, r, got, back))
    if msgs:
        return True, "; ".join(msgs[:3])
    return False, "order_stats(%r) fine on the real code" % p["which"]


REPLAY = {"order_stats": replay, "kfac": replay_kfac, "getr": replay_getr, "root": replay_root}


def job(n):
    eng = E.Engine(obl_timeout_ms=120000)
    eng.obl_mode = "each"
    res = eng.explore(os_fn(n), max_cex=3)
    res["note"] = "order_stats n=%d" % n
    H.triage(res, "order_stats", replay, lambda c: dict(n=n, model=c["model"]))
    return res


def job_euf(kind, *args):
    eng = E.Engine(obl_timeout_ms=60000)
    eng.obl_mode = "each"
    fn = {"kfac": kfac_fn, "getr": getr_fn, "root": root_fn}[kind](*args)
    res = eng.explore(fn, max_cex=3)
    res["note"] = "%s %s" % (kind, args)

    def payload(c):
        d = dict((c.get("info") or [{}])[0])
        d["model"] = c["model"]
        return d
    H.triage(res, kind, REPLAY[kind], payload)
    return res


def jobs(tier, seed):
    q = tier == "quick"
    out = [H.Job("order-stats-%d" % n, job, n, weight=n * n) for n in range(1, (5 if q else 7) + 1)]
    for which in ("ksingle", "kdouble"):
        for mode in ("scalar", "array"):
            out.append(H.Job("%s-%s" % (which, mode), job_euf, "kfac", which, mode, weight=5))
    out.append(H.Job("getr", job_euf, "getr", 2 if q else 4, weight=10))
    for r in (1, 2) if q else (1, 2, 3, 5):
        out.append(H.Job("n-search-r%d" % r, job_euf, "root", "n", 2 if q else 4, r, weight=5))
    for n, r in ((3, 1), (4, 2)) if q else ((3, 1), (4, 2), (5, 5), (6, 3), (7, 1)):
        out.append(H.Job("p-search-n%d-r%d" % (n, r), job_euf, "root", "p", n, r, weight=5))
    return out


def extra_coverage(results):
    import pyyeti.stats as st
    return dict(functions_encoded=[H.fn_id(st.order_stats), H.fn_id(st.ksingle), H.fn_id(st.kdouble), H.fn_id(st._getr)])
