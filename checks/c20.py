"""C20 - order statistics: stats.order_stats('c') and ('r') meet their
definitions for symbolic coverage p and confidence c (n <= 6)."""
from fractions import Fraction
from math import comb

import numpy as np
import z3

from vsym import sym as S
from vsym import engine as E
from vsym import harness as H
from vsym.npproxy import NPProxy, rebind

PID = "C20"

META = dict(
    level="other",
    stubs=["scipy.stats.binom.sf(k, n, q) / binom.ppf(x, n, q) / binom.cdf -> the exact binomial tail polynomial in q for concrete integer n, k "
           "(ppf: smallest k whose cdf reaches x, found by solver-decided comparisons)", "np.broadcast/np.empty on scalars: NumPy's own"],
    outside=["ksingle, kdouble, _getr (non-central t, chi-square, normal quantiles, Newton iteration on SciPy special functions): no code of pyYeti's to encode beyond argument passing",
             "order_stats('n') and ('p') (regularised incomplete beta function, Brent root finding)", "n > 6, array broadcasting"],
    assumptions=["0 < p < 1, 0 < c < 1, 1 <= r <= n <= 6; exact ties c(r) == c excluded from the extremality statement"],
    reach_required=["c", "r"],
    trusted_base=["z3 5.1 (nlsat)", "binomial tail polynomial"],
)


def tail(q, n, r):
    """P(X >= r), X ~ Bin(n, q) as a z3 term (q a z3 Real)"""
    if r <= 0:
        return z3.RealVal(1)
    t = z3.RealVal(0)
    for k in range(r, n + 1):
        term = z3.RealVal(comb(n, k))
        for _ in range(k):
            term = term * q
        for _ in range(n - k):
            term = term * (1 - q)
        t = t + term
    return t


class Binom:
    @staticmethod
    def _q(q):
        return S.lift(q)

    @staticmethod
    def sf(k, n, q):
        k, n = int(k), int(n)
        return S.SymR(tail(Binom._q(q), n, k + 1))

    @staticmethod
    def cdf(k, n, q):
        k, n = int(k), int(n)
        return S.SymR(1 - tail(Binom._q(q), n, k + 1))

    @staticmethod
    def ppf(x, n, q):
        n = int(n)
        xq = S.lift(x)
        for k in range(n + 1):
            if S.eng().decide(1 - tail(Binom._q(q), n, k + 1) >= xq):
                return float(k)
        return float(n)


class NPS(NPProxy):
    def asarray(self, a, dtype=None, **kw):
        if S.is_sym(a):
            return a
        return np.asarray(a, dtype=dtype, **kw)


def os_fn(n):
    def fn(eng):
        S.set_engine(eng)
        import pyyeti.stats as st
        f = rebind([st.order_stats], dict(binom=Binom, np=NPS()))["order_stats"]
        p, c = z3.Real("p"), z3.Real("c")
        eng.assume(z3.And(p > 0, p < 1, c > 0, c < 1))
        info = dict(n=n)
        obls = []
        q = 1 - p
        for r in range(1, n + 1):
            try:
                got = f("c", p=S.SymR(p), n=n, r=r)
            except E.Inconclusive:
                raise
            except Exception as ex:
                return [E.Obl("order_stats('c') raises %r" % (ex,), False, info=info)]
            eng.tag("c")
            obls.append(E.Obl("order_stats('c', n=%d, r=%d): confidence that at least r of n exceed the p-quantile" % (n, r), S.lift(got) == tail(q, n, r), info=info))
        try:
            rs = f("r", p=S.SymR(p), c=S.SymR(c), n=n)
        except E.Inconclusive:
            raise
        except Exception as ex:
            return obls + [E.Obl("order_stats('r') raises %r" % (ex,), False, info=info)]
        eng.tag("r")
        rs = int(rs)
        info2 = dict(n=n, r=rs)
        obls.append(E.Obl("order_stats('r', n=%d) = %d lies in 0..n" % (n, rs), 0 <= rs <= n, info=info2))
        if 0 <= rs <= n:
            if rs >= 1:
                obls.append(E.Obl("rank %d meets the requested confidence" % rs, tail(q, n, rs) >= c, info=info2))
            if rs < n:
                obls.append(E.Obl("rank %d is the largest one meeting it (rank %d does not exceed it)" % (rs, rs + 1), tail(q, n, rs + 1) <= c, info=info2))
            # consistency of the two modes
            if rs >= 1:
                back = f("c", p=S.SymR(p), n=n, r=rs)
                obls.append(E.Obl("order_stats('c', r=order_stats('r')) >= c", S.lift(back) >= c, info=info2))
        return obls
    return fn


def replay(p):
    import pyyeti.stats as st
    from scipy.stats import binom
    mdl = p["model"]
    pv = float(Fraction(mdl.get("p", Fraction(1, 2)) or Fraction(1, 2)))
    cv = float(Fraction(mdl.get("c", Fraction(1, 2)) or Fraction(1, 2)))
    n = p["n"]
    msgs = []
    for r in range(1, n + 1):
        want = sum(comb(n, k) * (1 - pv) ** k * pv ** (n - k) for k in range(r, n + 1))
        got = st.order_stats("c", p=pv, n=n, r=r)
        if abs(got - want) > 1e-12:
            msgs.append("order_stats('c', p=%r, n=%d, r=%d) = %r, the binomial tail is %r" % (pv, n, r, got, want))
    rs = st.order_stats("r", p=pv, c=cv, n=n)
    t = lambda r: sum(comb(n, k) * (1 - pv) ** k * pv ** (n - k) for k in range(r, n + 1)) if r >= 1 else 1.0
    if not (0 <= rs <= n) or (rs >= 1 and t(rs) < cv - 1e-12) or (rs < n and t(rs + 1) > cv + 1e-12):
        msgs.append("order_stats('r', p=%r, c=%r, n=%d) = %r: confidence of rank r is %r, of rank r+1 is %r" % (pv, cv, n, rs, t(rs), t(rs + 1)))
    if msgs:
        return True, "; ".join(msgs[:3])
    return False, "order_stats fine on the real code"


REPLAY = {"order_stats": replay}


def job(n):
    eng = E.Engine(obl_timeout_ms=120000)
    eng.obl_mode = "each"
    res = eng.explore(os_fn(n), max_cex=3)
    res["note"] = "order_stats n=%d" % n
    H.triage(res, "order_stats", replay, lambda c: dict(n=n, model=c["model"]))
    return res


def jobs(tier, seed):
    return [H.Job("order-stats-%d" % n, job, n, weight=n * n) for n in range(1, (5 if tier == "quick" else 7) + 1)]


def extra_coverage(results):
    import pyyeti.stats as st
    return dict(functions_encoded=[H.fn_id(st.order_stats)])
