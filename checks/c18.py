"""C18 - DOF-set partition vectors, DOF look-ups and the locate helpers satisfy
their defining relations for every (bounded) input."""
import itertools
import time
from types import SimpleNamespace

from fractions import Fraction

import numpy as np
import z3

from vsym import sym as S
from vsym import engine as E
from vsym import harness as H
from vsym import astload
from vsym.npproxy import NPProxy, rebind

PID = "C18"

META = dict(
    level="other",
    stubs=["uset['nasset'].values -> object array of symbolic 32-bit vectors (stub table)",
           ".astype(np.int64) on symbolic integer arrays -> identity (AST hook, n2p.mkdofpv / expanddof / make_uset)",
           "mat_intersect: inputs are object arrays reporting an element type (int64 / float64) as dtype; locate._bytes_view(arr, dtype) -> one totally ordered row key per row "
           "after conversion to dtype (float -> integer truncates toward zero), equality = equality of every converted value",
           "make_uset: pandas itself, except that the new table's nasset column is created with dtype object so that it can hold the symbolic set words"],
    bounds=dict(quick="lattice: all 8 base sets x 6 free user bits (one BV query per set expression); mksetpv: 2-3 rows x 66 (major, minor) pairs; "
                      "mkdofpv: 3 table rows x 2 requests, ids in [1,4]; locate helpers: vectors of 3-4 symbolic ints in small ranges",
                thorough="mksetpv 3 rows x all pairs; mkdofpv 4 rows x 2 requests / 3 x 3; locate vectors up to 5"),
    outside=["make_uset's coordinate columns and string set names; DataFrame-indexed paths of mkdofpv (pandas index machinery)", "mat_intersect on -0.0 / NaN (byte patterns) and its keep option",
             "find_subseq (np.correlate)"],
    assumptions=["a USET row's set word is one base-set mask of mkusetmask() plus arbitrary user-set bits (what make_uset / the op2 reader store after clearing)"],
    reach_required=["mat-intersect", "mat-intersect-mixed", "make-uset", "lattice", "mksetpv-raise", "mksetpv-ok", "mkdofpv-missing", "mkdofpv-found", "expand-123456", "locate"],
)

BASE = ["m", "s", "o", "q", "r", "c", "b", "e"]
# documented hierarchy (n2p.mkusetmask docstring diagram), transcribed as sets of base sets
HIER = {
    "m": {"m"}, "s": {"s"}, "o": {"o"}, "q": {"q"}, "r": {"r"}, "c": {"c"}, "b": {"b"}, "e": {"e"},
    "l": {"c", "b"},
    "t": {"c", "b", "r"},
    "a": {"c", "b", "r", "q"},
    "d": {"c", "b", "r", "q", "e"},
    "f": {"c", "b", "r", "q", "o"},
    "fe": {"c", "b", "r", "q", "o", "e"},
    "n": {"c", "b", "r", "q", "o", "s"},
    "ne": {"c", "b", "r", "q", "o", "s", "e"},
    "g": {"c", "b", "r", "q", "o", "s", "m"},
    "p": {"c", "b", "r", "q", "o", "s", "m", "e"},
}


def _n2p():
    import pyyeti.nastran.n2p as n2p
    return n2p


def _row(eng, name):
    """symbolic USET set word: base-set mask (symbolic choice) | user bits"""
    n2p = _n2p()
    masks = n2p.mkusetmask()
    b = z3.Int(name + "_base")
    u = z3.BitVec(name + "_user", 32)
    eng.assume(z3.And(b >= 0, b < 8, (u & z3.BitVecVal(0x03FFFFFF, 32)) == 0))
    x = z3.BitVecVal(masks[BASE[7]], 32)
    for i in range(6, -1, -1):
        x = z3.If(b == i, z3.BitVecVal(masks[BASE[i]], 32), x)
    return b, S.SymBV(x | u)


def _member(b, setexpr):
    """reference membership of base index b (z3 Int) in a '+'-joined set expression"""
    names = set()
    for s in setexpr.split("+"):
        if s.startswith("u"):
            continue
        names |= HIER[s]
    return z3.Or([b == BASE.index(nm) for nm in sorted(names)] + [z3.BoolVal(False)])


def _user_member(xe, setexpr):
    n2p = _n2p()
    t = z3.BoolVal(False)
    for s in setexpr.split("+"):
        if s.startswith("u"):
            t = z3.Or(t, (xe & z3.BitVecVal(n2p.mkusetmask(s), 32)) != 0)
    return t


SETEXPRS = list(HIER) + ["a+o", "b+m", "q+s+e", "u1", "u3+u6", "l+u2", "o+m+s"]


def lattice_fn(eng):
    S.set_engine(eng)
    n2p = _n2p()
    b, x = _row(eng, "r0")
    obls = []
    for sx in SETEXPRS:
        mask = n2p.mkusetmask(sx)
        got = (x.e & z3.BitVecVal(mask, 32)) != 0
        want = z3.Or(_member(b, sx), _user_member(x.e, sx))
        obls.append(E.Obl("membership in '%s'" % sx, got == want))
    # exactly one base set
    hits = [z3.If((x.e & z3.BitVecVal(n2p.mkusetmask(s), 32)) != 0, 1, 0) for s in BASE]
    obls.append(E.Obl("exactly one base set", z3.Sum(hits) == 1))
    # supersets are the disjoint unions of their documented members
    for sup, parts in (("a", "qrbc"), ("l", "cb"), ("t", "lr"), ("f", "ao"), ("n", "fs"), ("g", "nm"), ("p", "ge")):
        inn = lambda s: (x.e & z3.BitVecVal(n2p.mkusetmask(s), 32)) != 0
        obls.append(E.Obl("%s is the union of %s" % (sup, parts), inn(sup) == z3.Or([inn(c) for c in parts])))
    # '+' syntax is the bitwise or
    for a, c in (("a", "o"), ("b", "m"), ("q", "s")):
        obls.append(E.Obl("'+' syntax %s+%s" % (a, c), n2p.mkusetmask(a + "+" + c) == (n2p.mkusetmask(a) | n2p.mkusetmask(c))))
    eng.tag("lattice")
    return obls


class _StubUset:
    def __init__(self, arr):
        self._a = arr

    def __getitem__(self, key):
        assert key == "nasset"
        return SimpleNamespace(values=self._a)


def mksetpv_fn(R, major, minor):
    def fn(eng):
        S.set_engine(eng)
        n2p = _n2p()
        f = rebind([n2p.mksetpv], dict(np=NPProxy()))["mksetpv"]
        rows = [_row(eng, "r%d" % i) for i in range(R)]
        arr = np.empty(R, dtype=object)
        for i, (_, x) in enumerate(rows):
            arr[i] = x
        inmaj = [z3.Or(_member(b, major), _user_member(x.e, major)) for b, x in rows]
        inmin = [z3.Or(_member(b, minor), _user_member(x.e, minor)) for b, x in rows]
        bad = z3.Or([z3.And(mi, z3.Not(ma)) for ma, mi in zip(inmaj, inmin)])
        obls = []
        try:
            pv = f(_StubUset(arr), major, minor)
        except ValueError:
            eng.tag("mksetpv-raise")
            obls.append(E.Obl("mksetpv(%s,%s) refuses only when minor is not inside major" % (major, minor), bad))
            return obls
        eng.tag("mksetpv-ok")
        obls.append(E.Obl("mksetpv(%s,%s) accepted => minor inside major" % (major, minor), z3.Not(bad)))
        obls.append(E.Obl("length == number of major-set rows", z3.Sum([z3.If(m_, 1, 0) for m_ in inmaj] + [z3.IntVal(0)]) == len(pv)))
        # k-th entry corresponds to the k-th major row (table order)
        for k in range(len(pv)):
            # the k-th major row is row i iff i in major and exactly k major rows precede it
            conds = []
            for i in range(R):
                before = z3.Sum([z3.If(inmaj[j], 1, 0) for j in range(i)] + [z3.IntVal(0)])
                conds.append(z3.Implies(z3.And(inmaj[i], before == k), inmin[i] == bool(pv[k])))
            obls.append(E.Obl("pv[%d] marks minor-set membership of the %d-th major row" % (k, k), z3.And(conds)))
        return obls
    return fn


def mkdofpv_fn(NR, NQ, mode):
    """mode: 'pairs' (2-D id/component requests), 'ids' (1-D ids -> 6 dof), 'packed' (123456-style)"""
    def fn(eng):
        S.set_engine(eng)
        n2p = _n2p()
        g = dict(n2p.mkdofpv.__globals__)
        g["np"] = NPProxy()
        exp = astload.load(n2p.expanddof, hooks=("astype",), globs=g)
        mk = astload.load(n2p.mkdofpv, hooks=("astype",), globs=g)
        uset = np.empty((NR, 2), dtype=object)
        ids, cps = [], []
        for i in range(NR):
            a, c = z3.Int("id%d" % i), z3.Int("cp%d" % i)
            lo_c = 1 if mode != "spoint" else 0
            eng.assume(z3.And(a >= 1, a <= 4, c >= lo_c, c <= 6))
            uset[i, 0], uset[i, 1] = S.SymI(a), S.SymI(c)
            ids.append(a)
            cps.append(c)
        for i in range(NR):
            for j in range(i):
                eng.assume(z3.Or(ids[i] != ids[j], cps[i] != cps[j]))      # a USET has no duplicate rows
        want = []   # requested (id, comp) pairs as z3 ints, in request order
        if mode == "pairs":
            dof = np.empty((NQ, 2), dtype=object)
            for q in range(NQ):
                a, c = z3.Int("qid%d" % q), z3.Int("qcp%d" % q)
                eng.assume(z3.And(a >= 1, a <= 4, c >= 1, c <= 6))
                dof[q, 0], dof[q, 1] = S.SymI(a), S.SymI(c)
                want.append((a, c))
        elif mode == "packed":
            dof = np.empty((NQ, 2), dtype=object)
            packs = [12, 246][:NQ]
            for q in range(NQ):
                a = z3.Int("qid%d" % q)
                eng.assume(z3.And(a >= 1, a <= 4))
                dof[q, 0], dof[q, 1] = S.SymI(a), packs[q]
                for ch in str(packs[q]):
                    want.append((a, z3.IntVal(int(ch))))
            eng.tag("expand-123456")
        else:
            dof = np.empty(NQ, dtype=object)
            for q in range(NQ):
                a = z3.Int("qid%d" % q)
                eng.assume(z3.And(a >= 1, a <= 4))
                dof[q] = S.SymI(a)
                for c in range(1, 7):
                    want.append((a, z3.IntVal(c)))
            eng.tag("expand-123456")
        present = [z3.Or([z3.And(ids[i] == a, cps[i] == c) for i in range(NR)]) for a, c in want]
        obls = []
        for strict in (True, False):
            try:
                pv, dout = mk(uset, "p", dof, strict=strict)
            except ValueError:
                obls.append(E.Obl("strict=%s: refuses only when a requested DOF is missing" % strict,
                                  z3.And(z3.Not(z3.And(present)), strict)))
                eng.tag("mkdofpv-missing")
                continue
            eng.tag("mkdofpv-found")
            pv = [int(x) for x in pv]
            if strict:
                obls.append(E.Obl("strict accepted => every requested DOF present", z3.And(present)))
                obls.append(E.Obl("strict: one position per request", len(pv) == len(want)))
                for k, (a, c) in enumerate(want[:len(pv)]):
                    obls.append(E.Obl("strict: position %d holds request %d" % (k, k), z3.And(ids[pv[k]] == a, cps[pv[k]] == c)))
                    obls.append(E.Obl("strict: dof_out[%d] is request %d" % (k, k),
                                      z3.And(S.lift(dout[k, 0]) == a, S.lift(dout[k, 1]) == c)))
            else:
                # the kept requests are exactly the present ones, in request order
                obls.append(E.Obl("non-strict: number kept == number present",
                                  z3.Sum([z3.If(p, 1, 0) for p in present] + [z3.IntVal(0)]) == len(pv)))
                for k in range(len(pv)):
                    conds = []
                    for q, (a, c) in enumerate(want):
                        before = z3.Sum([z3.If(present[j], 1, 0) for j in range(q)] + [z3.IntVal(0)])
                        conds.append(z3.Implies(z3.And(present[q], before == k),
                                                z3.And(ids[pv[k]] == a, cps[pv[k]] == c,
                                                       S.lift(dout[k, 0]) == a, S.lift(dout[k, 1]) == c)))
                    obls.append(E.Obl("non-strict: entry %d is the %d-th present request" % (k, k), z3.And(conds)))
        return obls
    return fn


# ---------------------------------------------------------------------------
def _ivec(eng, name, n, lo, hi):
    zs = [z3.Int("%s%d" % (name, i)) for i in range(n)]
    for z in zs:
        eng.assume(z3.And(z >= lo, z <= hi))
    arr = np.empty(n, dtype=object)
    for i, z in enumerate(zs):
        arr[i] = S.SymI(z)
    return zs, arr


def locate_fn(which, n):
    def fn(eng):
        S.set_engine(eng)
        import pyyeti.locate as L
        f = rebind([L.find_vals, L.find_duplicates, L.find_rows, L.index2bool, L.index2slice, L.flippv,
                    L.find_unique, L.list_intersect, L.merge_lists], dict(np=NPProxy()))
        eng.tag("locate")
        obls = []
        if which == "find_vals":
            mz, m = _ivec(eng, "m", n, 0, 3)
            vz, v = _ivec(eng, "v", 2, 0, 3)
            pv = f["find_vals"](m, v)
            for i in range(n):
                obls.append(E.Obl("find_vals pv[%d]" % i, z3.Or([mz[i] == x for x in vz]) == bool(pv[i])))
        elif which == "find_duplicates":
            vz = [z3.Real("y%d" % i) for i in range(n)]
            v = np.array([S.SymR(z) for z in vz], dtype=object)
            for tolz in (0.0, z3.Real("tol")):
                if not isinstance(tolz, float):
                    eng.assume(tolz >= 0)
                    tol = S.SymR(tolz)
                else:
                    tol = tolz
                d = f["find_duplicates"](v, tol)
                for i in range(n):
                    near = z3.Or([z3.And(vz[i] - vz[j] <= S.lift(tol), vz[j] - vz[i] <= S.lift(tol)) for j in range(n) if j != i])
                    obls.append(E.Obl("find_duplicates[%d] (tol %s)" % (i, "0" if isinstance(tolz, float) else "symbolic"), near == bool(d[i])))
        elif which == "find_rows":
            mz, m = _ivec(eng, "m", 2 * n, 0, 2)
            rz, r = _ivec(eng, "r", 2, 0, 2)
            pv = f["find_rows"](m.reshape(n, 2), r)
            for i in range(n):
                obls.append(E.Obl("find_rows[%d]" % i, z3.And(mz[2 * i] == rz[0], mz[2 * i + 1] == rz[1]) == bool(pv[i])))
        elif which == "flippv":
            N = n + 2
            pz, p = _ivec(eng, "p", n, 0, N - 1)
            out = f["flippv"](np.array([int(x) for x in p]), N)
            out = [int(x) for x in out]
            obls.append(E.Obl("flippv sorted", all(out[i] < out[i + 1] for i in range(len(out) - 1))))
            for k in range(N):
                obls.append(E.Obl("flippv complement %d" % k, z3.Not(z3.Or([z == k for z in pz])) == (k in out)))
            tf = f["index2bool"](np.array([int(x) for x in p]), N)
            for k in range(N):
                obls.append(E.Obl("index2bool %d" % k, z3.Or([z == k for z in pz]) == bool(tf[k])))
        elif which == "index2slice":
            N = 9
            pz, p = _ivec(eng, "p", n, 0, N - 1)
            pc = np.array([int(x) for x in p])
            base = np.arange(N) * 10
            r = f["index2slice"](pc)
            got = list(base[r])
            obls.append(E.Obl("index2slice reproduces pv indexing", got == list(base[pc])))
            if len(set(pc)) == len(pc) and n > 1 and len(set(np.diff(pc))) == 1 and np.diff(pc)[0] != 0:
                obls.append(E.Obl("evenly spaced vectors do become slices", isinstance(r, slice)))
                eng.tag("slice-made")
            try:
                r2 = f["index2slice"](pc, strict=True)
                obls.append(E.Obl("strict result is a slice", isinstance(r2, slice) and list(base[r2]) == list(base[pc])))
            except ValueError:
                obls.append(E.Obl("strict refuses only non-slice vectors", not isinstance(r, slice)))
        elif which == "find_unique":
            vz = [z3.Real("y%d" % i) for i in range(n)]
            v = np.array([S.SymR(z) for z in vz], dtype=object)
            pv = f["find_unique"](v, 0.25)
            obls.append(E.Obl("find_unique keeps first", bool(pv[0])))
            mx = z3.Real("mx")
            dif = [vz[i + 1] - vz[i] for i in range(n - 1)]
            ab = [z3.If(d >= 0, d, -d) for d in dif]
            eng.assume(z3.And([mx >= a for a in ab] + [z3.Or([mx == a for a in ab])]))
            for i in range(1, n):
                obls.append(E.Obl("find_unique[%d]" % i, (ab[i - 1] > mx / 4) == bool(pv[i])))
        elif which == "list_intersect":
            az, a = _ivec(eng, "a", n, 0, n)
            bz, b = _ivec(eng, "b", n, 0, n)
            for zs in (az, bz):
                eng.assume(z3.Distinct(zs))
            pv1, pv2 = f["list_intersect"](list(a), list(b))
            pv1, pv2 = [int(x) for x in pv1], [int(x) for x in pv2]
            obls.append(E.Obl("list_intersect pv1 ascending", all(pv1[i] < pv1[i + 1] for i in range(len(pv1) - 1))))
            for x, y in zip(pv1, pv2):
                obls.append(E.Obl("list_intersect pairs equal", az[x] == bz[y]))
            for i in range(n):
                obls.append(E.Obl("list_intersect finds a[%d] iff common" % i, z3.Or([az[i] == z for z in bz]) == (i in pv1)))
        elif which == "merge_lists":
            az, a = _ivec(eng, "a", n, 0, n + 1)
            bz, b = _ivec(eng, "b", n, 0, n + 1)
            for zs in (az, bz):
                eng.assume(z3.Distinct(zs))
            la, lb = list(a), list(b)
            merged, pv1, pv2 = f["merge_lists"](la, lb)
            mz = [S.lift(x) for x in merged]
            for i in range(n):
                obls.append(E.Obl("merged[pv1[%d]] == list1[%d]" % (i, i), mz[pv1[i]] == az[i]))
                obls.append(E.Obl("merged[pv2[%d]] == list2[%d]" % (i, i), mz[pv2[i]] == bz[i]))
            obls.append(E.Obl("list1 order preserved", all(pv1[i] < pv1[i + 1] for i in range(n - 1))))
            obls.append(E.Obl("merged has no duplicates", z3.Distinct(mz) if len(mz) > 1 else True))
            for x in mz:
                obls.append(E.Obl("merged element comes from an input", z3.Or([x == z for z in az + bz])))
            common = z3.Sum([z3.If(z3.Or([x == y for y in bz]), 1, 0) for x in az])
            obls.append(E.Obl("len(merged) == |union|", common == 2 * n - len(mz)))
        return obls
    return fn


# ---------------------------------------------------------------------------
# locate.mat_intersect: typed symbolic matrices; the byte-string row view becomes a totally ordered row key

class TArr(np.ndarray):
    """object array that reports an element type ('int64' / 'float64') as its dtype"""
    _dt = "float64"

    def __array_finalize__(self, obj):
        if obj is not None:
            self._dt = getattr(obj, "_dt", "float64")

    @property
    def dtype(self):
        return np.dtype(self._dt)


def _tarr(vals, dt):
    a = np.empty((len(vals), len(vals[0])), dtype=object)
    for i, row in enumerate(vals):
        for j, v in enumerate(row):
            a[i, j] = v
    t = a.view(TArr)
    t._dt = dt
    return t


class RowKey:
    """one row as the byte string would order it: a total order (lexicographic on the converted values here; the algorithm only
    needs sort and search to agree) whose equality is equality of every converted value"""
    __slots__ = ("v",)

    def __init__(self, v):
        self.v = v

    def _cmp(self, o):
        eng = S.eng()
        for a, b in zip(self.v, o.v):
            if eng.decide(a < b):
                return -1
            if eng.decide(a > b):
                return 1
        return 0

    def __lt__(self, o):
        return self._cmp(o) < 0

    def __gt__(self, o):
        return self._cmp(o) > 0

    def __le__(self, o):
        return self._cmp(o) <= 0

    def __ge__(self, o):
        return self._cmp(o) >= 0

    def __eq__(self, o):
        return self._cmp(o) == 0

    def __ne__(self, o):
        return self._cmp(o) != 0

    def __hash__(self):
        return id(self)


def _sx_bytes_view(arr, dtype):
    """np.ascontiguousarray(arr, dtype) followed by the byte view: float -> integer conversion truncates toward zero"""
    kind_to = np.dtype(dtype).kind
    kind_from = np.dtype(getattr(arr, "_dt", "float64")).kind
    a = np.asarray(arr)
    out = np.empty((a.shape[0], 1), dtype=object)
    for i in range(a.shape[0]):
        vals = []
        for x in a[i]:
            e = S.lift(x)
            if kind_to in "iu" and kind_from == "f":
                e = z3.If(e >= 0, z3.ToReal(z3.ToInt(e)), -z3.ToReal(z3.ToInt(-e)))
            elif e.sort() == z3.IntSort():
                e = z3.ToReal(e)
            vals.append(e)
        out[i, 0] = RowKey(vals)
    return out


class NPT(NPProxy):
    def array(self, a, dtype=None, **kw):
        if isinstance(a, TArr):
            return a
        return np.array(a, dtype=dtype, **kw)


def matint_fn(r1, r2, c, dt1, dt2):
    def fn(eng):
        S.set_engine(eng)
        import pyyeti.locate as L
        f = rebind([L.mat_intersect], dict(np=NPT(), _bytes_view=_sx_bytes_view))["mat_intersect"]
        info = dict(r1=r1, r2=r2, c=c, dt1=dt1, dt2=dt2)

        def mk(name, r, dt):
            zs, rows = [], []
            for i in range(r):
                zr, rr = [], []
                for j in range(c):
                    if dt == "int64":
                        z = z3.Int("%s%d_%d" % (name, i, j))
                        eng.assume(z3.And(z >= -2, z <= 2))
                        rr.append(S.SymI(z))
                        zr.append(z3.ToReal(z))
                    else:
                        z = z3.Real("%s%d_%d" % (name, i, j))
                        eng.assume(z3.And(z >= -2, z <= 2))
                        rr.append(S.SymR(z))
                        zr.append(z)
                zs.append(zr)
                rows.append(rr)
            return zs, _tarr(rows, dt)
        z1, D1 = mk("a", r1, dt1)
        z2, D2 = mk("b", r2, dt2)
        try:
            pv1, pv2 = f(D1, D2)
        except E.Inconclusive:
            raise
        except Exception as ex:
            import traceback
            return [E.Obl("mat_intersect raises %r (%s)" % (ex, traceback.format_exc()[-300:]), False, info=info)]
        eng.tag("mat-intersect-mixed" if dt1 != dt2 else "mat-intersect")
        pv1, pv2 = [int(x) for x in pv1], [int(x) for x in pv2]
        same = lambda i, j: z3.And([z1[i][k] == z2[j][k] for k in range(c)])
        obls = [E.Obl("mat_intersect: index vectors of equal length", len(pv1) == len(pv2), info=info)]
        for i, j in zip(pv1, pv2):
            obls.append(E.Obl("mat_intersect: D1[pv1] == D2[pv2] (row %d of D1, row %d of D2)" % (i, j), same(i, j), info=info))
        if r1 <= r2:
            for i in range(r1):
                obls.append(E.Obl("mat_intersect: row %d of D1 is reported iff it occurs in D2" % i, z3.Or([same(i, j) for j in range(r2)]) == (i in pv1), info=info))
        return obls
    return fn


def replay_matint(p):
    import pyyeti.locate as L
    a = p["args"]
    r1, r2, c, dt1, dt2 = a
    mdl = p["model"]
    g = lambda k: float(Fraction(mdl.get(k, 0) or 0))
    D1 = np.array([[g("a%d_%d" % (i, j)) for j in range(c)] for i in range(r1)]).astype(dt1)
    D2 = np.array([[g("b%d_%d" % (i, j)) for j in range(c)] for i in range(r2)]).astype(dt2)
    pv1, pv2 = L.mat_intersect(D1, D2)
    bad = [(int(i), int(j)) for i, j in zip(pv1, pv2) if not np.array_equal(D1[i], D2[j])]
    if bad:
        return True, "mat_intersect(%s, %s) pairs rows %s: %s != %s" % (D1.tolist(), D2.tolist(), bad[0], D1[bad[0][0]].tolist(), D2[bad[0][1]].tolist())
    if r1 <= r2:
        for i in range(r1):
            has = any(np.array_equal(D1[i], D2[j]) for j in range(r2))
            if has != (i in list(pv1)):
                return True, "mat_intersect(%s, %s): row %d of D1 %s" % (D1.tolist(), D2.tolist(), i, "is in D2 but not reported" if has else "reported but not in D2")
    return False, "mat_intersect fine on the real code"


def job(kind, *args, split_depth=None, roots=None):
    if kind == "lattice":
        fn = lattice_fn
    elif kind == "mksetpv":
        R, pairs = args
        res = None
        for major, minor in pairs:
            eng = E.Engine()
            r = eng.explore(mksetpv_fn(R, major, minor), max_cex=2)
            H.triage(r, "mksetpv", replay_mksetpv, lambda c, mj=major, mn=minor: dict(R=R, major=mj, minor=mn, model=c["model"]))
            res = r if res is None else _merge(res, r)
        res["note"] = "mksetpv R=%d, %d set pairs" % (R, len(pairs))
        return res
    elif kind == "mkdofpv":
        fn = mkdofpv_fn(*args)
    elif kind == "locate":
        fn = locate_fn(*args)
    elif kind == "makeuset":
        fn = makeuset_fn(*args)
    elif kind == "matint":
        fn = matint_fn(*args)
    eng = E.Engine()
    res = eng.explore(fn, max_cex=3, roots=roots, split_depth=split_depth)
    res["note"] = "%s %s" % (kind, args)
    if split_depth is not None and res["roots"]:
        rs = res.pop("roots")
        res["spawn"] = [("%s-%s-sub%d" % (kind, args, i), job, (kind,) + tuple(args), dict(roots=rs[i::24])) for i in range(24) if rs[i::24]]
    res["roots"] = []
    H.triage(res, kind, REPLAY[kind], lambda c: dict(args=list(args), layout=(args[0] if kind == "makeuset" else None), model=c["model"], labels=c["labels"]))
    return res


def _merge(a, b):
    E.merge(a, b)
    for k in ("violations", "known_hits", "unreproduced"):
        a[k] = a.get(k, []) + b.get(k, [])
    return a


# ---- replays ---------------------------------------------------------------
def _rowval(mdl, name):
    n2p = _n2p()
    masks = n2p.mkusetmask()
    b = int(mdl.get(name + "_base", 0) or 0)
    u = int(mdl.get(name + "_user", 0) or 0)
    return BASE[b], masks[BASE[b]] | u


def replay_lattice(p):
    n2p = _n2p()
    base, x = _rowval(p["model"], "r0")
    bad = []
    for sx in SETEXPRS:
        got = (x & n2p.mkusetmask(sx)) != 0
        want = any(base in HIER[s] for s in sx.split("+") if not s.startswith("u")) or any((x & n2p.mkusetmask(s)) != 0 for s in sx.split("+") if s.startswith("u"))
        if got != want:
            bad.append("DOF of base set '%s' (word %#x): in '%s' per bit mask = %s, per documented hierarchy = %s" % (base, x, sx, got, want))
    if sum((x & n2p.mkusetmask(s)) != 0 for s in BASE) != 1:
        bad.append("word %#x of base set '%s' matches %d base sets" % (x, base, sum((x & n2p.mkusetmask(s)) != 0 for s in BASE)))
    return (True, "; ".join(bad[:3])) if bad else (False, "lattice ok for %s" % base)


def replay_mksetpv(p):
    import pandas as pd
    n2p = _n2p()
    R = p["R"]
    rows = [_rowval(p["model"], "r%d" % i) for i in range(R)]
    uset = pd.DataFrame(dict(nasset=[x for _, x in rows]))
    mem = lambda base, x, sx: any(base in HIER[s] for s in sx.split("+") if not s.startswith("u")) or any((x & n2p.mkusetmask(s)) != 0 for s in sx.split("+") if s.startswith("u"))
    inmaj = [mem(b, x, p["major"]) for b, x in rows]
    inmin = [mem(b, x, p["minor"]) for b, x in rows]
    should_raise = any(mi and not ma for ma, mi in zip(inmaj, inmin))
    desc = "mksetpv(rows=%s, major=%r, minor=%r)" % ([b for b, _ in rows], p["major"], p["minor"])
    try:
        pv = n2p.mksetpv(uset, p["major"], p["minor"])
    except ValueError:
        return (not should_raise), desc + ": raised although minor is inside major"
    if should_raise:
        return True, desc + ": accepted although a minor-set DOF is outside the major set"
    want = [mi for ma, mi in zip(inmaj, inmin) if ma]
    if list(pv) != want:
        return True, desc + ": returned %s, expected %s" % (list(pv), want)
    return False, desc + " ok"


def replay_mkdofpv(p):
    n2p = _n2p()
    NR, NQ, mode = p["args"]
    mdl = p["model"]
    gi = lambda k, d=1: int(mdl.get(k, d) or d)
    uset = np.array([[gi("id%d" % i), gi("cp%d" % i)] for i in range(NR)])
    if mode == "pairs":
        dof = np.array([[gi("qid%d" % q), gi("qcp%d" % q)] for q in range(NQ)])
        want = [tuple(r) for r in dof]
    elif mode == "packed":
        packs = [12, 246][:NQ]
        dof = np.array([[gi("qid%d" % q), packs[q]] for q in range(NQ)])
        want = [(gi("qid%d" % q), int(ch)) for q in range(NQ) for ch in str(packs[q])]
    else:
        dof = np.array([gi("qid%d" % q) for q in range(NQ)])
        want = [(gi("qid%d" % q), c) for q in range(NQ) for c in range(1, 7)]
    rows = [tuple(r) for r in uset]
    bad = []
    for strict in (True, False):
        present = [w in rows for w in want]
        try:
            pv, dout = n2p.mkdofpv(uset, "p", dof, strict=strict)
        except ValueError:
            if not strict or all(present):
                bad.append("strict=%s raised although %s" % (strict, "all requested DOF exist" if all(present) else "non-strict"))
            continue
        exp = [w for w, pr in zip(want, present) if pr] if not strict else want
        if strict and not all(present):
            bad.append("strict accepted although %s is missing" % [w for w, pr in zip(want, present) if not pr])
            continue
        got = [rows[i] for i in pv]
        if got != exp or [tuple(r) for r in dout] != exp:
            bad.append("strict=%s: positions %s hold %s, expected %s" % (strict, list(pv), got, exp))
    desc = "mkdofpv(uset rows %s, dof %s)" % (rows, dof.tolist())
    return (True, desc + ": " + "; ".join(bad)) if bad else (False, desc + " ok")


def replay_locate(p):
    import pyyeti.locate as L
    which, n = p["args"]
    mdl = p["model"]
    gi = lambda k: int(mdl.get(k, 0) or 0)
    gf = lambda k: float(mdl.get(k, 0) or 0)
    bad = None
    if which == "find_vals":
        m = [gi("m%d" % i) for i in range(n)]
        v = [gi("v%d" % i) for i in range(2)]
        got = list(L.find_vals(m, v))
        if got != [x in v for x in m]:
            bad = "find_vals(%s, %s) = %s" % (m, v, got)
    elif which == "find_duplicates":
        y = [gf("y%d" % i) for i in range(n)]
        for tol in (0.0, gf("tol")):
            got = list(L.find_duplicates(y, tol))
            want = [any(abs(y[i] - y[j]) <= tol for j in range(n) if j != i) for i in range(n)]
            if got != want:
                bad = "find_duplicates(%s, %s) = %s, expected %s" % (y, tol, got, want)
    elif which == "find_rows":
        m = np.array([gi("m%d" % i) for i in range(2 * n)]).reshape(n, 2)
        r = [gi("r0"), gi("r1")]
        got = list(L.find_rows(m, r))
        if got != [list(x) == r for x in m]:
            bad = "find_rows(%s, %s) = %s" % (m.tolist(), r, got)
    elif which == "flippv":
        N = n + 2
        pv = [gi("p%d" % i) for i in range(n)]
        got = list(L.flippv(pv, N))
        if got != [k for k in range(N) if k not in pv]:
            bad = "flippv(%s, %d) = %s" % (pv, N, got)
        if list(L.index2bool(pv, N)) != [k in pv for k in range(N)]:
            bad = "index2bool(%s, %d) wrong" % (pv, N)
    elif which == "index2slice":
        pv = np.array([gi("p%d" % i) for i in range(n)])
        base = np.arange(9) * 10
        r = L.index2slice(pv)
        if list(base[r]) != list(base[pv]):
            bad = "index2slice(%s) = %s selects %s" % (pv.tolist(), r, list(base[r]))
    elif which == "find_unique":
        y = [gf("y%d" % i) for i in range(n)]
        got = list(L.find_unique(y, 0.25))
        d = np.abs(np.diff(y))
        want = [True] + list(d > 0.25 * d.max())
        if got != want:
            bad = "find_unique(%s, .25) = %s expected %s" % (y, got, want)
    elif which == "list_intersect":
        a = [gi("a%d" % i) for i in range(n)]
        b = [gi("b%d" % i) for i in range(n)]
        pv1, pv2 = L.list_intersect(a, b)
        want1 = [i for i in range(n) if a[i] in b]
        if list(pv1) != want1 or [a[i] for i in pv1] != [b[j] for j in pv2]:
            bad = "list_intersect(%s, %s) = %s, %s" % (a, b, list(pv1), list(pv2))
    elif which == "merge_lists":
        a = [gi("a%d" % i) for i in range(n)]
        b = [gi("b%d" % i) for i in range(n)]
        m, pv1, pv2 = L.merge_lists(a, b)
        if [m[i] for i in pv1] != a or [m[i] for i in pv2] != b or sorted(m) != sorted(set(a) | set(b)) or list(pv1) != sorted(pv1):
            bad = "merge_lists(%s, %s) = %s, %s, %s" % (a, b, m, pv1, pv2)
    return (True, bad) if bad else (False, "%s ok" % which)


# ---------------------------------------------------------------------------
# make_uset: every DOF of the table carries the set word given for it (compact GRID rows, GRIDs given as six explicit
# rows, scalar points), whatever the words are

MU_LAYOUTS = {
    # rows of (id, dof code): 123456 = compact GRID, 1..6 = explicit GRID rows, 0 = SPOINT
    "compact-expanded-spoint": [(1, 123456), (2, 1), (2, 2), (2, 3), (2, 4), (2, 5), (2, 6), (3, 0)],
    "expanded-first": [(7, 1), (7, 2), (7, 3), (7, 4), (7, 5), (7, 6), (8, 0), (9, 123456), (10, 0)],
    "two-expanded": [(4, 1), (4, 2), (4, 3), (4, 4), (4, 5), (4, 6), (5, 1), (5, 2), (5, 3), (5, 4), (5, 5), (5, 6), (6, 123456)],
}


def _mu_expected(layout, words):
    out = []
    for (i, code), w in zip(layout, words):
        if code == 123456:
            out += [(i, d, w) for d in range(1, 7)]
        else:
            out.append((i, code, w))
    return out


def makeuset_fn(name):
    def fn(eng):
        S.set_engine(eng)
        from vsym import astload
        n2p = _n2p()
        import pandas as _pd

        class PD:
            """pandas, except that the `nasset` column of a new table is created with dtype object so that it can hold symbolic words"""
            MultiIndex = _pd.MultiIndex

            @staticmethod
            def DataFrame(*a, **k):
                df = _pd.DataFrame(*a, **k)
                if "nasset" in df.columns:
                    df["nasset"] = df["nasset"].astype(object)
                return df
        f = astload.load(n2p.make_uset, hooks=("astype",), extra=dict(pd=PD))
        layout = MU_LAYOUTS[name]
        ws = [z3.Int("w%d" % k) for k in range(len(layout))]
        for w in ws:
            eng.assume(z3.And(w >= 1, w < 2 ** 31))
        nasset = np.empty(len(layout), dtype=object)
        for k, w in enumerate(ws):
            nasset[k] = S.SymI(w)
        info = dict(layout=name)
        try:
            import warnings
            with warnings.catch_warnings():
                warnings.simplefilter("ignore")
                df = f(np.array(layout), nasset)
        except E.Inconclusive:
            raise
        except Exception as ex:
            import traceback
            return [E.Obl("make_uset raises %r (%s)" % (ex, traceback.format_exc()[-300:]), False, info=info)]
        eng.tag("make-uset")
        want = _mu_expected(layout, ws)
        obls = [E.Obl("make_uset: one row per DOF, in input order (%s)" % (list(df.index)[:8],), [tuple(int(v) for v in ix) for ix in df.index] == [(i, d) for i, d, _ in want], info=info)]
        if len(df) != len(want):
            return obls
        for k, (i, d, w) in enumerate(want):
            obls.append(E.Obl("make_uset: DOF %d of id %d carries the set word given for it" % (d, i), S.lift(df.iloc[k, 0]) == w, info=info))
        return obls
    return fn


def replay_makeuset(p):
    n2p = _n2p()
    layout = MU_LAYOUTS[p["layout"]]
    mdl = p["model"]
    # distinct base-set words where the model leaves them equal or free
    base = [2097154, 4194304, 2, 4, 1024, 1, 256, 512, 64, 2048, 8, 16, 32]
    words = []
    for k in range(len(layout)):
        v = mdl.get("w%d" % k)
        words.append(int(v) if v is not None and int(v) not in words else base[k % len(base)] + (k // len(base)))
    df = n2p.make_uset(np.array(layout), np.array(words))
    want = _mu_expected(layout, words)
    got = [(int(i), int(d), int(w)) for (i, d), w in zip(df.index, df["nasset"].values)]
    if got != want:
        bad = [(a, b) for a, b in zip(got, want) if a != b][:3]
        return True, "make_uset(%s, nasset=%s): (id, dof, set word) rows differ from the assignment, e.g. got %s for %s" % (layout, words, bad[0][0] if bad else got, bad[0][1] if bad else want)
    return False, "make_uset fine on the real code"


REPLAY = {"matint": replay_matint, "makeuset": replay_makeuset, "lattice": replay_lattice, "mksetpv": replay_mksetpv, "mkdofpv": replay_mkdofpv, "locate": replay_locate}


def jobs(tier, seed):
    q = tier == "quick"
    out = [H.Job("lattice", job, "lattice", weight=1)] + [H.Job("make-uset-%s" % nm, job, "makeuset", nm, weight=3) for nm in MU_LAYOUTS]
    sets = ["p", "g", "n", "f", "a", "t", "l", "b", "q", "m", "s", "o", "r", "c", "e", "a+o", "b+m", "u1", "q+u2"]
    pairs = [(a, b) for a in sets for b in sets if a != b]
    if q:
        pairs = pairs[seed % 5::5]
    chunks = [pairs[i::14] for i in range(14)]
    for i, ch in enumerate(chunks):
        out.append(H.Job("mksetpv-%d" % i, job, "mksetpv", 2 if q else 3, ch, weight=len(ch)))
    out.append(H.Job("mksetpv-3rows", job, "mksetpv", 3, [("a", "b"), ("g", "a"), ("f", "q+o"), ("b", "a"), ("n", "m")], weight=30))
    out.append(H.Job("mkdofpv-pairs", job, "mkdofpv", 3, 2, "pairs", split_depth=6, weight=80))
    out.append(H.Job("mkdofpv-ids", job, "mkdofpv", 3, 1, "ids", split_depth=6, weight=40))
    out.append(H.Job("mkdofpv-packed", job, "mkdofpv", 3, 2, "packed", split_depth=6, weight=60))
    if not q:
        out.append(H.Job("mkdofpv-pairs-4x2", job, "mkdofpv", 4, 2, "pairs", split_depth=7, weight=300))
        out.append(H.Job("mkdofpv-pairs-3x3", job, "mkdofpv", 3, 3, "pairs", split_depth=7, weight=300))
    for a in [(2, 2, 2, "float64", "int64"), (2, 3, 1, "int64", "float64"), (2, 2, 2, "int64", "int64")] + ([] if q else [(2, 3, 2, "float64", "int64"), (3, 3, 1, "float64", "float64")]):
        out.append(H.Job("matint-%d-%d-%d-%s-%s" % a, job, "matint", *a, split_depth=6, weight=60))
    for which, n in (("find_vals", 3), ("find_duplicates", 3), ("find_rows", 3), ("flippv", 3), ("index2slice", 3),
                     ("find_unique", 4), ("list_intersect", 3), ("merge_lists", 3)):
        out.append(H.Job("locate-%s" % which, job, "locate", which, n, weight=20))
        if not q:
            out.append(H.Job("locate-%s-big" % which, job, "locate", which, n + 1, split_depth=8, weight=100))
    return out


def extra_coverage(results):
    import pyyeti.locate as L
    n2p = _n2p()
    fns = [L.mat_intersect, n2p.make_uset, n2p.mkusetmask, n2p.mksetpv, n2p.mkdofpv, n2p.expanddof, L.find_vals, L.find_duplicates, L.find_rows, L.index2bool,
           L.index2slice, L.flippv, L.find_unique, L.list_intersect, L.merge_lists]
    return dict(functions_encoded=[H.fn_id(f) for f in fns], ast_hook_hits={"%s:%s" % k: v for k, v in astload.HITS.items()})
