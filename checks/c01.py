"""C01 - exact time-domain solvers (SolveUnc, SolveExp2, SolveExp1) equal the
closed-form solution for every force history / initial condition, on a grid of
systems that straddles every regime switch of the coefficient formulas, and for
every option combination that does not change the mathematics.

The solvers' own tsolve code runs on symbolic force histories and initial
conditions (object arrays); the constructors run concretely.  Reference: exact
one-step operator from an 80-digit mpmath matrix exponential (van Loan).
"""
import itertools
import time
from fractions import Fraction

import numpy as np
import z3

from vsym import sym as S
from vsym import engine as E
from vsym import harness as H
from vsym import odekit as O
from vsym.linform import coeff_norm1

PID = "C01"
RTOL = 1e-9
KF_CRIT = "C01-critical-window"

META = dict(
    level="other",
    stubs=["np.zeros/empty -> object arrays (pyyeti.ode modules)",
           "scipy.linalg.lu_solve / np.linalg.solve with a concrete matrix and symbolic rhs -> multiplication by the concrete inverse"],
    bounds=dict(quick="14 base systems (n <= 4) x up to 14 option variants x order {0,1} x IC style {d0/v0, static_ic, zero}; nt = 3; data in [-1,1]",
                thorough="34 base systems x all variants x order {0,1} x 3 IC styles; nt = 4"),
    outside=["systems between grid points (coefficients are exp/sin/cos/eig of the parameters: NRA probe inconclusive, DESIGN 4)",
             "IEEE rounding inside the concrete coefficient computation beyond the 1e-9 relative tolerance",
             "complex-valued m, b, k in the time domain", "w*h < 1e-2 for SolveUnc's uncoupled path"],
    assumptions=["tolerance per entry: 1e-9 x (1-norm of the reference linear form over the input box); 1e-3 for rigid-body modes whose "
                 "damping lies below the documented cut-offs (treated as undamped by design)"],
    reach_required=["under", "critical", "over", "rb-undamped", "rb-damped", "rb-damped-velocity-only", "rf", "coupled", "pre_eig",
                    "static_ic-nonzero", "order0", "order1", "SolveExp1", "SolveExp2", "SolveUnc"],
)


# ---------------------------------------------------------------------------
def _zeta(m, k, z):
    return 2 * np.asarray(z) * np.sqrt(np.asarray(k, float) / np.asarray(m, float)) * np.asarray(m, float)


def base_systems(tier):
    """name -> dict(m, b, k, h, rb, rf, tags).  m/b/k diagonal (1-D) or full."""
    q = tier == "quick"
    G = {}
    h = 0.01
    m4 = np.array([1.0, 2.0, 3.0, 1.0])
    k4 = np.array([100.0, 400.0, 900.0, 250.0])
    G["diag-under-crit-over"] = dict(m=m4, k=k4, b=_zeta(m4, k4, [0.02, 1.0, 2.5, 0.5]), h=h)
    # both sides of the |rat| < 1e-8 switch, inside the window (known finding) and w*h >= 1e-2 outside
    mk = np.array([1.0, 1.0]); kk = np.array([250.0, 1.0e6])
    G["diag-nearcrit-inside-window"] = dict(m=mk, k=kk, b=_zeta(mk, kk, [1 - 4e-9, 1 + 4e-9]), h=h)
    G["diag-nearcrit-outside-window"] = dict(m=mk, k=np.array([4.0e6, 4.0e6]), b=_zeta(mk, [4.0e6, 4.0e6], [1 - 2e-5, 1 + 2e-5]), h=h)
    # rigid-body modes: undamped, damped above both cut-offs, between, below
    m3 = np.array([2.0, 1.0, 1.5])
    G["rb-undamped+el"] = dict(m=m3, k=np.array([0.0, 0.0, 300.0]), b=np.array([0.0, 0.0, 1.2]), h=h)
    G["rb-damped+el"] = dict(m=m3, k=np.array([0.0, 0.0, 300.0]), b=np.array([2.0, 0.12, 1.2]), h=h)
    G["rb-damped-velocity-only"] = dict(m=np.array([1.0, 1.0]), k=np.array([0.0, 500.0]), b=np.array([0.02, 2.0]), h=h)
    G["rb+el+rf"] = dict(m=m3, k=np.array([0.0, 300.0, 4.0e5]), b=np.array([0.0, 1.0, 10.0]), h=h, rf=[2])
    # coupled
    mc = np.array([[2.0, 0.5], [0.5, 3.0]]); kc = np.array([[50.0, -20.0], [-20.0, 40.0]])
    G["coupled-2"] = dict(m=mc, k=kc, b=0.02 * kc + 0.1 * mc, h=h)
    kc3 = np.array([[300.0, -100.0, 0.0], [-100.0, 500.0, -50.0], [0.0, -50.0, 900.0]])
    mc3 = np.array([[2.0, 0.2, 0.0], [0.2, 3.0, 0.1], [0.0, 0.1, 1.5]])
    bc3 = np.array([[0.9, 0.1, 0.0], [0.1, 2.0, 0.5], [0.0, 0.5, 4.0]])
    G["coupled-3"] = dict(m=mc3, k=kc3, b=bc3, h=h)
    G["coupled-damping-only"] = dict(m=np.array([1.0, 1.0, 1.0]), k=np.array([0.0, 300.0, 900.0]),
                                     b=np.array([[0.0, 0.0, 0.0], [0.0, 2.0, 0.5], [0.0, 0.5, 4.0]]), h=h)
    G["coupled-rf"] = dict(m=np.array([2.0, 3.0, 1.5]), k=np.array([200.0, 300.0, 4.0e5]),
                           b=np.array([[1.0, 0.3, 0.0], [0.3, 2.0, 0.0], [0.0, 0.0, 5.0]]), h=h, rf=[2])
    # step-size sweep on one oscillator pair: w*h = 1e-2 ... 10
    G["wh-1e-2"] = dict(m=np.array([1.0, 1.0]), k=np.array([1.0, 4.0]), b=np.array([0.04, 0.4]), h=0.01)
    G["wh-10"] = dict(m=np.array([1.0, 1.0]), k=np.array([1.0e4, 4.0e4]), b=np.array([4.0, 40.0]), h=0.1)
    if not q:
        G["diag-crit-exact-2"] = dict(m=np.array([2.0, 0.5]), k=np.array([800.0, 50.0]), b=_zeta([2.0, 0.5], [800.0, 50.0], [1.0, 1.0]), h=h)
        G["diag-heavily-over"] = dict(m=np.array([1.0, 1.0]), k=np.array([100.0, 2500.0]), b=_zeta([1, 1], [100.0, 2500.0], [50.0, 10.0]), h=h)
        G["diag-undamped"] = dict(m=np.array([1.0, 3.0]), k=np.array([400.0, 2700.0]), b=np.array([0.0, 0.0]), h=h)
        G["diag-nearcrit-1e-6"] = dict(m=mk, k=np.array([1.0e8, 1.0e8]), b=_zeta(mk, [1.0e8, 1.0e8], [1 - 5e-7, 1 + 5e-7]), h=h)
        G["rb-below-cutoffs"] = dict(m=np.array([1.0, 1.0]), k=np.array([0.0, 500.0]), b=np.array([1.0e-4, 2.0]), h=h)
        G["rb-just-above-disp-cutoff"] = dict(m=np.array([1.0, 1.0]), k=np.array([0.0, 500.0]), b=np.array([0.05, 2.0]), h=h)
        G["rb-negative-damping"] = dict(m=np.array([1.0, 1.0]), k=np.array([0.0, 500.0]), b=np.array([-0.5, 2.0]), h=h)
        G["rb-only"] = dict(m=np.array([2.0, 4.0]), k=np.array([0.0, 0.0]), b=np.array([0.0, 0.0]), h=h)
        G["rf-only"] = dict(m=np.array([1.0, 1.0]), k=np.array([3.0e5, 5.0e5]), b=np.array([1.0, 1.0]), h=h, rf=[0, 1])
        G["el-k-just-above-rb-threshold"] = dict(m=np.array([1.0, 1.0]), k=np.array([0.006, 2.0]), b=np.array([0.001, 0.05]), h=1.0)
        G["wh-0.1"] = dict(m=np.array([1.0, 1.0]), k=np.array([100.0, 400.0]), b=np.array([0.4, 4.0]), h=0.01)
        G["wh-1"] = dict(m=np.array([1.0, 1.0]), k=np.array([100.0, 400.0]), b=np.array([0.4, 4.0]), h=0.1)
        G["wh-30-stiff"] = dict(m=np.array([1.0, 1.0]), k=np.array([9.0e4, 100.0]), b=np.array([6.0, 0.2]), h=0.1)
        G["coupled-2-heavy-damping"] = dict(m=mc, k=kc, b=np.array([[30.0, 4.0], [4.0, 50.0]]), h=h)
        G["coupled-3-mNone"] = dict(m=None, k=kc3, b=bc3, h=h)
        G["coupled-3-h0.1"] = dict(m=mc3, k=kc3, b=bc3, h=0.1)
        G["coupled-rb-modal"] = dict(m=None, k=np.array([[0.0, 0, 0], [0, 300.0, -40.0], [0, -40.0, 700.0]]),
                                     b=np.array([[0.0, 0, 0], [0, 2.0, 0.5], [0, 0.5, 4.0]]), h=h)
        G["coupled-nonsym-damping"] = dict(m=np.array([1.0, 2.0]), k=np.array([[300.0, -50.0], [-50.0, 500.0]]),
                                           b=np.array([[1.0, 0.8], [-0.3, 2.0]]), h=h)
        G["coupled-4"] = dict(m=np.diag([1.0, 2.0, 1.5, 1.0]) + 0.05, k=np.array([[400.0, -100, 0, 0], [-100, 500.0, -80, 0], [0, -80, 600.0, -60], [0, 0, -60, 300.0]]),
                              b=np.diag([1.0, 2.0, 1.0, 0.5]) + 0.1, h=h)
        G["diag-4-mixed-h0.05"] = dict(m=m4, k=k4, b=_zeta(m4, k4, [0.0, 0.3, 1.0, 4.0]), h=0.05)
    return G


def _classify(sysd):
    """tags + per-row tolerance class from the documented regime rules"""
    M, B, K = O.full(sysd["m"], sysd["b"], sysd["k"])
    n = K.shape[0]
    h = sysd["h"]
    rf = list(sysd.get("rf") or [])
    tags = set()
    rowclass = ["std"] * n
    diag = all(np.ndim(sysd[x]) <= 1 for x in ("b", "k")) and (sysd["m"] is None or np.ndim(sysd["m"]) == 1)
    if diag:
        for i in range(n):
            if i in rf:
                tags.add("rf")
                continue
            wo2 = K[i, i] / M[i, i]
            C = B[i, i] / M[i, i] / 2
            if wo2 < 0.005:
                if abs(C) > 1e-5 / np.sqrt(h):
                    if abs(C) > 10 * (1e-10 / h) ** (1 / 3):
                        tags.add("rb-damped")
                        # closed-form damped rigid-body coefficients lose (beta h)^-3 digits
                        # to cancellation (the documented reason for the cut-off)
                        rowclass[i] = float(min(1e-3, max(RTOL, 1e-15 / abs(2 * C * h) ** 3)))
                    else:
                        tags.add("rb-damped-velocity-only")
                        # damping enters the velocity recurrence exactly; only the displacement
                        # coefficients ignore it (the documented 1e-3 cut-off accuracy)
                        rowclass[i] = dict(d=1e-3, v=1e-7, a=1e-7)
                elif C != 0:
                    rowclass[i] = 1e-3
                    tags.add("rb-damping-ignored")
                else:
                    tags.add("rb-undamped")
            else:
                rat = (wo2 - C * C) / wo2
                if rat >= 1e-8:
                    tags.add("under")
                elif rat <= -1e-8:
                    tags.add("over")
                else:
                    tags.add("critical")
                    if rat != 0:
                        rowclass[i] = "crit-window"
                        tags.add("critical-window-inexact")
    else:
        tags.add("coupled")
        if rf:
            tags.add("rf")
    return tags, rowclass


def variants(name, sysd, tier):
    """option combinations that do not change the mathematical problem"""
    m, b, k, h = sysd["m"], sysd["b"], sysd["k"], sysd["h"]
    rf = sysd.get("rf")
    M, B, K = O.full(m, b, k)
    n = K.shape[0]
    any2d = any(x is not None and np.ndim(x) == 2 for x in (m, b, k))
    diagm = m is None or np.ndim(m) == 1
    kdiag = np.ndim(k) == 1
    V = []
    ident = np.arange(n)

    def add(vname, cls, vm, vb, vk, kw=None, perm=None, fscale=None):
        V.append(dict(vname=vname, cls=cls, m=vm, b=vb, k=vk, kw=kw or {}, perm=ident if perm is None else perm, fscale=fscale))

    rfkw = dict(rf=rf) if rf else {}
    for cls in ("SolveUnc", "SolveExp2"):
        add(cls + ":as-given", cls, m, b, k, dict(rfkw))
        if m is not None and diagm:
            add(cls + ":m-2d", cls, np.diag(m), b, k, dict(rfkw))
            mm = np.asarray(m, float)
            add(cls + ":m-None-equivalent", cls, None,
                (b / mm if np.ndim(b) == 1 else B / mm[:, None]),
                (k / mm if np.ndim(k) == 1 else K / mm[:, None]), dict(rfkw), fscale=1 / mm)
        if np.ndim(b) == 1:
            add(cls + ":b-2d", cls, m, np.diag(b), k, dict(rfkw))
        # explicit rigid-body set (what auto-detection finds)
        if kdiag and np.ndim(b) == 1:
            wo2 = np.diag(K) / np.diag(M)
            rbset = [i for i in range(n) if wo2[i] < 0.005 and not (rf and i in rf)]
            add(cls + ":rb-explicit", cls, m, b, k, dict(rfkw, rb=rbset))
        # interleaved order (reverse the DOF order)
        p = ident[::-1].copy()
        pm = None if m is None else (m[p] if np.ndim(m) == 1 else m[np.ix_(p, p)])
        pb = b[p] if np.ndim(b) == 1 else b[np.ix_(p, p)]
        pk = k[p] if np.ndim(k) == 1 else k[np.ix_(p, p)]
        prf = dict(rf=[int(np.nonzero(p == i)[0][0]) for i in rf]) if rf else {}
        add(cls + ":reordered", cls, pm, pb, pk, prf, perm=p)
        # modal pre-transformation (needs symmetric k, spd m; rf indices refer to modal space -> skip with rf)
        if any2d and not rf and np.allclose(K, K.T) and np.allclose(M, M.T):
            add(cls + ":pre_eig", cls, m, b, k, dict(pre_eig=True))
        elif not any2d and not rf and tier == "thorough":
            add(cls + ":pre_eig-k2d", cls, m, b, np.diag(k), dict(pre_eig=True))
    if not rf and np.linalg.matrix_rank(K) == n:
        add("SolveExp1:make_A", "SolveExp1", m, b, k)
    if name.startswith("coupled-damping-only") or name == "coupled-rf":
        add("SolveUnc:cd_as_force-not-exact", None, None, None, None)   # placeholder: approximate solver, belongs to C17
        V.pop()
    return V


def _build(v, h, order):
    from pyyeti import ode
    if v["cls"] == "SolveExp1":
        A = ode.make_A(v["m"], v["b"], v["k"])
        return ode.SolveExp1(A, h, order=order)
    cls = getattr(ode, v["cls"])
    return cls(v["m"], v["b"], v["k"], h, order=order, **v["kw"])


def _static_d0(K, rb, rf, F0z):
    """reference static initial displacement: elastic part of K d = F0, rb -> 0"""
    import mpmath as mp
    n = K.shape[0]
    el = [i for i in range(n) if i not in rb and i not in rf]
    d0 = [z3.RealVal(0)] * n
    if el:
        mp.mp.dps = 60
        Ki = mp.matrix([[K[i, j] for j in el] for i in el]) ** -1
        for a, i in enumerate(el):
            d0[i] = z3.Sum([z3.RealVal(O._toQ(Ki[a, c])) * F0z[el[c]] for c in range(len(el))])
    return d0


def _reference(M, B, K, h, order, rf, Fz, rd0, rv0, nt):
    import mpmath as mp
    n = K.shape[0]
    refD, refV = O.ref_solution(M, B, K, h, order, rf, Fz, rd0, rv0, nt)
    dyn = [i for i in range(n) if i not in rf]
    mp.mp.dps = 60
    Mi = mp.matrix([[M[i, j] for j in dyn] for i in dyn]) ** -1 if dyn else None
    refA = [[z3.RealVal(0)] * nt for _ in range(n)]
    for j in range(nt):
        res = {i: Fz[i][j] - z3.Sum([z3.RealVal(Fraction(float(B[i, q]))) * refV[q][j] + z3.RealVal(Fraction(float(K[i, q]))) * refD[q][j]
                                     for q in dyn]) for i in dyn}
        for a_, i in enumerate(dyn):
            refA[i][j] = z3.Sum([z3.RealVal(O._toQ(Mi[a_, c])) * res[dyn[c]] for c in range(len(dyn))])
    return refD, refV, refA


def _rbset(sysd):
    M, B, K = O.full(sysd["m"], sysd["b"], sysd["k"])
    n = K.shape[0]
    rf = list(sysd.get("rf") or [])
    tol = 0.005
    out = []
    diag = np.ndim(sysd["k"]) == 1 and np.ndim(sysd["b"]) == 1 and (sysd["m"] is None or np.ndim(sysd["m"]) == 1)
    for i in range(n):
        if i in rf:
            continue
        if diag:
            if abs(K[i, i]) < tol * (1 if sysd["m"] is None else 1):   # SolveUnc tests k (not k/m) < tol
                out.append(i)
        else:
            if abs(K[i]).max() < tol and abs(K[:, i]).max() < tol and abs(B[i]).max() < tol and abs(B[:, i]).max() < tol:
                out.append(i)
    return out


def path_fn(name, sysd, tier, order, ic, nt, vsel=None):
    M, B, K = O.full(sysd["m"], sysd["b"], sysd["k"])
    n = K.shape[0]
    h = sysd["h"]
    rf = list(sysd.get("rf") or [])
    tags, rowclass = _classify(sysd)
    Fz = O.zmat("F", n, nt)
    d0z = O.zvec("d0", n)
    v0z = O.zvec("v0", n)
    kf_on = H.finding_listed(KF_CRIT)

    def fn(eng):
        S.set_engine(eng)
        for t in tags:
            eng.tag(t)
        eng.tag("order%d" % order)
        # reference
        if ic == "dv":
            rd0, rv0 = d0z, v0z
        elif ic == "static":
            rd0, rv0 = _static_d0(K, _rbset(sysd), rf, [Fz[i][0] for i in range(n)]), [z3.RealVal(0)] * n
        else:
            rd0, rv0 = [z3.RealVal(0)] * n, [z3.RealVal(0)] * n
        refD, refV, refA = _reference(M, B, K, h, order, rf, Fz, rd0, rv0, nt)
        # natural magnitude of each row/quantity: the generic (d0, v0) reference,
        # whose terms do not cancel (floor for the tolerance, see assumptions)
        gD, gV, gA = _reference(M, B, K, h, order, rf, Fz, d0z, v0z, nt)
        rowscale = dict(d=[max(coeff_norm1(t) for t in gD[i]) for i in range(n)],
                        v=[max(coeff_norm1(t) for t in gV[i]) for i in range(n)],
                        a=[max(coeff_norm1(t) for t in gA[i]) for i in range(n)])
        obls = []
        for v in variants(name, sysd, tier):
            if vsel is not None and v["vname"] != vsel:
                continue
            if ic == "static" and v["cls"] == "SolveExp1":
                continue
            O.NP.sym = False
            try:
                ts = _build(v, h, order)
            except Exception as ex:
                obls.append(E.Obl("%s: constructor raised %r" % (v["vname"], ex), False))
                continue
            eng.tag(v["cls"])
            if v["kw"].get("pre_eig"):
                eng.tag("pre_eig")
            p = v["perm"]
            fs = v["fscale"]
            F = np.empty((n, nt), dtype=object)
            for i in range(n):
                for j in range(nt):
                    t = Fz[p[i]][j]
                    F[i, j] = S.SymR(t * Fraction(float(fs[p[i]])) if fs is not None else t)
            O.NP.sym = True
            try:
                if v["cls"] == "SolveExp1":
                    # y = [v; d], w = [M^-1 F; 0]
                    Mi_ = np.linalg.inv(M)
                    w = np.empty((2 * n, nt), dtype=object)
                    w.fill(0.0)
                    w[:n] = Mi_ @ O.sarr(Fz)
                    y0 = np.empty(2 * n, dtype=object)
                    for i in range(n):
                        y0[i] = S.SymR(rv0[i])
                        y0[n + i] = S.SymR(rd0[i])
                    sol = ts.tsolve(w, y0)
                    got = dict(d=sol.d[n:], v=sol.d[:n], a=sol.v[:n])
                else:
                    kw = {}
                    if ic == "dv":
                        kw = dict(d0=O.sarr([d0z[p[i]] for i in range(n)]), v0=O.sarr([v0z[p[i]] for i in range(n)]))
                    elif ic == "static":
                        kw = dict(static_ic=True)
                    sol = ts.tsolve(F, **kw)
                    got = dict(d=sol.d, v=sol.v, a=sol.a)
            except Exception as ex:
                obls.append(E.Obl("%s: tsolve raised %r" % (v["vname"], ex), False))
                continue
            finally:
                O.NP.sym = False
            if ic == "static" and eng._check(z3.Or([Fz[i][0] != 0 for i in range(n)])) == "sat":
                eng.tag("static_ic-nonzero")
            for i in range(n):
                bi = int(p[i])           # base row
                for j in range(nt):
                    for nm, ref in (("d", refD), ("v", refV), ("a", refA)):
                        rterm = ref[bi][j]
                        nrm = max(coeff_norm1(rterm), Fraction(1, 1000) * rowscale[nm][bi])
                        rc = rowclass[bi]
                        if isinstance(rc, dict):
                            rc = rc[nm]
                        rt = rc if isinstance(rc, float) else RTOL
                        tol = Fraction(rt) * nrm
                        if nm == "a" and bi in rf:
                            tol = Fraction(0)
                        known = ()
                        if kf_on and v["cls"] == "SolveUnc" and (rc == "crit-window" or ("critical-window-inexact" in tags and "pre_eig" in v["vname"])):
                            known = [(KF_CRIT, True)]
                        obls.append(E.Obl("%s order=%d ic=%s: %s[%d,%d] vs closed form (tol %.2e)" % (v["vname"], order, ic, nm, bi, j, float(tol)),
                                          O.within(got[nm][i, j], rterm, tol), known=known,
                                          info=dict(variant=v["vname"], row=bi, col=j, qty=nm)))
        return obls
    return fn


def job(name, tier, order, ic, nt, vsel=None):
    O.patch_ode()
    sysd = base_systems(tier)[name]
    n = O.full(sysd["m"], sysd["b"], sysd["k"])[2].shape[0]
    fn = path_fn(name, sysd, tier, order, ic, nt, vsel)
    names = ["F_%d_%d" % (i, j) for i in range(n) for j in range(nt)] + ["d0_%d" % i for i in range(n)] + ["v0_%d" % i for i in range(n)]
    eng = E.Engine()
    eng.obl_mode = "each"
    res = eng.explore(fn, assumptions=S.box(names))
    res["note"] = "%s order=%d ic=%s" % (name, order, ic)
    params = dict(name=name, tier=tier, order=order, ic=ic, nt=nt)
    H.triage(res, "tsolve", replay, lambda c: dict(params=params, model=c["model"], labels=c["labels"], info=c.get("info")), max_replays=4)
    return res


def replay(payload):
    """evaluate the real solver in floats and the rational reference exactly on
    the model's inputs"""
    from pyyeti import ode
    p = payload["params"]
    mdl = payload["model"]
    sysd = base_systems(p["tier"])[p["name"]]
    order, ic, nt = p["order"], p["ic"], p["nt"]
    M, B, K = O.full(sysd["m"], sysd["b"], sysd["k"])
    n = K.shape[0]
    h = sysd["h"]
    rf = list(sysd.get("rf") or [])
    g = lambda nm: Fraction(float(mdl.get(nm, 0) or 0))
    Fq = [[g("F_%d_%d" % (i, j)) for j in range(nt)] for i in range(n)]
    d0q = [g("d0_%d" % i) for i in range(n)]
    v0q = [g("v0_%d" % i) for i in range(n)]
    Fz = [[z3.RealVal(x) for x in row] for row in Fq]
    if ic == "dv":
        rd0, rv0 = [z3.RealVal(x) for x in d0q], [z3.RealVal(x) for x in v0q]
    elif ic == "static":
        rd0 = [z3.simplify(x) for x in _static_d0(K, _rbset(sysd), rf, [Fz[i][0] for i in range(n)])]
        rv0 = [z3.RealVal(0)] * n
    else:
        rd0, rv0 = [z3.RealVal(0)] * n, [z3.RealVal(0)] * n
    refD, refV = O.ref_solution(M, B, K, h, order, rf, Fz, rd0, rv0, nt)
    val = lambda t: float(Fraction(z3.simplify(t).numerator_as_long(), z3.simplify(t).denominator_as_long()))
    RD = np.array([[val(refD[i][j]) for j in range(nt)] for i in range(n)])
    RV = np.array([[val(refV[i][j]) for j in range(nt)] for i in range(n)])
    tags, rowclass = _classify(sysd)
    want = {i.get("variant") for i in (payload.get("info") or []) if i}
    worst = None
    Ff = np.array([[float(x) for x in row] for row in Fq])
    O.NP.sym = False
    for v in variants(p["name"], sysd, p["tier"]):
        if want and v["vname"] not in want:
            continue
        if ic == "static" and v["cls"] == "SolveExp1":
            continue
        ts = _build(v, h, order)
        pm = v["perm"]
        F = Ff[pm] * (v["fscale"][pm][:, None] if v["fscale"] is not None else 1.0)
        if v["cls"] == "SolveExp1":
            w = np.vstack((np.linalg.solve(M, Ff), np.zeros((n, nt))))
            y0 = np.hstack(([val(x) for x in rv0], [val(x) for x in rd0]))
            sol = ts.tsolve(w, y0)
            D, V = sol.d[n:], sol.d[:n]
        else:
            kw = {}
            if ic == "dv":
                kw = dict(d0=np.array([float(d0q[i]) for i in pm]), v0=np.array([float(v0q[i]) for i in pm]))
            elif ic == "static":
                kw = dict(static_ic=True)
            sol = ts.tsolve(F, **kw)
            D, V = sol.d, sol.v
        for i in range(n):
            bi = int(pm[i])
            scale = max(abs(RD).max(), abs(RV).max(), 1e-30)
            for nm, got, ref in (("d", D, RD), ("v", V, RV)):
                err = abs(got[i] - ref[bi]).max()
                rel = err / max(abs(ref[bi]).max(), 1e-3 * scale)
                rcv = rowclass[bi][nm] if isinstance(rowclass[bi], dict) else rowclass[bi]
                lim = rcv if isinstance(rcv, float) else RTOL
                if rel > lim and (worst is None or rel > worst[0]):
                    worst = (rel, "%s: %s row %d differs from the closed form by %.3e (relative %.2e)" % (v["vname"], nm, bi, err, rel))
    sysdesc = "system %s (order=%d, ic=%s) F=%s d0=%s v0=%s" % (p["name"], order, ic, Ff.tolist(), [float(x) for x in d0q], [float(x) for x in v0q])
    if worst:
        return True, "%s: %s" % (sysdesc, worst[1])
    return False, "%s: all variants within tolerance of the closed form" % sysdesc


REPLAY = {"tsolve": replay}


def jobs(tier, seed):
    q = tier == "quick"
    nt = 3 if q else 4
    out = []
    for si, name in enumerate(base_systems(tier)):
        for order in (0, 1):
            ics = ["dv", "static", "zero"]
            if q:
                # static_ic forks on which initial forces are zero: keep it to the small systems in the quick tier
                small = "coupled-3" not in name and "coupled-2" not in name and name != "diag-under-crit-over"
                ics = ["dv"] + ([["static", "zero"][(si + order + seed) % 2]] if small else ["zero"])
            if name.startswith("coupled-4"):
                # static_ic forks on the zero pattern of the initial force: 4 DOF x 4 steps did not finish in 100 min
                ics = [i for i in ics if i != "static"]
            for ic in ics:
                out.append(H.Job("%s-o%d-%s" % (name, order, ic), job, name, tier, order, ic, nt, weight=5))
    return out


def extra_coverage(results):
    from pyyeti.ode import SolveUnc, SolveExp2, SolveExp1
    from pyyeti.ode._base_ode_class import _BaseODE
    import pyyeti.ode.solveunc as su
    fns = [SolveUnc.tsolve, SolveUnc._solve_real_unc, su._solve_real_unc_inner_loop, SolveUnc._solve_complex_unc,
           SolveExp2.tsolve, SolveExp1.tsolve, _BaseODE._init_dva, _BaseODE._init_dv, _BaseODE._calc_acce_kdof,
           _BaseODE._solution, _BaseODE._alloc_dva]
    return dict(functions_encoded=[H.fn_id(f) for f in fns],
                concrete_constructors=["SolveUnc.__init__ (get_su_coef / get_su_eig)", "SolveExp2.__init__ (expmint.getEPQ)",
                                       "SolveExp1.__init__", "_BaseODE._do_pre_eig"],
                grid_systems=sorted(base_systems("thorough" if any("h0.05" in (r.get("note") or "") for r in results) else "quick")))
