"""C17 - SolveNewmark and the coupled-damping-as-force solver follow their
documented recurrences; Newmark is stable for any step on damped systems;
with diagonal damping SolveCDF is identical to SolveUnc."""
import time
from fractions import Fraction

import numpy as np
import z3

from vsym import sym as S
from vsym import engine as E
from vsym import harness as H
from vsym import odekit as O
from vsym.linform import coeff_norm1

PID = "C17"
RTOL = 1e-9

META = dict(
    level="other",
    stubs=["np.zeros/empty -> object arrays", "lu_factor/lu_solve with concrete matrix and symbolic rhs -> inverse multiply"],
    bounds=dict(quick="Newmark: 7 systems (diagonal, full, singular mass, rf rows, m None) x nt = 5, with/without d0/v0, one linear 'nonlinear' term; "
                      "stability: 1-DOF symbolic m >= 0, b > 0, k > 0, h > 0 (NRA); CDF: 3 systems x order {0,1} x nt = 4",
                thorough="nt = 6, 11 systems"),
    outside=["order of convergence under step halving (analysis, not algebra)", "multi-DOF stability", "general nonlinear force functions"],
    assumptions=["reference recurrences are transcribed from the SolveNewmark class docstring and the comment block of _solve_real_unc_cdforces"],
    reach_required=["newmark-diag", "newmark-full", "newmark-singular-mass", "newmark-rf", "newmark-nonlin", "newmark-stability", "cdf-recurrence", "cdf-diag-identical"],
)


def nm_systems(tier):
    G = {}
    h = 0.01
    G["diag"] = dict(m=np.array([10.0, 30.0, 30.0]), k=np.array([0.0, 6.0e3, 6.0e3]), b=np.array([0.0, 40.0, 900.0]), h=h)
    G["diag-mNone"] = dict(m=None, k=np.array([300.0, 900.0]), b=np.array([1.0, 6.0]), h=h)
    G["full"] = dict(m=np.array([[2.0, 0.2, 0.0], [0.2, 3.0, 0.1], [0.0, 0.1, 1.5]]),
                     k=np.array([[300.0, -100.0, 0.0], [-100.0, 500.0, -50.0], [0.0, -50.0, 900.0]]),
                     b=np.array([[0.9, 0.1, 0.0], [0.1, 2.0, 0.5], [0.0, 0.5, 4.0]]), h=h)
    G["full-mNone"] = dict(m=None, k=np.array([[300.0, -100.0], [-100.0, 500.0]]), b=np.array([[0.9, 0.1], [0.1, 2.0]]), h=h)
    G["singular-mass-diag"] = dict(m=np.array([2.0, 0.0, 1.0]), k=np.array([300.0, 500.0, 900.0]), b=np.array([1.0, 3.0, 2.0]), h=h)
    G["singular-mass-full"] = dict(m=np.array([[2.0, 0.0], [0.0, 0.0]]), k=np.array([[300.0, -100.0], [-100.0, 500.0]]), b=np.array([[0.9, 0.1], [0.1, 2.0]]), h=h)
    G["diag-rf"] = dict(m=np.array([1.0, 2.0, 1.0]), k=np.array([300.0, 500.0, 4.0e5]), b=np.array([1.0, 3.0, 2.0]), h=h, rf=[2])
    if tier == "thorough":
        G["full-rf"] = dict(m=np.array([[2.0, 0.2, 0.0], [0.2, 3.0, 0.0], [0.0, 0.0, 1.5]]),
                            k=np.array([[300.0, -100.0, 0.0], [-100.0, 500.0, 0.0], [0.0, 0.0, 9.0e5]]),
                            b=np.array([[0.9, 0.1, 0.0], [0.1, 2.0, 0.0], [0.0, 0.0, 4.0]]), h=h, rf=[2])
        G["diag-large-h"] = dict(m=np.array([1.0, 1.0]), k=np.array([300.0, 2.0e4]), b=np.array([0.5, 3.0]), h=0.5)
        G["diag-undamped"] = dict(m=np.array([1.0, 3.0]), k=np.array([400.0, 2700.0]), b=np.array([0.0, 0.0]), h=h)
        G["full-4"] = dict(m=np.diag([1.0, 2.0, 1.5, 1.0]) + 0.05, k=np.array([[400.0, -100, 0, 0], [-100, 500.0, -80, 0], [0, -80, 600.0, -60], [0, 0, -60, 300.0]]),
                           b=np.diag([1.0, 2.0, 1.0, 0.5]) + 0.1, h=h)
    return G


def _mpinv(A):
    import mpmath as mp
    mp.mp.dps = 60
    Ai = mp.matrix(A.tolist()) ** -1
    return [[O._toQ(Ai[i, j]) for j in range(A.shape[1])] for i in range(A.shape[0])]


def _matvec(Q, x):
    return [z3.Sum([z3.RealVal(Q[i][j]) * x[j] for j in range(len(x)) if Q[i][j] != 0] + [z3.RealVal(0)]) for i in range(len(Q))]


def _fmat(A):
    return [[Fraction(float(A[i, j])) for j in range(A.shape[1])] for i in range(A.shape[0])]


def newmark_reference(sysd, Fz, d0z, v0z, nt, nonlin=None):
    """documented recurrence; returns d, v, a as n x nt z3 terms.
    nonlin: None or (c, r1, r2, T) meaning N = T * c*(u[r1]-u[r2]) (non-rf coordinates)"""
    M, B, K = O.full(sysd["m"], sysd["b"], sysd["k"])
    n = K.shape[0]
    h = Fraction(sysd["h"])
    rf = list(sysd.get("rf") or [])
    dyn = [i for i in range(n) if i not in rf]
    nd = len(dyn)
    sub = lambda X: X[np.ix_(dyn, dyn)]
    Md, Bd, Kd = sub(M), sub(B), sub(K)
    hf = float(sysd["h"])
    A = Md / hf ** 2 + Bd / (2 * hf) + Kd / 3
    A1 = 2 * Md / hf ** 2 - Kd / 3
    A0 = -Md / hf ** 2 + Bd / (2 * hf) - Kd / 3
    # exact rationals of the documented matrices
    Mq, Bq, Kq = _fmat(Md), _fmat(Bd), _fmat(Kd)
    Aq = [[Mq[i][j] / h ** 2 + Bq[i][j] / (2 * h) + Kq[i][j] / 3 for j in range(nd)] for i in range(nd)]
    A1q = [[2 * Mq[i][j] / h ** 2 - Kq[i][j] / 3 for j in range(nd)] for i in range(nd)]
    A0q = [[-Mq[i][j] / h ** 2 + Bq[i][j] / (2 * h) - Kq[i][j] / 3 for j in range(nd)] for i in range(nd)]
    import mpmath as mp
    mp.mp.dps = 60
    Ai_mp = mp.matrix([[mp.mpf(x.numerator) / mp.mpf(x.denominator) for x in row] for row in Aq]) ** -1
    Ai = [[O._toQ(Ai_mp[i, j]) for j in range(nd)] for i in range(nd)]
    u0 = [d0z[i] for i in dyn]
    w0 = [v0z[i] for i in dyn]
    um1 = [u0[i] - w0[i] * z3.RealVal(h) for i in range(nd)]
    Fm1 = [a + b for a, b in zip(_matvec(Kq, um1), _matvec(Bq, w0))]
    F0 = [a + b for a, b in zip(_matvec(Kq, u0), _matvec(Bq, w0))]
    Fd = [[Fz[i][j] for j in range(nt)] for i in dyn]

    def Fcol(j):
        if j == -1:
            return Fm1
        if j == 0:
            return F0
        if j == nt:      # linearly extrapolated
            return [2 * Fd[i][nt - 1] - Fd[i][nt - 2] for i in range(nd)]
        return [Fd[i][j] for i in range(nd)]

    def N(u):
        if nonlin is None:
            return [z3.RealVal(0)] * nd
        out = [z3.RealVal(0)] * nd
        for c, r1, r2, T in nonlin:
            zv = z3.RealVal(Fraction(c)) * (u[r1] - u[r2])
            out = [out[i] + z3.RealVal(Fraction(float(T[i]))) * zv for i in range(nd)]
        return out

    U = {-1: um1, 0: u0}
    for j in range(1, nt + 1):
        rhs = [(Fcol(j)[i] + Fcol(j - 1)[i] + Fcol(j - 2)[i]) / 3 + N(U[j - 1])[i] + _matvec(A1q, U[j - 1])[i] + _matvec(A0q, U[j - 2])[i]
               for i in range(nd)]
        U[j] = _matvec(Ai, rhs)
    D = [[z3.RealVal(0)] * nt for _ in range(n)]
    V = [[z3.RealVal(0)] * nt for _ in range(n)]
    Ac = [[z3.RealVal(0)] * nt for _ in range(n)]
    for a_, i in enumerate(dyn):
        for j in range(nt):
            D[i][j] = U[j][a_]
            V[i][j] = (U[j + 1][a_] - U[j - 1][a_]) / (2 * z3.RealVal(h)) if j > 0 else w0[a_]
            Ac[i][j] = (U[j + 1][a_] - 2 * U[j][a_] + U[j - 1][a_]) / (z3.RealVal(h) * z3.RealVal(h))
    if rf:
        Kri = _mpinv(K[np.ix_(rf, rf)])
        for j in range(nt):
            col = _matvec(Kri, [Fz[i][j] for i in rf])
            for a_, i in enumerate(rf):
                D[i][j] = col[a_]
    return D, V, Ac


def newmark_fn(name, sysd, nt, ic, nonlin):
    M, B, K = O.full(sysd["m"], sysd["b"], sysd["k"])
    n = K.shape[0]
    rf = list(sysd.get("rf") or [])

    def fn(eng):
        S.set_engine(eng)
        from pyyeti import ode
        full = any(x is not None and np.ndim(x) == 2 for x in (sysd["m"], sysd["b"], sysd["k"]))
        eng.tag("newmark-full" if full else "newmark-diag")
        if rf:
            eng.tag("newmark-rf")
        if np.linalg.matrix_rank(M) < n:
            eng.tag("newmark-singular-mass")
        Fz = O.zmat("F", n, nt)
        d0z = O.zvec("d0", n) if ic else [z3.RealVal(0)] * n
        v0z = O.zvec("v0", n) if ic else [z3.RealVal(0)] * n
        O.NP.sym = False
        ts = ode.SolveNewmark(sysd["m"], sysd["b"], sysd["k"], sysd["h"], rf=sysd.get("rf"))
        nl = None
        if nonlin:
            eng.tag("newmark-nonlin")
            nd = n - len(rf)
            T = np.zeros((nd, 1))
            T[0, 0] = 1.0
            T[1, 0] = -1.0
            c = 75.0
            # a second term with a different force-distribution matrix
            T2 = np.zeros((nd, 1))
            T2[0, 0] = 0.5
            T2[1, 0] = 0.25
            c2 = 40.0

            def func(d, j, h):
                return np.array([c * (d[0, j] - d[1, j])], dtype=object)

            def func2(d, j, h):
                return np.array([c2 * (d[1, j] - d[0, j])], dtype=object)
            ts.def_nonlin({"spring": (func, T), "other": (func2, T2)})
            nl = [(c, 0, 1, T[:, 0]), (c2, 1, 0, T2[:, 0])]
        O.NP.sym = True
        try:
            kw = dict(d0=O.sarr(d0z), v0=O.sarr(v0z)) if ic else {}
            sol = ts.tsolve(O.sarr(Fz), **kw)
        finally:
            O.NP.sym = False
        RD, RV, RA = newmark_reference(sysd, Fz, d0z, v0z, nt, nl)
        obls = []
        for nm, got, ref in (("d", sol.d, RD), ("v", sol.v, RV), ("a", sol.a, RA)):
            for i in range(n):
                rowmax = max(coeff_norm1(ref[i][j]) for j in range(nt))
                for j in range(nt):
                    tol = Fraction(RTOL) * max(coeff_norm1(ref[i][j]), Fraction(1, 1000) * rowmax)
                    obls.append(E.Obl("Newmark %s: %s[%d,%d] follows the documented recurrence" % (name, nm, i, j),
                                      O.within(got[i, j], ref[i][j], tol)))
        return obls
    return fn


def stability_fn(eng):
    """A0, A1 from the real _newmark_precalcs with symbolic 1-DOF m, b, k, h"""
    S.set_engine(eng)
    from pyyeti.ode import SolveNewmark
    mz, bz, kz, hz = z3.Real("m"), z3.Real("b"), z3.Real("k"), z3.Real("h")
    eng.assume(z3.And(mz >= 0, bz > 0, kz > 0, hz > 0))
    ts = object.__new__(SolveNewmark)
    ts.ksize = 1
    ts.unc = True
    ts.h = S.SymR(hz)
    ts.m = np.array([S.SymR(mz)], dtype=object)
    ts.b = np.array([S.SymR(bz)], dtype=object)
    ts.k = np.array([S.SymR(kz)], dtype=object)
    ts._newmark_precalcs()
    A0, A1 = S.lift(ts.A0[0]), S.lift(ts.A1[0])
    # u_{n+2} = A1 u_{n+1} + A0 u_n : characteristic polynomial z^2 - A1 z - A0 = z^2 + p z + q
    p, q = -A1, -A0
    eng.tag("newmark-stability")
    obls = [E.Obl("Jury: |q| < 1", z3.And(q < 1, q > -1)),
            E.Obl("Jury: |p| < 1 + q", z3.And(p < 1 + q, -p < 1 + q)),
            E.Obl("A is positive (step is solvable)", S.lift(ts.Ad[0]) > 0)]
    # undamped case: roots on the unit circle (bounded, non-strict)
    return obls


def stability_undamped_fn(eng):
    S.set_engine(eng)
    from pyyeti.ode import SolveNewmark
    mz, kz, hz = z3.Real("m"), z3.Real("k"), z3.Real("h")
    eng.assume(z3.And(mz > 0, kz > 0, hz > 0))
    ts = object.__new__(SolveNewmark)
    ts.ksize = 1
    ts.unc = True
    ts.h = S.SymR(hz)
    ts.m = np.array([S.SymR(mz)], dtype=object)
    ts.b = np.array([0.0], dtype=object)
    ts.k = np.array([S.SymR(kz)], dtype=object)
    ts._newmark_precalcs()
    A0, A1 = S.lift(ts.A0[0]), S.lift(ts.A1[0])
    eng.tag("newmark-stability")
    return [E.Obl("undamped: q == 1 (roots on the unit circle)", -A0 == 1),
            E.Obl("undamped: complex-conjugate roots, |A1| < 2", z3.And(A1 < 2, A1 > -2))]


# ---------------------------------------------------------------------------
def cdf_systems():
    bo = np.array([[0.0, 0.0, 0.0], [0.0, 2.0, 0.5], [0.0, 0.5, 4.0]])
    G = {}
    G["cdf-mNone"] = dict(m=None, b=bo, k=np.array([0.0, 300.0, 900.0]), h=0.01)
    G["cdf-m"] = dict(m=np.array([2.0, 3.0, 1.5]), b=bo + np.diag([0.3, 0, 0]), k=np.array([0.0, 300.0, 900.0]), h=0.01)
    G["cdf-rf"] = dict(m=np.array([2.0, 3.0, 1.5]), b=bo, k=np.array([0.0, 300.0, 4.0e5]), h=0.01, rf=[2])
    # non-symmetric (gyroscopic-like) off-diagonal damping
    G["cdf-nonsym"] = dict(m=np.array([1.0, 2.0, 1.5]), b=np.array([[0.4, 0.9, -0.2], [-0.6, 2.0, 0.7], [0.3, -0.5, 4.0]]), k=np.array([150.0, 300.0, 900.0]), h=0.01)
    return G


def _offdiag_damping(sysd, dyn):
    """off-diagonal part of B on the dynamic rows: the coupling force that the recurrence treats as an
    applied force (the per-mode coefficients A, B, Ap, Bp already contain 1/m)"""
    M, B, K = O.full(sysd["m"], sysd["b"], sysd["k"])
    Bd = B[np.ix_(dyn, dyn)]
    return Bd - np.diag(np.diag(Bd))


def cdf_fn(name, sysd, order, nt):
    def fn(eng):
        S.set_engine(eng)
        from pyyeti import ode
        M, B, K = O.full(sysd["m"], sysd["b"], sysd["k"])
        n = K.shape[0]
        rf = list(sysd.get("rf") or [])
        dyn = [i for i in range(n) if i not in rf]
        Fz = O.zmat("F", n, nt)
        d0z, v0z = O.zvec("d0", n), O.zvec("v0", n)
        O.NP.sym = False
        ts = ode.SolveCDF(sysd["m"], sysd["b"], sysd["k"], sysd["h"], rf=sysd.get("rf"), order=order)
        pc = ts.pc
        Co = _offdiag_damping(sysd, dyn)      # from the input matrices, not from the solver's stored copy
        O.NP.sym = True
        try:
            sol = ts.tsolve(O.sarr(Fz), O.sarr(d0z), O.sarr(v0z))
        finally:
            O.NP.sym = False
        eng.tag("cdf-recurrence")
        obls = []
        # documented implicit relations (comment block of _solve_real_unc_cdforces)
        Q = lambda x: z3.RealVal(Fraction(float(x)))
        for j in range(nt - 1):
            f0 = [Fz[i][j] for i in dyn]
            f1 = [Fz[i][j + 1] if order == 1 else Fz[i][j] for i in dyn]
            d_ = [S.lift(sol.d[i, j]) for i in dyn]
            v_ = [S.lift(sol.v[i, j]) for i in dyn]
            v1 = [S.lift(sol.v[i, j + 1]) for i in dyn]
            cv0 = [z3.Sum([Q(Co[a, c]) * v_[c] for c in range(len(dyn))]) for a in range(len(dyn))]
            cv1 = [z3.Sum([Q(Co[a, c]) * v1[c] for c in range(len(dyn))]) for a in range(len(dyn))]
            for a, i in enumerate(dyn):
                dn = Q(pc.F[a]) * d_[a] + Q(pc.G[a]) * v_[a] + Q(pc.A[a]) * (f0[a] - cv0[a]) + Q(pc.B[a]) * (f1[a] - cv1[a])
                vn = Q(pc.Fp[a]) * d_[a] + Q(pc.Gp[a]) * v_[a] + Q(pc.Ap[a]) * (f0[a] - cv0[a]) + Q(pc.Bp[a]) * (f1[a] - cv1[a])
                for nm, got, ref in (("d", sol.d[i, j + 1], dn), ("v", sol.v[i, j + 1], vn)):
                    tol = Fraction(RTOL) * max(coeff_norm1(ref), Fraction(1, 10 ** 6))
                    obls.append(E.Obl("CDF %s order %d: %s[%d,%d] satisfies the implicit relation" % (name, order, nm, i, j + 1),
                                      O.within(got, ref, tol)))
        for i in rf:
            for j in range(nt):
                obls.append(E.Obl("CDF rf row static", O.within(S.lift(sol.d[i, j]) * Q(K[i, i]), Fz[i][j], Fraction(RTOL))))
        return obls
    return fn


def cdf_diag_fn(order, nt):
    """with diagonal damping SolveCDF == SolveUnc term by term"""
    def fn(eng):
        S.set_engine(eng)
        from pyyeti import ode
        m = np.array([2.0, 3.0, 1.5])
        k = np.array([0.0, 300.0, 900.0])
        bd = np.array([0.4, 2.0, 30.0])
        n = 3
        Fz = O.zmat("F", n, nt)
        d0z, v0z = O.zvec("d0", n), O.zvec("v0", n)
        obls = []
        for bform in (bd, np.diag(bd)):
            O.NP.sym = False
            tc = ode.SolveCDF(m, bform, k, 0.01, order=order)
            tu = ode.SolveUnc(m, bform, k, 0.01, order=order)
            O.NP.sym = True
            try:
                sc = tc.tsolve(O.sarr(Fz), O.sarr(d0z), O.sarr(v0z))
                su = tu.tsolve(O.sarr(Fz), O.sarr(d0z), O.sarr(v0z))
            finally:
                O.NP.sym = False
            for nm in "dva":
                for i in range(n):
                    for j in range(nt):
                        obls.append(E.Obl("diagonal damping: SolveCDF.%s[%d,%d] == SolveUnc" % (nm, i, j),
                                          O.within(getattr(sc, nm)[i, j], getattr(su, nm)[i, j], Fraction(0))))
        eng.tag("cdf-diag-identical")
        return obls
    return fn


def job(kind, *args):
    O.patch_ode()
    assumptions = []
    if kind == "newmark":
        name, tier, nt, ic, nonlin = args
        sysd = nm_systems(tier)[name]
        n = O.full(sysd["m"], sysd["b"], sysd["k"])[2].shape[0]
        fn = newmark_fn(name, sysd, nt, ic, nonlin)
        assumptions = S.box(["F_%d_%d" % (i, j) for i in range(n) for j in range(nt)] + ["d0_%d" % i for i in range(n)] + ["v0_%d" % i for i in range(n)])
    elif kind == "stability":
        fn = stability_fn
    elif kind == "stability0":
        fn = stability_undamped_fn
    elif kind == "cdf":
        name, order, nt = args
        fn = cdf_fn(name, cdf_systems()[name], order, nt)
        assumptions = S.box(["F_%d_%d" % (i, j) for i in range(3) for j in range(nt)] + ["d0_%d" % i for i in range(3)] + ["v0_%d" % i for i in range(3)])
    elif kind == "cdfdiag":
        order, nt = args
        fn = cdf_diag_fn(order, nt)
        assumptions = S.box(["F_%d_%d" % (i, j) for i in range(3) for j in range(nt)] + ["d0_%d" % i for i in range(3)] + ["v0_%d" % i for i in range(3)])
    eng = E.Engine(obl_timeout_ms=120000)
    eng.obl_mode = "each"
    res = eng.explore(fn, assumptions=assumptions)
    res["note"] = "%s %s" % (kind, args)
    H.triage(res, kind, REPLAY[kind], lambda c: dict(args=list(args), model=c["model"], labels=c["labels"]), max_replays=3)
    return res


def _val(t):
    t = z3.simplify(t)
    return float(Fraction(t.numerator_as_long(), t.denominator_as_long()))


def replay_newmark(p):
    from pyyeti import ode
    name, tier, nt, ic, nonlin = p["args"]
    sysd = nm_systems(tier)[name]
    M, B, K = O.full(sysd["m"], sysd["b"], sysd["k"])
    n = K.shape[0]
    mdl = p["model"]
    g = lambda nm: Fraction(float(mdl.get(nm, 0) or 0))
    Fq = [[g("F_%d_%d" % (i, j)) for j in range(nt)] for i in range(n)]
    d0q = [g("d0_%d" % i) if ic else Fraction(0) for i in range(n)]
    v0q = [g("v0_%d" % i) if ic else Fraction(0) for i in range(n)]
    O.NP.sym = False
    ts = ode.SolveNewmark(sysd["m"], sysd["b"], sysd["k"], sysd["h"], rf=sysd.get("rf"))
    nl = None
    if nonlin:
        nd = n - len(sysd.get("rf") or [])
        T = np.zeros((nd, 1)); T[0, 0] = 1.0; T[1, 0] = -1.0
        T2 = np.zeros((nd, 1)); T2[0, 0] = 0.5; T2[1, 0] = 0.25
        ts.def_nonlin({"spring": (lambda d, j, h: np.array([75.0 * (d[0, j] - d[1, j])]), T),
                       "other": (lambda d, j, h: np.array([40.0 * (d[1, j] - d[0, j])]), T2)})
        nl = [(75.0, 0, 1, T[:, 0]), (40.0, 1, 0, T2[:, 0])]
    Ff = np.array([[float(x) for x in r] for r in Fq])
    kw = dict(d0=np.array([float(x) for x in d0q]), v0=np.array([float(x) for x in v0q])) if ic else {}
    sol = ts.tsolve(Ff, **kw)
    RD, RV, RA = newmark_reference(sysd, [[z3.RealVal(x) for x in r] for r in Fq], [z3.RealVal(x) for x in d0q], [z3.RealVal(x) for x in v0q], nt, nl)
    worst = None
    for nm, got, ref in (("d", sol.d, RD), ("v", sol.v, RV), ("a", sol.a, RA)):
        R = np.array([[_val(ref[i][j]) for j in range(nt)] for i in range(n)])
        for i in range(n):
            err = abs(got[i] - R[i]).max()
            rel = err / max(abs(R[i]).max(), 1e-6 * max(abs(R).max(), 1e-300))
            if rel > 1e-8 and (worst is None or rel > worst[0]):
                worst = (rel, "%s row %d: solver %s, documented recurrence %s" % (nm, i, np.round(got[i], 10).tolist(), np.round(R[i], 10).tolist()))
    desc = "SolveNewmark system %s F=%s d0=%s v0=%s nonlin=%s" % (name, Ff.tolist(), [float(x) for x in d0q], [float(x) for x in v0q], bool(nonlin))
    return (True, desc + ": " + worst[1]) if worst else (False, desc + ": follows the recurrence")


def replay_stability(p):
    from pyyeti.ode import SolveNewmark
    mdl = p["model"]
    m, b, k, h = (float(mdl.get(x, 0) or 0) for x in "mbkh")
    ts = SolveNewmark(np.array([m]), np.array([b]), np.array([k]), h)
    A0, A1 = float(ts.A0[0]), float(ts.A1[0])
    roots = np.roots([1, -A1, -A0])
    ok = np.all(abs(roots) < 1)
    return (not ok), "SolveNewmark m=%g b=%g k=%g h=%g: amplification roots %s" % (m, b, k, h, roots.tolist())


def replay_cdf(p):
    """real SolveCDF on the model's forces / initial conditions: the documented implicit relation with the
    off-diagonal damping taken from the input matrices"""
    from pyyeti import ode
    O.NP.sym = False
    args = p["args"]
    if len(args) < 3 or args[0] not in cdf_systems():
        return False, "cdf-diagonal kernel: no concrete replay"
    name, order, nt = args[0], args[1], args[2]
    sysd = cdf_systems()[name]
    M, B, K = O.full(sysd["m"], sysd["b"], sysd["k"])
    n = K.shape[0]
    rf = list(sysd.get("rf") or [])
    dyn = [i for i in range(n) if i not in rf]
    mdl = p["model"]
    g = lambda k: float(Fraction(mdl.get(k, 0) or 0))
    F = np.array([[g("F_%d_%d" % (i, j)) for j in range(nt)] for i in range(n)])
    d0 = np.array([g("d0_%d" % i) for i in range(n)])
    v0 = np.array([g("v0_%d" % i) for i in range(n)])
    if not (F.any() or d0.any() or v0.any()):
        F = np.arange(1.0, n * nt + 1).reshape(n, nt) / (n * nt)
    ts = ode.SolveCDF(sysd["m"], sysd["b"], sysd["k"], sysd["h"], rf=sysd.get("rf"), order=order)
    sol = ts.tsolve(F, d0, v0)
    pc = ts.pc
    Co = _offdiag_damping(sysd, dyn)
    worst = 0.0
    for j in range(nt - 1):
        f0 = F[dyn, j]
        f1 = F[dyn, j + 1] if order == 1 else F[dyn, j]
        d_, v_, v1 = sol.d[dyn, j], sol.v[dyn, j], sol.v[dyn, j + 1]
        dn = pc.F * d_ + pc.G * v_ + pc.A * (f0 - Co @ v_) + pc.B * (f1 - Co @ v1)
        vn = pc.Fp * d_ + pc.Gp * v_ + pc.Ap * (f0 - Co @ v_) + pc.Bp * (f1 - Co @ v1)
        sc = max(np.abs(sol.d).max(), np.abs(sol.v).max() * sysd["h"], 1e-12)
        worst = max(worst, np.abs(sol.d[dyn, j + 1] - dn).max() / sc, np.abs(sol.v[dyn, j + 1] - vn).max() / max(np.abs(sol.v).max(), 1e-12))
    if worst > 1e-7:
        return True, "SolveCDF system %s order %d: the history violates the documented implicit off-diagonal-damping relation by %.3e (relative)" % (name, order, worst)
    return False, "SolveCDF satisfies its documented relation on the real code"


REPLAY = {"newmark": replay_newmark, "stability": replay_stability, "stability0": replay_stability, "cdf": replay_cdf, "cdfdiag": replay_cdf}


def jobs(tier, seed):
    q = tier == "quick"
    nt = 5 if q else 6
    out = []
    for name in nm_systems(tier):
        out.append(H.Job("newmark-%s-ic" % name, job, "newmark", name, tier, nt, True, False, weight=5))
        out.append(H.Job("newmark-%s-zero" % name, job, "newmark", name, tier, nt, False, False, weight=4))
    for name in ("diag", "full", "full-mNone"):
        out.append(H.Job("newmark-%s-nonlin" % name, job, "newmark", name, tier, nt, True, True, weight=5))
    out.append(H.Job("stability", job, "stability", weight=3))
    out.append(H.Job("stability-undamped", job, "stability0", weight=3))
    for name in cdf_systems():
        for order in (0, 1):
            out.append(H.Job("cdf-%s-o%d" % (name, order), job, "cdf", name, order, 4 if q else 5, weight=3))
    for order in (0, 1):
        out.append(H.Job("cdf-diag-o%d" % order, job, "cdfdiag", order, 4, weight=3))
    return out


def extra_coverage(results):
    from pyyeti.ode import SolveNewmark, SolveUnc, SolveCDF
    fns = [SolveNewmark.tsolve, SolveNewmark._init_dva, SolveNewmark._newmark_precalcs, SolveNewmark.def_nonlin,
           SolveUnc._solve_real_unc_cdforces, SolveUnc.tsolve, SolveCDF.__init__]
    return dict(functions_encoded=[H.fn_id(f) for f in fns])
