#!/usr/bin/env python3
"""copy confirmed sub-agent mutants from the scratch worktrees into /verif/seeded/<P>-m<k>/ with a meta.json"""
import json, os, re, shutil, sys
V = os.path.dirname(os.path.dirname(os.path.abspath(__file__)))
props = sys.argv[1:] or ["C%02d" % i for i in range(1, 21)]
for P in props:
    for k in (1, 2, 3, 4, 5):
        # later rounds: SEEDED_SUFFIX=r2 SEEDED_OFFSET=3 reads /tmp/wt/<P>r2/out/m<k> and stores it as <P>-m<k+3>
        suffix, off = os.environ.get("SEEDED_SUFFIX", ""), int(os.environ.get("SEEDED_OFFSET", "0"))
        src = "/tmp/wt/%s%s/out/m%d" % (P, suffix, k)
        if not os.path.isfile(src + "/patch.diff"):
            continue
        conf = open(src + "/confirm.txt").read().strip() if os.path.exists(src + "/confirm.txt") else ""
        m = re.match(r"demo_base=(\d+) demo_mut=(\d+) suite=(.*)", conf)
        if not m:
            print(P, k, "not confirmed yet"); continue
        base, mut, suite = int(m.group(1)), int(m.group(2)), m.group(3)
        flaky_only = suite != "same" and all(("test_cbcheck_determinate" in t or "test_fdepsd_absacce" in t) for t in re.findall(r"FAILED (\S+)", suite))
        if base != 0 or mut == 0 or not (suite == "same" or flaky_only):
            print(P, k, "REJECTED:", conf); continue
        dst = os.path.join(V, "seeded", "%s-m%d" % (P, k + off))
        os.makedirs(dst, exist_ok=True)
        for f in ("patch.diff", "demo.py", "notes.md"):
            if os.path.exists(src + "/" + f):
                shutil.copy(src + "/" + f, dst + "/" + f)
        notes = open(src + "/notes.md").read() if os.path.exists(src + "/notes.md") else ""
        mp = dst + "/meta.json"
        meta = json.load(open(mp)) if os.path.exists(mp) else {}
        meta.update(dict(
            id="%s-m%d" % (P, k + off), property=P,
            origin="written by a fresh sub-agent that was given only the property text and its own scratch worktree of /repo (nothing from /verif)",
            needs_to_manifest=" ".join(notes.split())[:900],
            confirmed=dict(worktree="/tmp/wt/%s%s (scratch, removed afterwards)" % (P, suffix),
                           ran=["git checkout -- . ; python out/m%d/demo.py  -> exit %d" % (k, base),
                                "git apply out/m%d/patch.diff ; python out/m%d/demo.py -> exit %d" % (k, k, mut),
                                "OMP_NUM_THREADS=1 python -m pytest -q -p no:cacheprovider --timeout=900 --continue-on-collection-errors -> failing set %s" %
                                ("identical to the 16 baseline failures" if suite == "same" else "baseline 16 + tests that are flaky under machine load and pass alone with the mutant: " + suite)]),
        ))
        json.dump(meta, open(mp, "w"), indent=1)
        print(P, k, "kept")
