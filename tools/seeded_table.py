#!/usr/bin/env python3
"""markdown table of the seeded changes and what the checks made of them (from seeded/*/meta.json);
`--write` replaces the block between the SEEDED-TABLE markers of DESIGN.md"""
import json, os, re, sys
V = os.path.dirname(os.path.dirname(os.path.abspath(__file__)))
WHY = {
 "C01-m2": "by design: the per-step error (<= 5e-5 relative on one slow eigenvalue) is inside the property's conditioning allowance; it shows only after ~10^4 steps, the kernels explore 3-4",
 "C16-m5": "outside the claim: DR_Results.init_extreme_cat / form_extreme (object graph of results categories, SRS envelopes) is not encoded; C16's kernels are cla.extrema, maxmin, apply_uf and frf_apply_uf, where aliasing of the caller's arrays is checked, not the aliasing between an event's results and the envelope category",
 "C04-m1": "C04 does not claim complex matrices; the change is caught by C11 (sparse read of a big-endian complex matrix)",
}


def rows():
    out = []
    for sid in sorted(os.listdir(os.path.join(V, "seeded"))):
        mp = os.path.join(V, "seeded", sid, "meta.json")
        if not os.path.exists(mp):
            continue
        m = json.load(open(mp))
        what = re.sub(r"^#\s*(C\d+\s*)?(/\s*)?(mutant\s*)?[mM]?\d\s*[-:]\s*", "", m.get("needs_to_manifest", "").replace("# Mutant 1 - ", "").replace("# Mutant 2 - ", "").split(" - Change")[0].split("\n")[0]).strip()
        what = what.split(" Change")[0].rstrip(" *")[:150]
        res = m.get("check_results", [])
        hit = [r for r in res if r.get("detected")]
        if hit:
            r = hit[0]
            fv = r.get("first_violation") or ""
            k = re.match(r"kernel=(\S+)", fv)
            verdict = "caught by %s%s" % (r["check"], " (kernel %s)" % k.group(1) if k else "")
            if r["check"] != m["property"]:
                verdict += "; " + WHY.get(sid, "")
        else:
            verdict = "missed: " + WHY.get(sid, "not analysed")
        out.append("| %s | %s | %s |" % (sid, what.replace("|", "/"), verdict.replace("|", "/")))
    return out


def main():
    rs = rows()
    n = len(rs)
    caught = sum("caught by" in r for r in rs)
    txt = "| id | change | result of the quick check(s) |\n|---|---|---|\n" + "\n".join(rs) + "\n\n%d of %d caught." % (caught, n)
    if "--write" in sys.argv:
        p = os.path.join(V, "DESIGN.md")
        s = open(p).read()
        a, b = "<!-- SEEDED-TABLE-BEGIN -->", "<!-- SEEDED-TABLE-END -->"
        if a in s:
            s = s[:s.index(a) + len(a)] + "\n" + txt + "\n" + s[s.index(b):]
        else:
            s = s.replace("SEEDED_TABLE", a + "\n" + txt + "\n" + b)
        open(p, "w").write(s)
    else:
        print(txt)


main()
