#!/bin/bash
# tools/confirm_mutant.sh <worktree> <mutdir>  - confirm a sub-agent's mutant in its scratch worktree
W=$1; M=$2
cd "$W" || exit 2
git checkout -q -- . ; 
reb() { if grep -q c_rain.c "$M/patch.diff"; then /venv/bin/python setup.py build_ext --inplace >/dev/null 2>&1; fi; }
reb
/venv/bin/python "$M/demo.py" >/dev/null 2>&1; base=$?
git apply "$M/patch.diff" || { echo "APPLY-FAILED" > "$M/confirm.txt"; exit 1; }
reb
/venv/bin/python "$M/demo.py" > "$M/demo_mut.out" 2>&1; mut=$?
/venv/bin/python -m pytest -q -p no:cacheprovider --timeout=900 --continue-on-collection-errors 2>&1 | grep ^FAILED | sed 's/ - .*//' | sort > "$M/fail_mut.txt"
git checkout -q -- . ; reb
sort /tmp/wt/baseline_fail.txt > /tmp/wt/.bf.$$ 
if diff -q /tmp/wt/.bf.$$ "$M/fail_mut.txt" >/dev/null; then suite=same; else suite="DIFF:$(diff /tmp/wt/.bf.$$ "$M/fail_mut.txt" | tr '\n' ' ')"; fi
rm -f /tmp/wt/.bf.$$
echo "demo_base=$base demo_mut=$mut suite=$suite" | tee "$M/confirm.txt"
