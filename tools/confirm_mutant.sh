#!/bin/bash
# tools/confirm_mutant.sh <worktree> <mutdir>  - confirm a sub-agent's mutant in its scratch worktree
W=$1; M=$2
cd "$W" || exit 2
export OMP_NUM_THREADS=1 OPENBLAS_NUM_THREADS=1 MKL_NUM_THREADS=1
git checkout -q -- . ; 
reb() { if grep -q c_rain.c "$M/patch.diff"; then /venv/bin/python setup.py build_ext --inplace >/dev/null 2>&1; fi; }
reb
/venv/bin/python "$M/demo.py" >/dev/null 2>&1; base=$?
git apply "$M/patch.diff" || { echo "APPLY-FAILED" > "$M/confirm.txt"; exit 1; }
reb
/venv/bin/python "$M/demo.py" > "$M/demo_mut.out" 2>&1; mut=$?
timeout 1500 /venv/bin/python -m pytest -q -p no:cacheprovider --timeout=900 --continue-on-collection-errors 2>&1 | grep ^FAILED | sed 's/ - .*//' | sort > "$M/fail_mut.txt"
git checkout -q -- . ; reb
sort /tmp/wt/baseline_fail.txt > /tmp/wt/.bf.$$ 
# tests known to be flaky under machine load are re-run alone with the mutant applied
extra=$(comm -13 /tmp/wt/.bf.$$ "$M/fail_mut.txt" | sed 's/^FAILED //')
if [ -n "$extra" ]; then
  git apply "$M/patch.diff"; reb
  still=""
  for t in $extra; do timeout 900 /venv/bin/python -m pytest -q -p no:cacheprovider "$t" >/dev/null 2>&1 || still="$still $t"; done
  git checkout -q -- . ; reb
  if [ -z "$still" ]; then grep -v -F -f <(echo "$extra") "$M/fail_mut.txt" > "$M/fail_mut2.txt"; mv "$M/fail_mut2.txt" "$M/fail_mut.txt"; echo "flaky-under-load (pass alone): $extra" > "$M/flaky.txt"; fi
fi
if diff -q /tmp/wt/.bf.$$ "$M/fail_mut.txt" >/dev/null; then suite=same; else suite="DIFF:$(diff /tmp/wt/.bf.$$ "$M/fail_mut.txt" | tr '\n' ' ')"; fi
rm -f /tmp/wt/.bf.$$
echo "demo_base=$base demo_mut=$mut suite=$suite" | tee "$M/confirm.txt"
