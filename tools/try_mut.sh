#!/bin/bash
# tools/try_mut.sh <PID> <patch.diff> [check args]: run the quick check of PID against a scratch worktree of /repo
# (/tmp/wt/mutrun-<PID>) with the patch applied; /repo and /verif/evidence are not touched.
PID=$1; P=$2; shift 2
W=/tmp/wt/mutrun-$PID
if [ ! -d $W ]; then git -C /repo worktree add -q --detach $W HEAD; fi
git -C $W checkout -q -- . ; git -C $W checkout -q --detach $(git -C /repo rev-parse HEAD)
git -C $W apply "$P" || { echo "APPLY FAILED"; exit 2; }
(cd $W && /venv/bin/python setup.py build_ext --inplace >/dev/null 2>&1)
cd /verif
VERIF_REPO=$W PYTHONPATH=$W VERIF_EVIDENCE_DIR=/tmp/wt/ev-$PID VERIF_REPLAY_DIR=/tmp/wt/ev-$PID/replays ./check $PID --tier ${TIER:-quick} "$@" 2>&1 | grep -v "^WARNING conda" | cut -c1-400 | tail -${TAILN:-5}
echo "exit=${PIPESTATUS[0]}"
git -C $W checkout -q -- .
