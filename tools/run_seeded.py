#!/usr/bin/env python3
"""run the quick check of each seeded change's property (and any extra checks listed) against a scratch
worktree of /repo with the change applied; record the outcome in seeded/<id>/meta.json"""
import json, os, re, subprocess, sys, time
V = os.path.dirname(os.path.dirname(os.path.abspath(__file__)))
EXTRA = {"C04-m1": ["C11"]}          # changes that another property's check is positioned to see
ids = sys.argv[1:] or sorted(os.listdir(os.path.join(V, "seeded")))
for sid in ids:
    d = os.path.join(V, "seeded", sid)
    mp = os.path.join(d, "meta.json")
    if not os.path.exists(mp):
        continue
    meta = json.load(open(mp))
    results = []
    for pid in [meta["property"]] + EXTRA.get(sid, []):
        t = time.time()
        try:
            out = subprocess.run(["timeout", "1500", os.path.join(V, "tools", "try_mut.sh"), pid, os.path.join(d, "patch.diff")],
                                 capture_output=True, text=True, env=dict(os.environ, TAILN="40")).stdout
        except Exception as ex:
            out = "runner failed: %r" % ex
        m = re.search(r"exit=(\d+)", out)
        code = int(m.group(1)) if m else None
        vio = [l.strip() for l in out.splitlines() if l.strip().startswith("kernel=")][:1]
        results.append(dict(check=pid, cmd="tools/try_mut.sh %s seeded/%s/patch.diff  (git worktree of /repo HEAD + git apply; ./check %s --tier quick with PYTHONPATH/VERIF_REPO pointing at it)" % (pid, sid, pid),
                            exit=code, detected=(code == 1), first_violation=(vio[0][:400] if vio else None), wall_s=round(time.time() - t, 1)))
        print(sid, pid, "exit", code, (vio[0][:160] if vio else ""), flush=True)
    meta["check_results"] = results
    meta["detected"] = any(r["detected"] for r in results)
    json.dump(meta, open(mp, "w"), indent=1)
