#!/usr/bin/env python3
"""the stated procedure, literally: git -C /repo apply <patch>; run the check in /verif against /repo; git -C /repo checkout -- .
(tools/try_patch.sh).  Usage: run_seeded_inrepo.py <seeded id>[:<--only filter>] ...   Records `repo_apply_check` in meta.json."""
import json, os, re, subprocess, sys
V = os.path.dirname(os.path.dirname(os.path.abspath(__file__)))
for item in sys.argv[1:]:
    sid, _, only = item.partition(":")
    d = os.path.join(V, "seeded", sid)
    meta = json.load(open(os.path.join(d, "meta.json")))
    pid = meta["property"]
    cmd = [os.path.join(V, "tools", "try_patch.sh"), pid, os.path.join(d, "patch.diff")] + (["--only", only] if only else [])
    out = subprocess.run(cmd, capture_output=True, text=True, env=dict(os.environ, TAILN="5000")).stdout
    m = re.search(r"exit=(\d+)", out)
    code = int(m.group(1)) if m else None
    vio = "VIOLATION property=%s" % pid in out
    clean = subprocess.run(["git", "-C", "/repo", "status", "--short"], capture_output=True, text=True).stdout.strip() == ""
    meta["repo_apply_check"] = dict(cmd="git -C /repo apply seeded/%s/patch.diff ; ./check %s --tier quick%s ; git -C /repo checkout -- ." % (sid, pid, (" --only " + only) if only else ""),
                                    exit=code, violation_line=vio, repo_clean_afterwards=clean)
    json.dump(meta, open(os.path.join(d, "meta.json"), "w"), indent=1)
    print(sid, "exit", code, "VIOLATION" if vio else "-", "repo clean" if clean else "REPO DIRTY", flush=True)
