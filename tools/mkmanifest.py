#!/usr/bin/env python3
"""Regenerate MANIFEST.json from tools/claims.json (+ not_applicable list)."""
import json, os
V = os.path.dirname(os.path.dirname(os.path.abspath(__file__)))
claims = json.load(open(os.path.join(V, "tools", "claims.json")))
props = [json.loads(l)["id"] for l in open(os.path.join(V, "properties.jsonl"))]
checks = []
for pid in props:
    c = claims["checks"].get(pid)
    if not c:
        continue
    checks.append(dict(
        property_id=pid,
        quick_cmd="./check %s --tier quick" % pid,
        thorough_cmd="./check %s --tier thorough" % pid,
        evidence_file="/verif/evidence/%s.json" % pid,
        replay_cmd_template="./check %s --replay {path}" % pid,
        engine="vsym",
        level_claimed=dict(category=c.get("category", "other"), text=c["text"], design_ref=c.get("design_ref", "DESIGN.md section 6")),
        level_note=c["note"],
        technique=c.get("technique", "bounded symbolic execution of the real functions (own concolic path explorer) + z3 SMT"),
    ))
na = [dict(property_id=p, reason=claims["not_applicable"].get(p, "check not built yet (work in progress); no claim is made")) for p in props if p not in claims["checks"]]
m = dict(
    version=1,
    setup_cmd="./setup.sh",
    hooks=dict(guard="PYYETI_VERIF", enable="no hooks are needed: the checks load /repo's functions and patch module globals in their own process",
               baseline_off_cmd="cd /repo && /venv/bin/python -m pytest -ra -q -p no:cacheprovider --timeout=900 --continue-on-collection-errors",
               source_commits=claims.get("hook_commits", []), add_only=True),
    engines=[dict(name="vsym", path="/verif/vsym", serves_properties=[c["property_id"] for c in checks],
                  kind_free_text="concolic path explorer over z3 running pyYeti's own Python functions on symbolic scalars in NumPy object arrays; LLVM-IR interpreter for c_rain.c; symbolic digit strings; symbolic record streams")],
    checks=checks,
    notes=claims.get("notes", ""),
    not_applicable=na,
)
json.dump(m, open(os.path.join(V, "MANIFEST.json"), "w"), indent=1)
import jsonschema
jsonschema.validate(m, json.load(open("/root/.vp/MANIFEST.schema.json")))
print("MANIFEST.json: %d checks, %d not_applicable" % (len(checks), len(na)))
