#!/bin/bash
# tools/try_patch.sh <PID> <patch.diff> [-R] [check args...]: apply a patch to /repo, run the quick check, undo.
PID=$1; P=$2; shift 2
REV=""; if [ "$1" = "-R" ]; then REV="-R"; shift; fi
cd /verif
cp evidence/$PID.json /tmp/.ev.$PID.$$ 2>/dev/null
git -C /repo apply $REV "$P" || { echo "APPLY FAILED"; exit 2; }
if grep -q c_rain.c "$P"; then (cd /repo && /venv/bin/python setup.py build_ext --inplace >/dev/null 2>&1); fi
./check $PID --tier quick "$@" 2>&1 | grep -v "^WARNING conda" | cut -c1-500 | tail -${TAILN:-6}
echo "exit=${PIPESTATUS[0]}"
git -C /repo checkout -q -- .
if grep -q c_rain.c "$P"; then (cd /repo && /venv/bin/python setup.py build_ext --inplace >/dev/null 2>&1); fi
cp /tmp/.ev.$PID.$$ evidence/$PID.json 2>/dev/null; rm -f /tmp/.ev.$PID.$$
git -C /repo status --short | head -3
