#!/bin/bash
# scratch worktree of /repo for a mutant sub-agent: tools/mkwt.sh <name>
set -e
D=/tmp/wt/$1
mkdir -p /tmp/wt
git -C /repo worktree add -q --detach "$D" HEAD
cd "$D" && /venv/bin/python setup.py build_ext --inplace >/dev/null 2>&1
mkdir -p "$D/out"
echo "$D"
