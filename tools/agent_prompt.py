#!/usr/bin/env python3
"""print the prompt given to a mutant-writing sub-agent for one property (property text only, nothing else from /verif)"""
import json, sys
pid = sys.argv[1]
n = int(sys.argv[2]) if len(sys.argv) > 2 else 3
wt = "/tmp/wt/%s" % (sys.argv[3] if len(sys.argv) > 3 else pid)
for l in open("/verif/properties.jsonl"):
    d = json.loads(l)
    if d["id"] == pid:
        break
a = d["anchors"]
print(f"""You are helping to evaluate a verification effort for the Python library pyYeti (structural dynamics toolkit). You have your own scratch git worktree of the library at {wt} (HEAD = the current code). Work ONLY inside {wt}. Do not read or write /repo or /verif or any other directory under /tmp/wt.

A semantic property that pyYeti is supposed to satisfy:

TITLE: {d['title']}
STATEMENT: {d['statement']}
QUANTIFIED OVER: {d['quantifier']['text']}
CODE ANCHORS: files {', '.join(a['files'])}; mechanisms: {'; '.join(m['name'] + ' (' + m['where'] + ')' for m in a['mechanism'])}
OBSERVED AT: {'; '.join(a['observe_at'])}

YOUR TASK: produce {n} DIFFERENT, independent changes ("mutants") to the library source (files under {wt}/pyyeti, never the tests) that each BREAK this property while the library still imports and the existing test suite still passes exactly as before. Make them realistic - the kind of slip a maintainer could make in a refactor or an "optimisation" - and subtle: each change must need something specific to manifest (an unusual input, a particular option combination, a boundary/regime, a multi-step sequence of operations, a particular order, or two cooperating edits that each look fine alone), NOT something ordinary use would expose at once. Spread the {n} mutants over different functions / mechanisms of the property where possible.

How to work:
- Python to use: /venv/bin/python. Run things from the worktree root so that the worktree's pyyeti is imported: `cd {wt} && /venv/bin/python -c "import pyyeti; print(pyyeti.__file__)"` must print a path under {wt}.
- Full test suite (about 1.5 minutes): `cd {wt} && /venv/bin/python -m pytest -q -p no:cacheprovider --timeout=900 --continue-on-collection-errors 2>&1 | tail -30`. On the unmodified code exactly 16 tests fail for environment reasons (listed in /tmp/wt/baseline_fail.txt, one test id per line) and 490 pass. With your mutant applied the set of failing tests must be exactly the same 16 (compare the `FAILED` lines with that file). You may run just the relevant test files while iterating but must run the full suite once per final mutant. Run the suite with `OMP_NUM_THREADS=1 OPENBLAS_NUM_THREADS=1` in the environment and under `timeout 1500`; the machine is shared and heavily loaded, two tests (test_cb.py::test_cbcheck_determinate, test_fdepsd.py::test_fdepsd_absacce) are known to be flaky under load (re-run them alone), and a run that hangs in a multiprocessing pool should be killed and repeated.
- If you change pyyeti/rainflow/c_rain.c rebuild it with `cd {wt} && /venv/bin/python setup.py build_ext --inplace`.
- For each mutant k = 1..{n} create the directory {wt}/out/m<k>/ containing:
  * patch.diff - output of `git diff` for that mutant alone relative to HEAD (must apply with `git apply` to a clean checkout; paths relative to the repository root),
  * demo.py - a small self-contained program run as `cd <repo root> && /venv/bin/python out/m<k>/demo.py` (it must import pyyeti from the current directory: start it with `import sys; sys.path.insert(0, '.')`) that exits with status 0 on the unmodified code and a non-zero status (assert failure) with the mutant applied, showing the property violated through the public API listed under OBSERVED AT; compare against an independent expectation (closed form, a reference computation, or another pyYeti path that the property says must agree), not against numbers stored from the unmodified code,
  * notes.md - 5-10 lines: what was changed, which part of the property it breaks, what exactly is needed for it to manifest, and confirmation of the test-suite result (number passed/failed with the mutant).
- Verify each mutant yourself: apply -> demo fails, full suite shows only the 16 baseline failures; revert (`git checkout -- .`) -> demo passes.
- When finished, leave the worktree source clean (`git checkout -- .`; only the untracked out/ directory remains) and reply with a short list: for each mutant one line with the file/function changed and the trigger condition.
""")
