"""prototype LLVM-IR (clang-14 -O0, typed pointers) symbolic interpreter for c_rain.c rainflow1/2"""
import re, struct, z3

from .sym import SymR, SymB, lift

class StepBudget(Exception):
    pass


class IRError(Exception):
    pass


class Types:
    def __init__(self, text):
        self.defs = {}
        for m in re.finditer(r'^(%[\w.]+) = type (\{.*\}|opaque)$', text, re.M):
            self.defs[m.group(1)] = m.group(2)
        self.cache = {}
    @staticmethod
    def split(s):
        out, depth, cur = [], 0, ''
        for ch in s:
            if ch in '([{<': depth += 1
            if ch in ')]}>': depth -= 1
            if ch == ',' and depth == 0: out.append(cur.strip()); cur = ''
            else: cur += ch
        if cur.strip(): out.append(cur.strip())
        return out
    def fields(self, t):
        t = t.strip()
        if t in self.defs: t = self.defs[t]
        assert t.startswith('{'), t
        return self.split(t[1:-1].strip())
    def sizealign(self, t):
        t = t.strip()
        if t in self.cache: return self.cache[t]
        if t.endswith('*') or t.endswith(')*'): r = (8, 8)
        elif t in ('i8', 'i1'): r = (1, 1)
        elif t == 'i16': r = (2, 2)
        elif t in ('i32', 'float'): r = (4, 4)
        elif t in ('i64', 'double'): r = (8, 8)
        elif t.startswith('['):
            m = re.match(r'\[(\d+) x (.*)\]$', t); n = int(m.group(1)); s, a = self.sizealign(m.group(2)); r = (n*s, a)
        elif t.startswith('{') or t in self.defs:
            off, al = 0, 1
            for f in self.fields(t):
                s, a = self.sizealign(f); off = (off + a - 1)//a*a + s; al = max(al, a)
            r = ((off + al - 1)//al*al, al)
        else: raise ValueError(t)
        self.cache[t] = r; return r
    def field_offset(self, t, idx):
        off = 0
        for i, f in enumerate(self.fields(t)):
            s, a = self.sizealign(f); off = (off + a - 1)//a*a
            if i == idx: return off, f
            off += s
    def elem(self, t):
        m = re.match(r'\[(\d+) x (.*)\]$', t.strip()); return m.group(2)

class Block:
    n = 0
    def __init__(self, kind, **kw):
        Block.n += 1; self.id = Block.n; self.kind = kind; self.mem = {}; self.__dict__.update(kw)
    def __repr__(self): return f'<{self.kind}#{self.id}>'

class Func:
    def __init__(self, name, params, body):
        self.name, self.params = name, params
        self.blocks = {}; cur = None; self.entry = None
        for ln in body:
            ln = ln.split(' ; preds')[0].rstrip(); ln = re.sub(r', !llvm\.loop !\d+$', '', ln)
            if not ln.strip() or ln.strip().startswith(';'): continue
            m = re.match(r'^(\d+|[\w.]+):', ln)
            if m:
                cur = m.group(1); self.blocks[cur] = []; continue
            if cur is None:
                cur = 'entry'; self.blocks[cur] = []; self.entry = cur
            self.blocks[cur].append(ln.strip())

class Interp:
    def __init__(self, path=None, text=None):
        self.text = text if text is not None else open(path).read()
        self.types = Types(self.text)
        self.funcs = {}
        for m in re.finditer(r'^define [^@]*@([\w.]+)\(([^)]*)\)[^{]*\{\n(.*?)^\}', self.text, re.M | re.S):
            params = [p.split()[-1] for p in Types.split(m.group(2))] if m.group(2).strip() else []
            self.funcs[m.group(1)] = Func(m.group(1), params, m.group(3).split('\n'))
        self.globals = {}
        self.steps = 0
        self.maxsteps = 10**6
        self.strs = {m.group(1): m.group(2) for m in re.finditer(r'^(@[\w.]+) = .*? c"([^"]*)"', self.text, re.M)}
    # ---- values
    def val(self, tok, env):
        tok = tok.strip()
        if tok.startswith('%'): return env[tok]
        if tok == 'null': return None
        if tok in ('true', 'false'): return tok == 'true'
        if re.fullmatch(r'-?\d+', tok): return int(tok)
        if re.fullmatch(r'-?\d+\.\d+e[+-]\d+', tok) or tok.startswith('0x'):
            import struct
            return struct.unpack('>d', bytes.fromhex(tok[2:]))[0] if tok.startswith('0x') else float(tok)
        if tok.startswith('@'): return ('global', tok)
        if tok.startswith('getelementptr'):
            m = re.search(r'(@[\w.]+)', tok); return ('global', m.group(1))
        if tok.startswith('bitcast'):
            m = re.search(r'\((.*) to ', tok); return self.val(m.group(1).split()[-1], env)
        raise ValueError('val ' + tok)
    def typed(self, s):
        """split 'T [attrs] V' -> (T, V) ; V is last whitespace token unless const expr"""
        s = s.strip()
        for kw in ('getelementptr', 'bitcast'):
            i = s.find(' ' + kw)
            if i >= 0: return s[:i].strip(), s[i+1:]
        parts = s.rsplit(' ', 1)
        t = parts[0]
        for a in (' noundef', ' nonnull', ' noalias'): t = t.replace(a, '')
        return t.strip(), parts[1]
    def load(self, ptr):
        if ptr is None: raise RuntimeError('null deref')
        if ptr[0] == 'global': return self.globals.get(ptr[1])
        blk, off = ptr
        if getattr(blk, 'size', None) is not None and not (0 <= off < blk.size): raise IRError(f'OOB load {blk} off {off} size {blk.size}')
        if getattr(blk, 'freed', False): raise IRError(f'use after free {blk}')
        return blk.mem.get(off, 0)
    def store(self, ptr, v):
        if ptr[0] == 'global': self.globals[ptr[1]] = v; return
        blk, off = ptr
        if getattr(blk, 'size', None) is not None and not (0 <= off < blk.size): raise IRError(f'OOB store {blk} off {off} size {blk.size}')
        blk.mem[off] = v
    def gep(self, basety, ptr, idxs):
        T = self.types
        if ptr is None: raise RuntimeError('gep null')
        if ptr[0] == 'global': return ptr
        blk, off = ptr
        s, _ = T.sizealign(basety); off += idxs[0]*s; t = basety
        for ix in idxs[1:]:
            t = t.strip()
            if t.startswith('['):
                e = T.elem(t); off += ix*T.sizealign(e)[0]; t = e
            else:
                o, t = T.field_offset(t, ix); off += o
        return (blk, off)
    # ---- calls
    def call(self, name, args, env_types=None):
        if isinstance(name, str) and name in self.funcs: return self.run(name, args)
        return self.extern(name, args)
    def run(self, fname, args):
        f = self.funcs[fname]; env = dict(zip(f.params, args)); label = f.entry
        while True:
            for ins in f.blocks[label]:
                self.steps += 1
                if self.steps > self.maxsteps: raise StepBudget('IR step budget exceeded')
                r = self.step(ins, env)
                if r is None: continue
                if r[0] == 'br': label = r[1]; break
                if r[0] == 'ret': return r[1]
            else:
                raise RuntimeError('fell off block ' + label)
    def step(self, ins, env):
        dst = None
        m = re.match(r'(%[\w.]+) = (.*)', ins)
        if m: dst, ins = m.group(1), m.group(2)
        op = ins.split()[0]
        if op == 'alloca':
            t = ins[len('alloca '):].split(', align')[0]
            env[dst] = (Block('stack', size=self.types.sizealign(t)[0]), 0)
        elif op == 'store':
            a, b = Types.split(ins[6:].split(', align')[0])
            _, v = self.typed(a); _, p = self.typed(b)
            self.store(self.val(p, env), self.val(v, env))
        elif op == 'load':
            parts = Types.split(ins[5:].split(', align')[0]); _, p = self.typed(parts[1])
            env[dst] = self.load(self.val(p, env))
        elif op == 'getelementptr':
            body = ins[len('getelementptr '):].replace('inbounds ', '', 1)
            parts = Types.split(body); basety = parts[0]; _, p = self.typed(parts[1])
            idxs = [self.val(self.typed(x)[1], env) for x in parts[2:]]
            env[dst] = self.gep(basety, self.val(p, env), idxs)
        elif op == 'bitcast':
            m2 = re.match(r'bitcast (.*) to (.*)', ins); _, v = self.typed(m2.group(1)); env[dst] = self.val(v, env)
        elif op in ('sext', 'zext', 'trunc', 'ptrtoint', 'inttoptr'):
            m2 = re.match(r'\w+ (.*) to (.*)', ins); t, v = self.typed(m2.group(1)); x = self.val(v, env)
            to = m2.group(2).strip()
            if isinstance(x, bool): x = int(x)
            if op == 'trunc' and isinstance(x, int):
                bits = int(to[1:]); x &= (1 << bits) - 1
                if to != 'i1' and x >> (bits-1): x -= 1 << bits
                if to == 'i1': x = bool(x)
            env[dst] = x
        elif op in ('add', 'sub', 'mul'):
            body = re.sub(r'^\w+ (nsw |nuw )*', '', ins); t, rest = body.split(' ', 1); a, b = [self.val(x, env) for x in Types.split(rest)]
            env[dst] = a + b if op == 'add' else a - b if op == 'sub' else a * b
        elif op in ('fadd', 'fsub', 'fmul', 'fdiv'):
            body = ins.split(' ', 2)[2]; a, b = [self.val(x, env) for x in Types.split(body)]
            env[dst] = {'fadd': lambda: a + b, 'fsub': lambda: a - b, 'fmul': lambda: a * b, 'fdiv': lambda: a / b}[op]()
        elif op == 'icmp':
            _, pred, rest = ins.split(' ', 2); t, rest = rest.rsplit(' ', 2)[0], rest
            parts = Types.split(rest); t, a = self.typed(parts[0]); a = self.val(a, env); b = self.val(parts[1], env)
            if isinstance(a, tuple) or isinstance(b, tuple) or a is None or b is None:
                r = (a == b) if pred == 'eq' else (a != b)
            else:
                r = {'eq': a == b, 'ne': a != b, 'slt': a < b, 'sle': a <= b, 'sgt': a > b, 'sge': a >= b, 'ult': a < b, 'ugt': a > b, 'ule': a <= b, 'uge': a >= b}[pred]
            env[dst] = r
        elif op == 'fcmp':
            _, pred, rest = ins.split(' ', 2); parts = Types.split(rest); _, a = self.typed(parts[0]); a = self.val(a, env); b = self.val(parts[1], env)
            env[dst] = {'olt': lambda: a < b, 'ogt': lambda: a > b, 'ole': lambda: a <= b, 'oge': lambda: a >= b, 'oeq': lambda: a == b, 'une': lambda: a != b}[pred]()
        elif op == 'br':
            m2 = re.match(r'br label %([\w.]+)$', ins)
            if m2: return ('br', m2.group(1))
            m2 = re.match(r'br i1 ([^,\s]+), label %([\w.]+), label %([\w.]+)', ins)
            c = self.val(m2.group(1), env)
            return ('br', m2.group(2) if bool(c) else m2.group(3))
        elif op == 'ret':
            if ins.strip() == 'ret void': return ('ret', None)
            _, v = self.typed(ins[4:]); return ('ret', self.val(v, env))
        elif op == 'call':
            m2 = re.match(r'call (?:noalias )?(.*?) ((?:@|%)[\w.]+)\((.*)\)( #\d+)?$', ins)
            if not m2: raise ValueError('call ' + ins)
            callee = m2.group(2); args = [self.val(self.typed(a)[1], env) for a in Types.split(m2.group(3))] if m2.group(3).strip() else []
            if callee.startswith('%'): callee = env[callee]
            else: callee = callee[1:]
            r = self.call(callee, args)
            if dst: env[dst] = r
        else:
            raise ValueError('unsupported: ' + ins)
    # ---- environment model
    def new_array(self, shape, typenum):
        data = Block('arraydata', size=8*max(1, shape[0]*shape[1] if len(shape) == 2 else shape[0]))
        arr = Block('ndarray', shape=tuple(shape), typenum=typenum, data=data, size=96)
        arr.mem[0] = 1; arr.mem[16] = (data, 0)
        return (arr, 0)
    def extern(self, name, args):
        h = getattr(self, 'hooks', {}).get(name)
        if h is not None:
            return h(self, args)
        if isinstance(name, tuple) and name[0] == 'pyapi':
            idx = name[1]
            if idx == self.api_new:
                nd = args[1]; dims = [self.load((args[2][0], args[2][1] + 8*i)) for i in range(nd)]
                return self.new_array(dims, args[3])
            raise RuntimeError(f'PyArray_API[{idx}] not modelled')
        if name == 'calloc': return (Block('heap', size=args[0]*args[1]), 0)
        if name == 'free':
            if args[0] is not None: args[0][0].freed = True
            return None
        if name == 'llvm.fabs.f64': return abs(args[0])
        if name == 'PyLong_FromSsize_t':
            b = Block('pylong', value=args[0], size=32); b.mem[0] = 1; return (b, 0)
        if name == 'PySlice_New':
            b = Block('slice', stop=args[1][0].value, size=32); b.mem[0] = 1; return (b, 0)
        if name == 'PyObject_GetItem':
            src = args[0][0]; stop = args[1][0].stop
            shape = (min(stop, src.shape[0]),) + src.shape[1:]
            arr = Block('ndarray', shape=shape, typenum=src.typenum, data=src.data, size=96); arr.mem[0] = 1; arr.mem[16] = (src.data, 0)
            return (arr, 0)
        if name == 'Py_BuildValue': return ('tuple', [a[0] for a in args[1:]])
        if name == '_Py_Dealloc': args[0][0].freed = True; return None
        raise RuntimeError('extern not modelled: ' + str(name))

def setup(ip, api_new=93):
    ip.api_new = api_new
    api = Block('apitable', size=8*400)
    for i in range(400): api.mem[8*i] = ('pyapi', i)
    ip.globals['@PyArray_API'] = (api, 0)

def read_array(arrblk):
    r, c = arrblk.shape
    return [[arrblk.data.mem.get(8*(i*c + j), 0) for j in range(c)] for i in range(r)]
