"""Produce LLVM IR / a loadable .so for /repo's c_rain.c in a scratch dir."""
import atexit
import importlib.util
import os
import re
import shutil
import subprocess
import sysconfig
import tempfile

import numpy

from .harness import REPO

_TMP = []


def scratch():
    d = tempfile.mkdtemp(prefix="verif-c05-")
    _TMP.append(d)
    return d


@atexit.register
def _cleanup():
    for d in _TMP:
        shutil.rmtree(d, ignore_errors=True)


def _incs():
    return ["-I" + sysconfig.get_paths()["include"], "-I" + numpy.get_include()]


C_SRC = os.path.join(REPO, "pyyeti", "rainflow", "c_rain.c")


def variant_source(variant, tmp):
    """'asis' -> path of the file in the working tree; 'twopass' -> scratch copy
    with the USE_FASTER_RAINFLOW_ROUTINE define removed (the other preprocessor
    variant of the same source)"""
    if variant == "asis":
        return C_SRC
    txt = open(C_SRC).read()
    new, n = re.subn(r"^#define\s+USE_FASTER_RAINFLOW_ROUTINE\s*$", "", txt, flags=re.M)
    if n == 0:
        # macro currently undefined in the tree: the other variant defines it
        new = txt.replace("static PyObject *rainflow1(PyArrayObject *peaks_array, npy_intp L);",
                          "#define USE_FASTER_RAINFLOW_ROUTINE\nstatic PyObject *rainflow1(PyArrayObject *peaks_array, npy_intp L);", 1)
    p = os.path.join(tmp, "c_rain_%s.c" % variant)
    with open(p, "w") as f:
        f.write(new)
    return p


def emit_ir(variant="asis"):
    tmp = scratch()
    src = variant_source(variant, tmp)
    out = os.path.join(tmp, "c_rain_%s.ll" % variant)
    cmd = ["clang", "-O0", "-S", "-emit-llvm", "-Xclang", "-disable-O0-optnone"] + _incs() + [src, "-o", out]
    subprocess.run(cmd, check=True, capture_output=True)
    txt = open(out).read()
    return txt


def api_index(symbol="PyArray_New"):
    """index of a function in NumPy's C-API table, parsed from the header the
    extension is compiled against"""
    hdr = os.path.join(numpy.get_include(), "numpy", "__multiarray_api.h")
    txt = open(hdr).read()
    m = re.search(r"#define\s+%s\s*\\\s*\(\*\([^)]*\(\*\)[^\n]*\)\s*\\\s*PyArray_API\[(\d+)\]\)" % symbol, txt)
    if not m:
        m = re.search(r"#define %s \\\n[^\n]*\\\n\s*PyArray_API\[(\d+)\]\)" % symbol, txt)
    if not m:
        raise RuntimeError("cannot find %s in %s" % (symbol, hdr))
    return int(m.group(1))


def build_so(variant="asis"):
    tmp = scratch()
    src = variant_source(variant, tmp)
    d = os.path.join(tmp, "so_" + variant)
    os.makedirs(d)
    ext = sysconfig.get_config_var("EXT_SUFFIX")
    out = os.path.join(d, "c_rain" + ext)
    cmd = ["clang", "-O1", "-shared", "-fPIC"] + _incs() + [src, "-o", out, "-lm"]
    subprocess.run(cmd, check=True, capture_output=True)
    spec = importlib.util.spec_from_file_location("c_rain", out)
    mod = importlib.util.module_from_spec(spec)
    spec.loader.exec_module(mod)
    return mod
