"""Check driver: job pool, result aggregation, replay files, evidence, exit code.

A check module (checks/cXX.py) exposes

    PID = "C05"
    def jobs(tier, seed) -> list[Job]
    REPLAY = {kernel_name: fn(payload) -> (reproduced: bool, detail: str)}
    META = dict(level=..., functions=[...], stubs=[...], outside=[...], bounds=...)

A Job runs in a worker process and returns a result dict produced by
`engine.explore` (possibly merged over several explorations) plus

    violations   list of dict(kernel, detail, payload)  - replay confirmed
    known_hits   list of dict(finding, detail)          - replay confirmed
    unreproduced list of dict(kernel, detail)           - model did not replay
    reach        dict target -> count
"""
import hashlib
import inspect
import json
import multiprocessing as mp
import os
import sys
import time
import traceback
from fractions import Fraction

VERIF = os.path.dirname(os.path.dirname(os.path.abspath(__file__)))
REPO = os.environ.get("VERIF_REPO", "/repo")
EXIT_OK, EXIT_VIOLATION, EXIT_HARNESS = 0, 1, 3


class Job:
    def __init__(self, name, fn, *args, weight=1, **kw):
        self.name, self.fn, self.args, self.kw, self.weight = name, fn, args, kw, weight


def known_findings():
    p = os.path.join(VERIF, "known_findings.json")
    try:
        with open(p) as f:
            d = json.load(f)
    except FileNotFoundError:
        return {}
    return {e["id"]: e for e in d.get("findings", [])}


_KF = None


def finding_listed(fid):
    global _KF
    if _KF is None:
        _KF = known_findings()
    return fid in _KF


def src_hash(obj):
    try:
        s = inspect.getsource(obj)
    except Exception:
        return "?"
    return hashlib.sha1(s.encode()).hexdigest()[:12]


def fn_id(obj):
    return "%s.%s@%s" % (getattr(obj, "__module__", "?"), getattr(obj, "__qualname__", str(obj)), src_hash(obj))


def jsonable(x):
    if isinstance(x, Fraction):
        return float(x)
    if isinstance(x, dict):
        return {str(k): jsonable(v) for k, v in x.items()}
    if isinstance(x, (list, tuple, set)):
        return [jsonable(v) for v in x]
    if isinstance(x, (str, int, float, bool)) or x is None:
        return x
    try:
        import numpy as np
        if isinstance(x, np.ndarray):
            return jsonable(x.tolist())
        if isinstance(x, np.generic):
            return jsonable(x.item())
    except Exception:
        pass
    if isinstance(x, complex):
        return [x.real, x.imag]
    return str(x)


def write_replay(pid, kernel, payload, detail):
    d = os.environ.get("VERIF_REPLAY_DIR") or os.path.join(VERIF, "replays")
    os.makedirs(d, exist_ok=True)
    body = dict(property=pid, kernel=kernel, payload=jsonable(payload), detail=detail)
    s = json.dumps(body, sort_keys=True, indent=1)
    h = hashlib.sha1(s.encode()).hexdigest()[:10]
    p = os.path.join(d, "%s-%s-%s.json" % (pid, kernel, h))
    with open(p, "w") as f:
        f.write(s)
    return p


def triage(res, kernel, replay_fn, to_payload, max_replays=6):
    """Replay the solver's counterexamples against the real code.

    replay_fn(payload) -> (reproduced, detail); to_payload(cex_entry) -> payload
    (a JSON-able dict with the concrete inputs).  Adds violations / known_hits
    / unreproduced lists to `res`.
    """
    res.setdefault("violations", [])
    res.setdefault("known_hits", [])
    res.setdefault("unreproduced", [])
    for kind, dest in (("cex", "violations"), ("known", "known_hits")):
        seen = 0
        for c in res.get(kind, []):
            if seen >= max_replays:
                break
            seen += 1
            try:
                payload = to_payload(c)
                ok, detail = replay_fn(payload)
            except Exception as ex:  # replay machinery failed -> not reproduced
                payload, ok, detail = None, False, "replay raised %r\n%s" % (ex, traceback.format_exc()[-600:])
            ent = dict(kernel=kernel, labels=c.get("labels"), detail=detail,
                       payload=jsonable(payload), finding=c.get("finding"))
            if ok:
                res[dest].append(ent)
            else:
                ent["kind"] = kind
                res["unreproduced"].append(ent)
    # models are big; drop them from what is shipped back
    for kind in ("cex", "known"):
        for c in res.get(kind, []):
            c["model"] = {k: (float(v) if isinstance(v, Fraction) else v)
                          for k, v in list(c.get("model", {}).items())[:30]}
    return res


def _run_job(job):
    t = time.time()
    try:
        r = job.fn(*job.args, **job.kw)
        if r is None:
            r = {}
    except BaseException as ex:
        r = dict(errors=["job %s crashed: %r\n%s" % (job.name, ex, traceback.format_exc()[-1500:])],
                 crashed=True)
    r["job"] = job.name
    if r.get("errors"):
        r["errors"] = [e if str(e).startswith("job ") else "[%s] %s" % (job.name, e) for e in r["errors"]]
    r["wall_s"] = round(time.time() - t, 2)
    return r


def _child(conn, job):
    r = _run_job(job)
    try:
        conn.send(r)
    except Exception as ex:
        conn.send(dict(job=job.name, crashed=True, errors=["result not picklable: %r" % ex]))
    conn.close()


def run_jobs(jobs, nproc=None, job_timeout=None):
    """One forked process per job (at most nproc at a time).  A worker that
    dies (e.g. the real C code under replay corrupts memory) or exceeds
    job_timeout is reported as a crashed job instead of hanging the check.
    A result may carry `spawn`: follow-up jobs (prefix-split exploration)."""
    nproc = nproc or min(16, os.cpu_count() or 4)
    queue = sorted(jobs, key=lambda j: -j.weight)
    out = []
    if nproc == 1:
        while queue:
            r = _run_job(queue.pop(0))
            for sp in r.pop("spawn", []) or []:
                queue.append(Job(sp[0], sp[1], *sp[2], **(sp[3] if len(sp) > 3 else {})))
            out.append(r)
        return out
    ctx = mp.get_context("fork")
    running = []   # (proc, conn, job, t0)
    while queue or running:
        while queue and len(running) < nproc:
            j = queue.pop(0)
            pc, cc = ctx.Pipe(duplex=False)
            p = ctx.Process(target=_child, args=(cc, j))
            p.start()
            cc.close()
            running.append((p, pc, j, time.time()))
        still = []
        progressed = False
        for p, pc, j, t0 in running:
            r = None
            if pc.poll():
                try:
                    r = pc.recv()
                except EOFError:
                    r = dict(job=j.name, crashed=True, errors=["job %s: worker died (exit %s)" % (j.name, p.exitcode)])
                p.join(5)
            elif not p.is_alive():
                p.join()
                r = dict(job=j.name, crashed=True, errors=["job %s: worker died (exit %s)" % (j.name, p.exitcode)])
            elif job_timeout and time.time() - t0 > job_timeout:
                p.kill()
                p.join()
                r = dict(job=j.name, crashed=True, timed_out=True, errors=["job %s: exceeded %ss" % (j.name, job_timeout)])
            if r is None:
                still.append((p, pc, j, t0))
                continue
            progressed = True
            pc.close()
            if os.environ.get("VERIF_PROGRESS"):
                print("[job %s: %.1fs%s, %d running, %d queued]" % (j.name, time.time() - t0, " CRASHED" if r.get("crashed") else "", len(running) - 1, len(queue)), file=sys.stderr, flush=True)
            for sp in r.pop("spawn", []) or []:
                queue.append(Job(sp[0], sp[1], *sp[2], **(sp[3] if len(sp) > 3 else {})))
            out.append(r)
        running = still
        if not progressed:
            time.sleep(0.01)
    return out


def isolated(fn_path, payload, timeout=120):
    """run `module:function(payload)` in a fresh interpreter (used to replay
    counterexamples on compiled code that may crash); returns its JSON result
    or dict(crashed=..., returncode=...)"""
    import subprocess
    code = ("import sys, json; sys.path.insert(0, %r); import importlib; "
            "m, f = %r.split(':'); r = getattr(importlib.import_module(m), f)(json.loads(sys.stdin.read())); "
            "print('\\n@@RESULT@@' + json.dumps(r))") % (VERIF, fn_path)
    try:
        p = subprocess.run([sys.executable, "-c", code], input=json.dumps(jsonable(payload)), text=True,
                           capture_output=True, timeout=timeout)
    except subprocess.TimeoutExpired:
        return dict(crashed="timeout after %ss" % timeout, returncode=None)
    if "@@RESULT@@" in p.stdout:
        return json.loads(p.stdout.split("@@RESULT@@")[-1])
    return dict(crashed=(p.stderr or "")[-400:], returncode=p.returncode)


def finish(pid, tier, seed, meta, results, t0, extra_cov=None):
    """aggregate, print, write evidence, return exit code"""
    from . import engine as _e
    tot = {}
    violations, known_hits, unrepro, errors = [], [], [], []
    reach = {}
    per_job = []
    for r in results:
        _e.merge(tot, {k: r.get(k, 0 if k not in ("cex", "known", "errors", "roots", "samples", "tags") else ([] if k != "tags" else {}))
                       for k in ("paths", "obligations", "unsat", "sat", "unknown", "aborted",
                                 "inconclusive_paths", "nontrivial", "nchecks", "solver_s",
                                 "cex", "known", "errors", "roots", "samples", "tags", "timed_out")})
        violations += r.get("violations", [])
        known_hits += r.get("known_hits", [])
        # a recorded finding whose model does not replay is just not reported
        unrepro += [u for u in r.get("unreproduced", []) if u.get("kind") != "known"]
        for k, v in r.get("reach", r.get("tags", {})).items():
            reach[k] = reach.get(k, 0) + v
        per_job.append(dict(job=r.get("job"), paths=r.get("paths", 0), obligations=r.get("obligations", 0),
                            unsat=r.get("unsat", 0), sat=r.get("sat", 0), unknown=r.get("unknown", 0),
                            wall_s=r.get("wall_s"), solver_s=r.get("solver_s", 0),
                            note=r.get("note")))
        if r.get("crashed"):
            errors += r.get("errors", [])
    errors += [e for e in tot.get("errors", []) if e not in errors]
    missing = [t for t in meta.get("reach_required", []) if reach.get(t, 0) == 0]
    code = EXIT_OK
    # --- report
    kf_seen = set()
    for k in known_hits:
        key = (k.get("finding"),)
        if key in kf_seen:
            continue
        kf_seen.add(key)
        print("KNOWN-FINDING: property=%s %s: %s" % (pid, k.get("finding"), (k.get("detail") or "").splitlines()[0][:300]))
    vio_files = []
    for v in violations:
        p = write_replay(pid, v["kernel"], v["payload"], v["detail"])
        if p not in vio_files:
            vio_files.append(p)
            print("VIOLATION property=%s replay=%s" % (pid, p))
            print("  kernel=%s %s" % (v["kernel"], (v.get("detail") or "")[:400].replace("\n", " | ")))
    if violations:
        code = EXIT_VIOLATION
    crashed = any(r.get("crashed") for r in results)
    if code == EXIT_OK and (unrepro or crashed or missing or
                            (tot.get("obligations", 0) == 0) or
                            tot.get("unsat", 0) == 0):
        code = EXIT_HARNESS
    if code == EXIT_OK and meta.get("strict_inconclusive", True) and (
            tot.get("unknown", 0) or tot.get("inconclusive_paths", 0) or tot.get("timed_out")):
        # inconclusive parts are reported in the evidence; they fail the check
        # only if they exceed the budget the check declares acceptable
        allowed = meta.get("allowed_unknown", 0)
        if tot.get("unknown", 0) + tot.get("inconclusive_paths", 0) > allowed or tot.get("timed_out"):
            code = EXIT_HARNESS
    for u in unrepro[:5]:
        print("HARNESS-ERROR: property=%s kernel=%s solver model did not reproduce on the real code: %s" % (
            pid, u["kernel"], (u.get("detail") or "")[:300].replace("\n", " | ")))
    for e in errors[:8]:
        print("HARNESS-NOTE: %s" % str(e)[:600])
    if missing:
        print("HARNESS-ERROR: reachability targets not hit: %s" % missing)
    wall = time.time() - t0
    samples = tot.get("samples", [])[:3]
    if not samples:
        samples = [dict(job=j["job"], paths=j["paths"], obligations=j["obligations"]) for j in per_job[:3]]
    cov = dict(
        explanation=("bounded symbolic execution of the repository's own functions (path exploration "
                     "with z3); every obligation is decided by the solver for all values of the "
                     "symbolic inputs within the stated bounds"),
        evaluations=int(tot.get("paths", 0)),
        distinct_nontrivial=int(tot.get("nontrivial", 0)),
        rule=("evaluations = feasible execution paths explored (each a distinct path condition); "
              "non-trivial = paths with at least one solver-decided branch or a symbolic obligation"),
        samples=jsonable(samples),
        obligations=int(tot.get("obligations", 0)),
        discharged=int(tot.get("unsat", 0)),
        sat=int(tot.get("sat", 0)),
        unknown=int(tot.get("unknown", 0)),
        inconclusive_paths=int(tot.get("inconclusive_paths", 0)),
        aborted_paths=int(tot.get("aborted", 0)),
        solver_calls=int(tot.get("nchecks", 0)),
        solver_s=float(tot.get("solver_s", 0)),
        checker_cmd="./check %s --tier %s" % (pid, tier),
        trusted_base=meta.get("trusted_base", ["z3 5.1", "CPython 3.12", "NumPy array semantics on dtype=object"]),
        functions_encoded=meta.get("functions", []),
        stubs=meta.get("stubs", []),
        bounds=meta.get("bounds", {}).get(tier, meta.get("bounds")),
        outside_claim=meta.get("outside", []),
        reach=reach,
        reach_required=meta.get("reach_required", []),
        kernels=per_job,
        known_findings_reported=sorted({k.get("finding") for k in known_hits if k.get("finding")}),
        violations_detail=[dict(kernel=v["kernel"], detail=(v.get("detail") or "")[:500]) for v in violations[:5]],
        unreproduced=len(unrepro),
        exit_code=code,
    )
    if extra_cov:
        cov.update(extra_cov)
    # the generic counters must be >= schema minima to be a valid file; they
    # are measured, so a run that explored nothing yields an invalid file on
    # purpose (and exit 3)
    ev = dict(property_id=pid, tier=tier, seed=int(seed), level=meta.get("level", "other"),
              coverage=cov, assumptions=meta.get("assumptions", []), wall_s=round(wall, 2),
              violations=len(vio_files))
    evdir = os.environ.get("VERIF_EVIDENCE_DIR") or os.path.join(VERIF, "evidence")   # override: runs against scratch copies of the repo
    os.makedirs(evdir, exist_ok=True)
    with open(os.path.join(evdir, "%s.json" % pid), "w") as f:
        json.dump(jsonable(ev), f, indent=1, sort_keys=True)
    print("%s tier=%s paths=%d obligations=%d unsat=%d sat=%d unknown=%d known-findings=%d wall=%.1fs exit=%d" % (
        pid, tier, cov["evaluations"], cov["obligations"], cov["discharged"], cov["sat"],
        cov["unknown"], len(kf_seen), wall, code))
    return code
