"""Symbolic record stream: a binary file as a list of typed fields whose integer
values / widths may be symbolic, a stand-in for the `struct` module that packs
into and unpacks from such fields, and the file object served from them.

A read that does not start on a field boundary, crosses one, runs past the end
or decodes a field with the wrong type / byte order / width raises
StreamViolation: for a reader that is itself the finding ("positioned exactly at
the next block", "words per number", ...).
"""
import re
import struct as _struct

import numpy as _np
import z3

from . import sym as S


class StreamViolation(Exception):
    pass


class Tok:
    """opaque payload number (a double / float in the file)"""
    __slots__ = ("name",)

    def __init__(self, name):
        self.name = name

    def __repr__(self):
        return "Tok(%s)" % self.name


class Field:
    __slots__ = ("width", "val", "kind", "endian", "tag")

    def __init__(self, width, val, kind, endian="<", tag=""):
        self.width, self.val, self.kind, self.endian, self.tag = width, val, kind, endian, tag

    def __repr__(self):
        return "F(%s:%s=%r)" % (self.kind, self.width, self.val)


def _lz(x):
    return x.e if isinstance(x, S.SymR) else z3.IntVal(int(x))


class Blob:
    """bytes-like: what read()/pack() return"""

    def __init__(self, fields):
        self.fields = list(fields)

    def __len__(self):
        w = 0
        for f in self.fields:
            w = w + f.width
        if isinstance(w, S.SymR):
            return S.eng().fork_int(w.e, cap=4096)
        return w

    def __add__(self, o):
        return Blob(self.fields + o.fields)

    def decode(self, *a):
        if len(self.fields) == 1 and self.fields[0].kind == "s":
            v = self.fields[0].val
            return v.decode() if isinstance(v, bytes) else v
        raise StreamViolation("decode() of a non-string region: %r" % self.fields)

    def __getitem__(self, k):
        return self.raw()[k]

    def raw(self):
        """real bytes (only for fully concrete fields: format detection)"""
        out = b""
        for f in self.fields:
            if f.kind == "i":
                if isinstance(f.val, S.SymR):
                    raise StreamViolation("raw bytes of a symbolic integer requested")
                out += _struct.pack(f.endian + ("i" if f.width == 4 else "q"), int(f.val))
            elif f.kind == "s":
                out += f.val if isinstance(f.val, bytes) else f.val.encode()
            else:
                raise StreamViolation("raw bytes of payload requested")
        return out


_FMT = re.compile(r"(\d*)([iIqQfdsx])")
_SIZE = dict(i=4, I=4, q=8, Q=8, f=4, d=8)

RANGE_OBLS = []     # (label, z3 Bool): integers packed into a fixed-width field must fit


def _parse(fmt):
    endian = "="
    if fmt and fmt[0] in "<>=@!":
        endian, fmt = fmt[0], fmt[1:]
    items = []
    for cnt, ch in _FMT.findall(fmt):
        n = int(cnt) if cnt else 1
        if ch == "s":
            items.append(("s", n))
        else:
            items += [(ch, _SIZE.get(ch, 1))] * n
    if endian in "=@":
        endian = "<"
    return endian, items


def _pack(fmt, vals):
    endian, items = _parse(fmt)
    if len(items) != len(vals):
        raise _struct.error("pack expected %d items for packing (got %d)" % (len(items), len(vals)))
    fields = []
    for (ch, w), v in zip(items, vals):
        if ch in "iIqQ":
            bits = 8 * w
            lo, hi = (-(1 << (bits - 1)), (1 << (bits - 1)) - 1) if ch in "iq" else (0, (1 << bits) - 1)
            if isinstance(v, S.SymR):
                RANGE_OBLS.append(("integer packed with struct format %r fits its %d-bit field" % (ch, bits), z3.And(v.e >= lo, v.e <= hi)))
            elif isinstance(v, (int, _np.integer)):
                if not lo <= int(v) <= hi:
                    raise _struct.error("'%s' format requires %d <= number <= %d" % (ch, lo, hi))
            else:
                raise _struct.error("required argument is not an integer: %r (%s) for %r" % (v, type(v).__name__, fmt))
            fields.append(Field(w, v, "i", endian))
        elif ch in "fd":
            fields.append(Field(w, v, ch, endian))
        elif ch == "s":
            fields.append(Field(w, v, "s", endian))
    return Blob(fields)


def _unpack(fmt, blob):
    endian, items = _parse(fmt)
    if not isinstance(blob, Blob):
        return _struct.unpack(fmt, blob)
    if len(items) != len(blob.fields):
        raise StreamViolation("unpack(%r) over fields %r" % (fmt, blob.fields))
    out = []
    for (ch, w), f in zip(items, blob.fields):
        fw = f.width
        if isinstance(fw, S.SymR):
            fw = S.eng().fork_int(fw.e)
        kind = "i" if ch in "iIqQ" else ch
        if kind != f.kind or w != fw:
            raise StreamViolation("unpack(%r): field %r read as %s%d" % (fmt, f, ch, w))
        if f.endian != endian and f.kind != "s":
            raise StreamViolation("unpack(%r): field %r has byte order %r" % (fmt, f, f.endian))
        out.append(f.val)
    return tuple(out)


class StructStub:
    """stands for the module `struct`"""
    error = _struct.error

    class Struct:
        def __init__(self, fmt):
            self.format = fmt
            _, items = _parse(fmt)
            self.size = sum(w for _, w in items)

        def pack(self, *vals):
            return _pack(self.format, vals)

        def unpack(self, blob):
            return _unpack(self.format, blob)

    @staticmethod
    def pack(fmt, *vals):
        return _pack(fmt, vals)

    @staticmethod
    def unpack(fmt, blob):
        return _unpack(fmt, blob)

    @staticmethod
    def calcsize(fmt):
        return sum(w for _, w in _parse(fmt)[1])


class SymFile:
    """file object served from / appended to a field list"""

    def __init__(self, fields=None):
        self.fields = list(fields or [])
        self.i = 0
        self.closed = False

    # ---- writer side
    def write(self, blob):
        if not isinstance(blob, Blob):
            raise StreamViolation("write() of %r" % type(blob))
        self.fields += blob.fields
        return 0

    # ---- reader side
    def read(self, n=-1):
        if isinstance(n, S.SymR) or n >= 0:
            want = _lz(n)
        else:
            raise StreamViolation("read() of the whole file")
        E = S.eng()
        if getattr(self, "mid", False):
            raise StreamViolation("read(%s) after a read that ended inside a field" % n)
        got = []
        tot = z3.IntVal(0)
        while True:
            if E.decide(tot == want):
                return Blob(got)
            if self.i >= len(self.fields):
                if not got:
                    return Blob([])
                raise StreamViolation("read(%s) runs past the end of the file" % n)
            f = self.fields[self.i]
            self.i += 1
            got.append(f)
            tot = tot + _lz(f.width)
            if E.decide(tot > want):
                if not isinstance(n, S.SymR) and all(not isinstance(g.val, (S.SymR, Tok)) and not isinstance(g.width, S.SymR) for g in got):
                    # a raw peek at fully concrete bytes (format detection): allowed, but the
                    # stream is then inside a field and must be repositioned before the next read
                    self.mid = True
                    return Blob(got).raw()[:n]
                raise StreamViolation("read(%s) ends inside field %r" % (n, f))

    def seek(self, k, whence=0):
        if whence == 1:
            if isinstance(k, S.SymR) or k > 0:
                self.read(k)
            elif k < 0:
                # backwards over whole concrete-width fields
                back = 0
                while back < -k and self.i > 0:
                    self.i -= 1
                    w = self.fields[self.i].width
                    if isinstance(w, S.SymR):
                        raise StreamViolation("backward relative seek over a field of symbolic width")
                    back += w
                if back != -k:
                    raise StreamViolation("backward relative seek(%r) does not end on a field boundary" % k)
            return
        if whence == 0 and not isinstance(k, S.SymR):
            self.mid = False
            pos = 0
            for j, f in enumerate(self.fields):
                if pos == k:
                    self.i = j
                    return
                pos = pos + f.width
                if isinstance(pos, S.SymR):
                    break
            if k == pos:
                self.i = len(self.fields)
                return
        raise StreamViolation("seek(%r, %r) unsupported / not on a field boundary" % (k, whence))

    def tell(self):
        pos = 0
        for f in self.fields[:self.i]:
            pos = pos + f.width
        return pos

    def close(self):
        self.closed = True

    def fromfile(self, dtype, count):
        """np.fromfile(fp, dtype, count): count items of dtype.itemsize bytes"""
        dt = _np.dtype(dtype)
        b = self.read(dt.itemsize * count if not isinstance(count, S.SymR) else count * dt.itemsize)
        out = []
        for f in b.fields:
            want = "i" if dt.kind in "iu" else ("d" if dt.itemsize == 8 else "f")
            if f.kind != want or (want == "i" and f.width != dt.itemsize):
                raise StreamViolation("fromfile(%s): field %r" % (dt, f))
            end = "<" if dt.byteorder in "<=|" else ">"
            if f.endian != end:
                raise StreamViolation("fromfile(%s): field %r has byte order %r" % (dt, f, f.endian))
            out.append(f.val)
        a = _np.empty(len(out), dtype=object)
        for k, v in enumerate(out):
            a[k] = v
        return a
