"""Shared plumbing for the ODE-solver harnesses (C01, C02, C08, C15, C17).

* patches the module-global `np` / `la` of pyyeti.ode.* with proxies that keep
  symbolic data in object arrays and solve concrete-matrix linear systems with
  symbolic right-hand sides by applying the concrete inverse;
* exact reference one-step operator from a 60-digit mpmath matrix exponential
  of the van-Loan augmented matrix (independent of pyyeti.expmint / get_su_coef
  / eigss).
"""
import math
from fractions import Fraction

import numpy as _np
import scipy.linalg as _la
import z3

from . import sym as S
from .npproxy import NPProxy, has_sym
from .linform import flat, flat_rounded


class _LinalgStub:
    def __getattr__(self, name):
        return getattr(_np.linalg, name)

    def solve(self, a, b):
        if has_sym(b):
            inv = _np.linalg.inv(_np.asarray(a, dtype=float if not _np.iscomplexobj(a) else complex))
            return inv @ b
        return _np.linalg.solve(a, b)


class ODEProxy(NPProxy):
    def __init__(self):
        super().__init__(sym=False)
        self.linalg = _LinalgStub()


class LAStub:
    """scipy.linalg with lu_solve/solve accepting symbolic right-hand sides
    (the matrix is always concrete): x = A^-1 b with A^-1 from the same LU"""

    def __getattr__(self, name):
        return getattr(_la, name)

    def lu_solve(self, lup, rhs, trans=0, check_finite=True, overwrite_b=False):
        if isinstance(rhs, _np.ndarray) and rhs.dtype == object:
            n = lup[0].shape[0]
            inv = _la.lu_solve(lup, _np.eye(n), trans=trans)
            return inv @ rhs
        return _la.lu_solve(lup, rhs, trans=trans, check_finite=check_finite)

    def solve(self, a, b, **kw):
        if isinstance(b, _np.ndarray) and b.dtype == object:
            return _la.inv(a) @ b
        return _la.solve(a, b, **kw)


NP = ODEProxy()
LA = LAStub()
_patched = []


def patch_ode(extra_modules=()):
    import pyyeti.ode._base_ode_class as base
    import pyyeti.ode.solveunc as su
    import pyyeti.ode.solveexp2 as se2
    import pyyeti.ode.solvecdf as cdf
    import pyyeti.ode.solveexp1 as se1
    import pyyeti.ode.solvenewmark as nm
    import pyyeti.ode.freqdirect as fd
    mods = [base, su, se2, cdf, se1, nm, fd] + list(extra_modules)
    for mod in mods:
        if hasattr(mod, "np"):
            mod.np = NP
        if hasattr(mod, "la"):
            mod.la = LA
        _patched.append(mod)
    return mods


class symbolic:
    """with symbolic(): allocations inside pyyeti.ode return object arrays"""

    def __enter__(self):
        self.prev = NP.sym
        NP.sym = True

    def __exit__(self, *a):
        NP.sym = self.prev


# ---------------------------------------------------------------------------
def full(m, b, k):
    """(M, B, K) as full float/complex matrices from pyYeti-style inputs"""
    k = _np.atleast_1d(k)
    n = k.shape[0]
    K = _np.diag(k) if k.ndim == 1 else k
    b = _np.atleast_1d(b)
    B = _np.diag(b) if b.ndim == 1 else b
    if m is None:
        M = _np.eye(n)
    else:
        m = _np.atleast_1d(m)
        M = _np.diag(m) if m.ndim == 1 else m
    return M, B, K


def _toQ(x, digits=45):
    import mpmath as mp
    return Fraction(mp.nstr(x, digits, strip_zeros=False, min_fixed=-10**6, max_fixed=10**6)) if x != 0 else Fraction(0)


def ref_operator(M, B, K, h, order, dyn, dps=80):
    """Exact step for the dynamic rows `dyn` of M q'' + B q' + K q = F:
         y_{k+1} = Phi y_k + G0 f_k + G1 f_{k+1},  y = [d; v] (dyn rows only)
    Returns (Phi, G0, G1) as lists of Fractions."""
    import mpmath as mp
    mp.mp.dps = dps
    dyn = list(dyn)
    n = len(dyn)
    key = (_np.asarray(M, float).tobytes(), _np.asarray(B, float).tobytes(), _np.asarray(K, float).tobytes(), float(h), order, tuple(dyn))
    if key in _REFCACHE:
        return _REFCACHE[key]
    Md = mp.matrix([[M[i, j] for j in dyn] for i in dyn])
    Bd = mp.matrix([[B[i, j] for j in dyn] for i in dyn])
    Kd = mp.matrix([[K[i, j] for j in dyn] for i in dyn])
    Mi = Md ** -1
    MK = Mi * Kd
    MB = Mi * Bd
    N = 4 * n
    Z = mp.zeros(N)
    hh = mp.mpf(h)
    for i in range(n):
        Z[i, n + i] = hh
        for j in range(n):
            Z[n + i, j] = -MK[i, j] * hh
            Z[n + i, n + j] = -MB[i, j] * hh
            Z[n + i, 2 * n + j] = Mi[i, j] * hh
    for j in range(n):
        Z[2 * n + j, 3 * n + j] = 1
    Ez = mp.expm(Z)
    Phi = Ez[:2 * n, :2 * n]
    G1s = Ez[:2 * n, 2 * n:3 * n]
    G2s = Ez[:2 * n, 3 * n:]
    if order == 1:
        G0 = G1s - G2s
        G1 = G2s
    else:
        G0 = G1s
        G1 = mp.zeros(2 * n, n)
    cv = lambda X: [[_toQ(X[i, j]) for j in range(X.cols)] for i in range(X.rows)]
    _REFCACHE[key] = (cv(Phi), cv(G0), cv(G1))
    return _REFCACHE[key]


_REFCACHE = {}


def ref_solution(M, B, K, h, order, rf, Fz, d0z, v0z, nt):
    """reference d, v (z3 terms) for all rows: dynamic rows by the exact step
    operator, rf rows statically d = Krf^-1 F, v = 0.
    Fz: n x nt list of z3 terms; d0z/v0z lists (z3 terms)"""
    import mpmath as mp
    n = len(Fz)
    rf = list(rf)
    dyn = [i for i in range(n) if i not in rf]
    nd = len(dyn)
    D = [[None] * nt for _ in range(n)]
    V = [[None] * nt for _ in range(n)]
    if nd:
        Phi, G0, G1 = ref_operator(M, B, K, h, order, dyn)
        y = [d0z[i] for i in dyn] + [v0z[i] for i in dyn]
        for j in range(nt):
            if j > 0:
                y = [z3.Sum([z3.RealVal(Phi[r][c]) * y[c] for c in range(2 * nd) if Phi[r][c] != 0] +
                            [z3.RealVal(G0[r][c]) * Fz[dyn[c]][j - 1] for c in range(nd) if G0[r][c] != 0] +
                            [z3.RealVal(G1[r][c]) * Fz[dyn[c]][j] for c in range(nd) if G1[r][c] != 0] +
                            [z3.RealVal(0)])
                     for r in range(2 * nd)]
            for a, i in enumerate(dyn):
                D[i][j] = y[a]
                V[i][j] = y[nd + a]
    if rf:
        mp.mp.dps = 60
        Ki = mp.matrix([[K[i, j] for j in rf] for i in rf]) ** -1
        for a, i in enumerate(rf):
            for j in range(nt):
                D[i][j] = z3.Sum([z3.RealVal(_toQ(Ki[a, c])) * Fz[rf[c]][j] for c in range(len(rf))] + [z3.RealVal(0)])
                V[i][j] = z3.RealVal(0)
    return D, V


def zvec(name, n):
    return [z3.Real("%s_%d" % (name, i)) for i in range(n)]


def zmat(name, r, c):
    return [[z3.Real("%s_%d_%d" % (name, i, j)) for j in range(c)] for i in range(r)]


def sarr(z):
    """list / nested list of z3 terms -> object array of SymR"""
    a = _np.empty(_np.shape(z), dtype=object)
    for idx in _np.ndindex(*a.shape):
        v = z
        for i in idx:
            v = v[i]
        a[idx] = S.SymR(v)
    return a


_MEMO = {}


def within(term_a, term_b, tol, box=1):
    """|a - b| <= tol.  The difference is put in flat linear normal form with
    coefficients rounded to 90 significant bits; the rounding error bound eps
    (valid for variables in [-box, box]) is subtracted from the tolerance, so
    `unsat` of the negation still implies the exact statement."""
    if len(_MEMO) > 200000:
        _MEMO.clear()
    d, eps = flat_rounded(S.lift(term_a) - S.lift(term_b), _MEMO, box=box)
    tq = Fraction(tol)
    if eps is not None:
        tq = tq - eps
    if z3.is_rational_value(d):
        return z3.BoolVal(bool(abs(Fraction(d.numerator_as_long(), d.denominator_as_long())) <= tq))
    t = z3.RealVal(tq)
    return z3.And(d <= t, d >= -t)
