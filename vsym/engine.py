"""Concolic path explorer over z3.

One `Engine` explores every feasible path of a Python callable whose inputs
are symbolic scalars (see sym.py).  Every conversion of a symbolic condition
to a Python bool calls `Engine.decide`, which asks the solver which sides are
feasible under the current path condition, follows one and queues the other.
A path ends with a list of obligations; the engine asks the solver for a
model of (path condition AND NOT obligation).  `unsat` = the obligation holds
for every input that drives execution down this path.

Verdicts are never optimistic: `unknown` from the solver (time-out) raises
Inconclusive, which is recorded per path / per obligation.
"""
import time
import z3
from fractions import Fraction


class Inconclusive(Exception):
    pass


class SplitCut(BaseException):
    """raised in split mode when a path reaches the split depth"""


class PathAbort(BaseException):
    """raised by harness code to drop a path that violates a precondition"""


class Obl:
    """one obligation: `expr` must hold on this path.

    known: list of (finding_id, region) -- region is a z3 Bool or Python bool
    naming the part of the input space where a *recorded* defect lives.  The
    main query is issued under NOT region; the region itself is queried
    separately and only ever produces KNOWN-FINDING lines.
    """
    __slots__ = ("label", "expr", "known", "info")

    def __init__(self, label, expr, known=(), info=None):
        self.label = label
        self.expr = expr if z3.is_expr(expr) else z3.BoolVal(bool(expr))
        self.known = list(known)
        self.info = info


def _val(v):
    """z3 model value -> python"""
    if v is None:
        return None
    if z3.is_true(v):
        return True
    if z3.is_false(v):
        return False
    if z3.is_int_value(v):
        return v.as_long()
    if z3.is_rational_value(v):
        return Fraction(v.numerator_as_long(), v.denominator_as_long())
    if z3.is_algebraic_value(v):
        a = v.approx(30)
        return Fraction(a.numerator_as_long(), a.denominator_as_long())
    if z3.is_bv_value(v):
        return v.as_long()
    return str(v)


def model_dict(m):
    out = {}
    for d in m.decls():
        if d.arity() == 0:
            out[d.name()] = _val(m[d])
    return out


class Engine:
    def __init__(self, timeout_ms=20000, obl_timeout_ms=60000, max_paths=None,
                 tactic=None):
        self.timeout_ms = timeout_ms
        self.obl_timeout_ms = obl_timeout_ms
        self.max_paths = max_paths
        self.tactic = tactic
        self._mk_solver()
        self.prefix = []
        self.trace = []
        self.pc = []
        self.model = None
        self.nchecks = 0
        self.solver_s = 0.0
        self.split_depth = None
        self.tags = set()          # reachability targets hit on the current path
        self.fresh_id = 0
        self.trace_vals = {}
        self.prefix_vals = {}
        self.pending = []
        self.dcache = {}
        self.obl_mode = "batch"   # "each": one solver query per obligation (faster for LRA bounds)
        self.refine = None         # fn(engine) -> extra constraints for replay-friendly models
        self.path_vars = {}        # name -> z3 const created on this path (for models)
        self.fast_ms = None        # if set: incremental query capped at fast_ms, then retried on a
                                   # fresh (non-incremental, fully preprocessed) solver
        self._msolver = None
        self.nfallback = 0

    def _mk_solver(self):
        if self.tactic:
            self.solver = z3.Tactic(self.tactic).solver()
        else:
            self.solver = z3.Solver()
        self.solver.set("timeout", self.timeout_ms)

    # ---- solver plumbing -------------------------------------------------
    def _check(self, *extra, timeout=None):
        self.nchecks += 1
        full = timeout if timeout is not None else self.timeout_ms
        self._msolver = self.solver
        t = time.time()
        if self.fast_ms is not None:
            self.solver.set("timeout", min(self.fast_ms, full))
            r = str(self.solver.check(*extra))
            self.solver.set("timeout", self.timeout_ms)
            if r == "unknown":
                # z3's incremental core skips the preprocessing tactics; a fresh
                # solver on the same assertions often decides at once
                self.nfallback += 1
                # portfolio: legacy simplex core, then the default one
                for cfg, ms in ((2, min(full, 400)), (6, min(full, 400)), (2, min(full, 5000)), (6, full), (2, full)):
                    s2 = z3.Solver()
                    s2.set("timeout", ms)
                    s2.set("arith.solver", cfg)
                    s2.add(self.solver.assertions())
                    for x in extra:
                        s2.add(x)
                    r = str(s2.check())
                    self._msolver = s2
                    if r != "unknown":
                        break
            self.solver_s += time.time() - t
            return r
        if timeout is not None:
            self.solver.set("timeout", timeout)
        r = self.solver.check(*extra)
        self.solver_s += time.time() - t
        if timeout is not None:
            self.solver.set("timeout", self.timeout_ms)
        return str(r)

    def _get_model(self):
        if self.model is None:
            r = self._check()
            if r == "unknown":
                raise Inconclusive("path condition: unknown")
            if r == "unsat":
                raise RuntimeError("infeasible path condition")
            self.model = self._msolver.model()
        return self.model

    def fresh(self, base, sort="Real"):
        self.fresh_id += 1
        name = "%s!%d" % (base, self.fresh_id)
        c = {"Real": z3.Real, "Int": z3.Int, "Bool": z3.Bool}[sort](name)
        return c

    def tag(self, t):
        self.tags.add(t)

    def assume(self, expr):
        if isinstance(expr, bool):
            if not expr:
                raise PathAbort()
            return
        self.solver.add(expr)
        self.pc.append(expr)
        if self.model is not None:
            if not z3.is_true(self.model.eval(expr, model_completion=True)):
                self.model = None

    def feasible(self):
        r = self._check()
        if r == "unknown":
            raise Inconclusive("feasibility: unknown")
        if r == "sat":
            self.model = self._msolver.model()
        return r == "sat"

    def decide(self, expr):
        if isinstance(expr, bool):
            return expr
        expr = z3.simplify(expr)
        if z3.is_true(expr):
            return True
        if z3.is_false(expr):
            return False
        key = expr.get_id()
        if key in self.dcache:
            return self.dcache[key][0]
        i = len(self.trace)
        if i < len(self.prefix):
            val = self.prefix[i]
            self.model = None
        else:
            if self.split_depth is not None and i >= self.split_depth:
                raise SplitCut()
            m = self._get_model()
            mv = m.eval(expr, model_completion=True)
            if z3.is_true(mv):
                cur = True
            elif z3.is_false(mv):
                cur = False
            else:
                cur = None
            if cur is None:
                t = self._check(expr)
                f = self._check(z3.Not(expr))
                if "unknown" in (t, f):
                    raise Inconclusive("decide: unknown on %s" % str(expr)[:200])
                if t == "sat" and f == "sat":
                    self.pending.append((list(self.trace) + [False], dict(self.trace_vals)))
                    val = True
                elif t == "sat":
                    val = True
                else:
                    val = False
                self.model = None
            else:
                other = z3.Not(expr) if cur else expr
                r = self._check(other)
                if r == "unknown":
                    raise Inconclusive("decide: unknown on %s" % str(other)[:200])
                if r == "sat":
                    self.pending.append((list(self.trace) + [not cur], dict(self.trace_vals)))
                val = cur
        self.trace.append(val)
        c = expr if val else z3.Not(expr)
        self.pc.append(c)
        self.solver.add(c)
        self.dcache[key] = (val, expr)
        return val

    def fork_int(self, e, lo=None, hi=None, cap=64):
        """concretise an Int term by forking over its feasible values"""
        e = z3.simplify(e)
        if z3.is_int_value(e):
            return e.as_long()
        if lo is not None:
            self.assume(e >= lo)
        if hi is not None:
            self.assume(e <= hi)
        ekey = e.sexpr()
        for _ in range(cap):
            pos = len(self.trace)
            v = None
            if pos < len(self.prefix):
                # replaying: values are tried in the recorded order, which is model
                # dependent; so replay needs the value, not the model.  The record is
                # only ours if it was made for this very expression.
                rec = self.prefix_vals.get(pos)
                if rec is not None and rec[1] == ekey:
                    v = rec[0]
            if v is None:
                # (also when replaying and the recorded run decided this value from the
                # decision cache: then e is already fixed by the path condition)
                m = self._get_model()
                v = m.eval(e, model_completion=True).as_long()
            r = self.decide(e == v)
            if len(self.trace) > pos:
                self.trace_vals[pos] = (v, ekey)      # a real (non-cached) decision was taken at pos
            if r:
                return v
            self.model = None     # the rejected value is excluded on the path: re-solve
        raise Inconclusive("fork_int: more than %d values for %s" % (cap, str(e)[:120]))

    # ---- exploration -----------------------------------------------------
    def explore(self, fn, assumptions=(), roots=None, split_depth=None,
                stop_on_cex=False, deadline=None, on_path=None, max_cex=None):
        """Run `fn(engine)` along every feasible path.

        fn returns a list of Obl (or None).  Returns a dict with counts,
        counterexamples (dicts with model + labels) and, in split mode, the
        list of roots for the sub-trees that were cut off.
        """
        res = dict(paths=0, obligations=0, unsat=0, sat=0, unknown=0,
                   aborted=0, inconclusive_paths=0, cex=[], known=[],
                   roots=[], tags={}, samples=[], nontrivial=0,
                   timed_out=False, errors=[])
        # a root is (decisions, {position: value chosen by fork_int})
        self.pending = [r for r in (roots if roots is not None else [([], {})])]
        self.split_depth = split_depth
        while self.pending:
            if deadline is not None and time.time() > deadline:
                res["timed_out"] = True
                break
            if self.max_paths is not None and res["paths"] >= self.max_paths:
                res["timed_out"] = True
                break
            item = self.pending.pop()
            self.prefix, self.prefix_vals = list(item[0]), dict(item[1])
            self.trace = []
            self.trace_vals = {k: v for k, v in self.prefix_vals.items() if k < len(self.prefix)}
            self.pc = []
            self.tags = set()
            self.model = None
            self.dcache = {}
            self.fresh_id = 0
            self.solver.reset()
            self.solver.set("timeout", self.timeout_ms)
            for a in assumptions:
                self.solver.add(a)
            try:
                obls = fn(self)
            except SplitCut:
                res["roots"].append((list(self.trace), dict(self.trace_vals)))
                continue
            except PathAbort:
                res["aborted"] += 1
                continue
            except Inconclusive as ex:
                res["inconclusive_paths"] += 1
                res["errors"].append("inconclusive path: %s" % ex)
                continue
            res["paths"] += 1
            ndec = len(self.trace)
            if ndec:
                res["nontrivial"] += 1
            for t in self.tags:
                res["tags"][t] = res["tags"].get(t, 0) + 1
            self._discharge(obls or [], res, stop_on_cex)
            if on_path is not None:
                on_path(self, res)
            if len(res["samples"]) < 3:
                try:
                    m = self._get_model()
                    res["samples"].append(dict(
                        decisions=ndec, tags=sorted(self.tags),
                        model={k: _fmt(v) for k, v in sorted(model_dict(m).items())[:12]}))
                except Exception:
                    pass
            if stop_on_cex and res["cex"]:
                break
            if max_cex is not None and len(res["cex"]) >= max_cex:
                res["stopped_after_cex"] = True
                break
        res["nchecks"] = self.nchecks
        res["solver_s"] = round(self.solver_s, 3)
        return res

    def _discharge(self, obls, res, stop_on_cex):
        if not obls:
            return
        # fast path: all obligations without known regions in one query
        res["obligations"] += len(obls)
        # structurally identical obligations (z3 hash-conses terms) are decided once
        seen = set()
        uniq = []
        ndup = 0
        for o in obls:
            k = (o.expr.get_id(), bool(o.known))
            if k in seen or z3.is_true(o.expr):
                ndup += 1
                continue
            seen.add(k)
            uniq.append(o)
        res["unsat"] += ndup
        plain = [o for o in uniq if not o.known]
        special = [o for o in uniq if o.known]
        if plain and self.obl_mode == "each":
            for o in plain:
                r1 = self._check(z3.Not(o.expr), timeout=self.obl_timeout_ms)
                if r1 == "unsat":
                    res["unsat"] += 1
                elif r1 == "unknown":
                    res["unknown"] += 1
                    res["errors"].append("unknown obligation: %s" % o.label)
                else:
                    self._record_cex([o], res, "cex")
        elif plain:
            neg = z3.Or([z3.Not(o.expr) for o in plain])
            r = self._check(neg, timeout=self.obl_timeout_ms)
            if r == "unsat":
                res["unsat"] += len(plain)
            elif r == "unknown":
                # retry one by one
                for o in plain:
                    r1 = self._check(z3.Not(o.expr), timeout=self.obl_timeout_ms)
                    if r1 == "unsat":
                        res["unsat"] += 1
                    elif r1 == "unknown":
                        res["unknown"] += 1
                        res["errors"].append("unknown obligation: %s" % o.label)
                    else:
                        self._record_cex([o], res, "cex")
            else:
                m = self._msolver.model()
                bad = [o for o in plain
                       if not z3.is_true(m.eval(o.expr, model_completion=True))]
                res["unsat"] += len(plain) - len(bad)
                self._record_cex(bad, res, "cex", m)
        # obligations with recorded-finding regions: grouped by region set so that a
        # path costs one query outside the regions and one per region
        groups = {}
        for o in special:
            regs = tuple(rg if z3.is_expr(rg) else z3.BoolVal(bool(rg)) for _, rg in o.known)
            key = tuple(r.get_id() for r in regs) + tuple(k for k, _ in o.known)
            groups.setdefault(key, (regs, [k for k, _ in o.known], []))[2].append(o)
        for regs, kids, obs in groups.values():
            outside = z3.And([z3.Not(rg) for rg in regs])
            negs = z3.Or([z3.Not(o.expr) for o in obs])
            r = self._check(outside, negs, timeout=self.obl_timeout_ms)
            if r == "unsat":
                res["unsat"] += len(obs)
            else:
                for o in obs:
                    r1 = self._check(outside, z3.Not(o.expr), timeout=self.obl_timeout_ms)
                    if r1 == "unsat":
                        res["unsat"] += 1
                    elif r1 == "unknown":
                        res["unknown"] += 1
                        res["errors"].append("unknown obligation: %s" % o.label)
                    else:
                        self._record_cex([o], res, "cex", self._msolver.model(), side=outside)
            for kid, rg in zip(kids, regs):
                # a few witnesses per recorded finding are enough
                if sum(1 for e in res["known"] if e.get("finding") == kid) >= 3:
                    continue
                r = self._check(rg, negs, timeout=min(self.obl_timeout_ms, 10000))
                if r == "sat":
                    m = self._msolver.model()
                    bad = [o for o in obs if not z3.is_true(m.eval(o.expr, model_completion=True))]
                    self._record_cex(bad[:1] or obs[:1], res, "known", m, kid, side=rg)

    def _record_cex(self, bad, res, kind, m=None, kid=None, side=None):
        if m is None:
            m = self._msolver.model()
        if self.refine is not None and bad:
            # ask for a model that survives conversion to floats (harness specific)
            neg = z3.Or([z3.Not(o.expr) for o in bad])
            extra = list(self.refine(self)) + ([side] if side is not None else [])
            try:
                r = self._check(neg, *extra, timeout=self.obl_timeout_ms)
                if r == "sat":
                    m = self._msolver.model()
            except z3.Z3Exception:
                pass
        res["sat"] += len(bad) if kind == "cex" else 0
        entry = dict(labels=[o.label for o in bad][:8],
                     info=[o.info for o in bad if o.info is not None][:4],
                     model=model_dict(m), decisions=len(self.trace),
                     tags=sorted(self.tags))
        if kid is not None:
            entry["finding"] = kid
        if kind == "cex":
            if len(res["cex"]) < 20:
                res["cex"].append(entry)
        else:
            if len(res["known"]) < 20:
                res["known"].append(entry)


def _fmt(v):
    if isinstance(v, Fraction):
        return float(v)
    return v


def merge(a, b):
    """merge two explore() result dicts"""
    for k in ("paths", "obligations", "unsat", "sat", "unknown", "aborted",
              "inconclusive_paths", "nontrivial", "nchecks"):
        a[k] = a.get(k, 0) + b.get(k, 0)
    a["solver_s"] = round(a.get("solver_s", 0) + b.get("solver_s", 0), 3)
    for k in ("cex", "known", "errors", "roots"):
        a.setdefault(k, [])
        a[k] = (a[k] + b.get(k, []))[:40]
    a.setdefault("samples", [])
    a["samples"] = (a["samples"] + b.get("samples", []))[:4]
    a["timed_out"] = a.get("timed_out", False) or b.get("timed_out", False)
    t = a.setdefault("tags", {})
    for k, v in b.get("tags", {}).items():
        t[k] = t.get(k, 0) + v
    return a
