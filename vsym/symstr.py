"""Strings whose characters are concrete chars or symbolic decimal digits, and
the float/int types that render into them.

SymStr is a `str` subclass (CPython insists that __format__ returns a str) that
keeps a list of cells: 1-char strings or `D` (a z3 Int in [0, 9]).  Only the
methods implemented here are available; any other str method raises, so there
is no silent fall-through to the placeholder text.

SymFloat (a SymR) models CPython's float formatting for 'W.Pf' / 'W.Pe' as
exact scaled-integer rounding: N with |x| 10^P - 1/2 <= N <= |x| 10^P + 1/2 (at
an exact tie both neighbours are allowed: a superset of the correctly rounded
result, so a "holds" verdict is sound) and digits d_i with N = sum d_i 10^i.
"""
import builtins
import math
import re
import string
from fractions import Fraction

import z3

from . import sym as S

_py_float, _py_int, _py_str = builtins.float, builtins.int, builtins.str

PLACEHOLDER = "\x00"


class Unsupported(Exception):
    """the code under test reached an operation the string model does not cover"""


class D:
    """symbolic digit cell"""
    __slots__ = ("e", "src", "idx", "all")

    def __init__(self, e, src=None, idx=None, all_=None):
        self.e = e
        self.src = src      # non-negative z3 Int this digit belongs to
        self.idx = idx      # position, 0 = most significant
        self.all = all_     # number of digits of src

    def is_zero(self):
        return S.eng().decide(self.e == 0)

    def __repr__(self):
        return "#"


def _isd(c):
    return isinstance(c, D)


def _cells(o):
    if isinstance(o, SymStr):
        return o.cells
    if isinstance(o, str):
        return list(o)
    raise Unsupported("SymStr: cannot combine with %r" % type(o))


_ALLOWED = {"rfind", "rindex", "count", "partition", "rpartition", "isdigit", "isspace", "isalpha", "isalnum", "center", "zfill", "cells", "strip", "lstrip", "rstrip", "index", "find", "split", "replace", "lower", "upper",
            "expandtabs", "startswith", "endswith", "concrete", "value", "ljust", "rjust", "render"}


class SymStr(str):
    def __new__(cls, cells):
        cells = list(cells)
        o = str.__new__(cls, "".join(PLACEHOLDER if _isd(c) else c for c in cells))
        o.cells = cells
        return o

    def __getattribute__(self, name):
        if name in _ALLOWED or name == "_WS" or (name.startswith("__") and name.endswith("__")) or name.startswith("_m_"):
            return str.__getattribute__(self, name)
        raise Unsupported("SymStr: unsupported str method %r reached" % name)

    # ---- basics
    def __len__(self):
        return len(self.cells)

    def __iter__(self):
        return iter(mk([c]) for c in self.cells)

    def __getitem__(self, k):
        r = self.cells[k]
        return mk(r) if isinstance(k, slice) else mk([r])

    def __add__(self, o):
        return mk(self.cells + _cells(o))

    def __radd__(self, o):
        return mk(_cells(o) + self.cells)

    def __mul__(self, n):
        return mk(self.cells * n)

    def __bool__(self):
        return len(self.cells) > 0

    def __contains__(self, sub):
        return self.find(sub) >= 0

    def __hash__(self):
        raise TypeError("SymStr is unhashable")

    def __repr__(self):
        return "SymStr(%r)" % "".join("#" if _isd(c) else c for c in self.cells)

    def __str__(self):
        return self

    def render(self):
        return "".join("#" if _isd(c) else c for c in self.cells)

    # ---- matching helpers
    def _m_match(self, cell, chars):
        """is this cell one of `chars`? (digit cells fork on == 0 if '0' in chars;
        other digits in `chars` are not supported)"""
        if _isd(cell):
            ds = set(chars) & set("0123456789")
            if not ds:
                return False
            e = z3.Or([cell.e == int(d) for d in sorted(ds)])
            return S.eng().decide(e)
        return cell in chars

    def _m_eqcell(self, a, b):
        if _isd(a) or _isd(b):
            ae = a.e if _isd(a) else (z3.IntVal(int(a)) if a.isdigit() else None)
            be = b.e if _isd(b) else (z3.IntVal(int(b)) if b.isdigit() else None)
            if ae is None or be is None:
                return False
            return S.eng().decide(ae == be)
        return a == b

    def __eq__(self, o):
        if not isinstance(o, str):
            return NotImplemented
        oc = _cells(o)
        if len(oc) != len(self.cells):
            return False
        for a, b in zip(self.cells, oc):
            if not self._m_eqcell(a, b):
                return False
        return True

    def __ne__(self, o):
        r = self.__eq__(o)
        return r if r is NotImplemented else not r

    # ---- str methods
    _WS = " \t\n\r\x0b\x0c"

    def lstrip(self, chars=None):
        chars = self._WS if chars is None else chars
        c = self.cells
        i = 0
        while i < len(c) and self._m_match(c[i], chars):
            i += 1
        return mk(c[i:])

    def rstrip(self, chars=None):
        chars = self._WS if chars is None else chars
        c = self.cells
        j = len(c)
        while j > 0 and self._m_match(c[j - 1], chars):
            j -= 1
        return mk(c[:j])

    def strip(self, chars=None):
        return self.lstrip(chars).rstrip(chars)

    def find(self, sub, start=0):
        sc = _cells(sub)
        n = len(sc)
        c = self.cells
        for i in range(start, len(c) - n + 1):
            if all(self._m_eqcell(c[i + k], sc[k]) for k in range(n)):
                return i
        return -1

    def rfind(self, sub, start=0, end=None):
        sc = _cells(sub)
        n = len(sc)
        c = self.cells if end is None else self.cells[:end]
        for i in range(len(c) - n, start - 1, -1):
            if all(self._m_eqcell(c[i + k], sc[k]) for k in range(n)):
                return i
        return -1

    def rindex(self, sub, start=0, end=None):
        i = self.rfind(sub, start, end)
        if i < 0:
            raise ValueError("substring not found")
        return i

    def count(self, sub):
        n, k, start = len(_cells(sub)), 0, 0
        if n == 0:
            raise Unsupported("SymStr.count('')")
        while True:
            i = self.find(sub, start)
            if i < 0:
                return k
            k += 1
            start = i + n

    def partition(self, sep):
        i = self.find(sep)
        if i < 0:
            return (self, "", "")
        return (mk(self.cells[:i]), sep, mk(self.cells[i + len(_cells(sep)):]))

    def rpartition(self, sep):
        i = self.rfind(sep)
        if i < 0:
            return ("", "", self)
        return (mk(self.cells[:i]), sep, mk(self.cells[i + len(_cells(sep)):]))

    def isdigit(self):
        return len(self.cells) > 0 and all(_isd(c) or c.isdigit() for c in self.cells)

    def isspace(self):
        return len(self.cells) > 0 and all((not _isd(c)) and c.isspace() for c in self.cells)

    def isalpha(self):
        return len(self.cells) > 0 and all((not _isd(c)) and c.isalpha() for c in self.cells)

    def isalnum(self):
        return len(self.cells) > 0 and all(_isd(c) or c.isalnum() for c in self.cells)

    def center(self, w, fill=" "):
        n = max(0, w - len(self.cells))
        left = n // 2 + (n & w & 1)
        return mk([fill] * left + self.cells + [fill] * (n - left))

    def zfill(self, w):
        n = max(0, w - len(self.cells))
        if self.cells and not _isd(self.cells[0]) and self.cells[0] in "+-":
            return mk([self.cells[0]] + ["0"] * n + self.cells[1:])
        return mk(["0"] * n + self.cells)

    def index(self, sub, start=0):
        i = self.find(sub, start)
        if i < 0:
            raise ValueError("substring not found")
        return i

    def startswith(self, pre):
        pc = _cells(pre)
        return len(pc) <= len(self.cells) and all(self._m_eqcell(a, b) for a, b in zip(self.cells, pc))

    def endswith(self, suf):
        sc = _cells(suf)
        n = len(sc)
        return n <= len(self.cells) and all(self._m_eqcell(a, b) for a, b in zip(self.cells[len(self.cells) - n:], sc))

    def split(self, sep=None, maxsplit=-1):
        if sep is None:
            out, cur = [], []
            for c in self.cells:
                if not _isd(c) and c in self._WS:
                    if cur:
                        out.append(mk(cur))
                        cur = []
                else:
                    cur.append(c)
            if cur:
                out.append(mk(cur))
            return out
        out = []
        start = 0
        n = len(_cells(sep))
        while True:
            i = self.find(sep, start)
            if i < 0 or (maxsplit >= 0 and len(out) >= maxsplit):
                out.append(mk(self.cells[start:]))
                return out
            out.append(mk(self.cells[start:i]))
            start = i + n

    def replace(self, old, new, count=-1):
        oc = _cells(old)
        n = len(oc)
        if n == 0:
            raise Unsupported("SymStr.replace: empty pattern")
        out, c, i = [], self.cells, 0
        while i < len(c):
            if i + n <= len(c) and all(self._m_eqcell(c[i + k], oc[k]) for k in range(n)):
                out.extend(_cells(new))
                i += n
            else:
                out.append(c[i])
                i += 1
        return mk(out)

    def lower(self):
        return mk([c if _isd(c) else c.lower() for c in self.cells])

    def upper(self):
        return mk([c if _isd(c) else c.upper() for c in self.cells])

    def expandtabs(self, tabsize=8):
        if any((not _isd(c)) and c == "\t" for c in self.cells):
            raise Unsupported("SymStr.expandtabs with a tab")
        return self

    def ljust(self, w, fill=" "):
        return mk(self.cells + [fill] * max(0, w - len(self.cells)))

    def rjust(self, w, fill=" "):
        return mk([fill] * max(0, w - len(self.cells)) + self.cells)

    def __format__(self, spec):
        if spec == "":
            return self
        m = re.fullmatch(r"([<>^]?)(\d+)s?", spec)
        if not m:
            raise Unsupported("SymStr.__format__: unsupported spec %r" % spec)
        align, w = m.group(1) or "<", _py_int(m.group(2))
        if align == "^":
            raise Unsupported("SymStr.__format__: centre alignment unsupported")
        return self.rjust(w) if align == ">" else self.ljust(w)

    # ---- numeric meaning
    def value(self, nastran=False):
        """exact value (z3 Real term) of the cells under Python's float grammar;
        with nastran=True the E-less exponent ('1.5-4', '1.5D+3') is accepted.
        Raises ValueError if the cells are not a number."""
        return parse_number(self.cells, nastran)[0]

    def concrete(self, model):
        return "".join(_py_str(model.eval(c.e, model_completion=True)) if _isd(c) else c for c in self.cells)


def mk(cells):
    """SymStr if any cell is symbolic, else a plain str"""
    cells = list(cells)
    if any(_isd(c) for c in cells):
        return SymStr(cells)
    return "".join(cells)


def _mantissa_value(ip, fp):
    """value of the digit sequence ip '.' fp.  When the symbolic cells are a
    contiguous run a..j of the nd decimal digits of one rendered integer N the
    value is ((N div 10^(nd-1-j)) mod 10^(j-a+1)) * weight(j) - exact, and a
    single div/mod term instead of a sum over digit terms"""
    seq = [(c, len(ip) - 1 - k) for k, c in enumerate(ip)] + [(c, -(k + 1)) for k, c in enumerate(fp)]
    dcells = [(c, w) for c, w in seq if _isd(c)]
    tot = z3.RealVal(0)
    for c, w in seq:
        if not _isd(c) and c != "0":
            tot = tot + z3.RealVal(_py_int(c) * Fraction(10) ** w)
    if not dcells:
        return tot, None
    allzero = all(_isd(c) or c == "0" for c, _ in seq)
    c0, w0 = dcells[0]
    run = c0.src is not None and all(c.src is c0.src and c.idx == c0.idx + k and w == w0 - k for k, (c, w) in enumerate(dcells))
    if run and len(dcells) > 1:
        nd = c0.all
        a, j = c0.idx, dcells[-1][0].idx
        t = c0.src
        if j < nd - 1:
            t = t / z3.IntVal(10 ** (nd - 1 - j))
        if a > 0:
            t = t % z3.IntVal(10 ** (j - a + 1))
        runinfo = None
        if allzero and a == 0:
            # value == (N div 10^tdiv) * 10^wlast
            runinfo = (c0.src, nd - 1 - j, Fraction(10) ** dcells[-1][1])
        return tot + z3.ToReal(t) * z3.RealVal(Fraction(10) ** dcells[-1][1]), runinfo
    for c, w in dcells:
        tot = tot + z3.ToReal(c.e) * z3.RealVal(Fraction(10) ** w)
    return tot, None


def _digit_term(c):
    return z3.ToReal(c.e) if _isd(c) else z3.RealVal(_py_int(c))


def parse_number(cells, nastran=False):
    """-> (value term, is_integer_literal, info dict) or ValueError.
    Grammar (Python float()/int()): ws [sign] digits [. digits] [e [sign] digits] ws
    with at least one digit in the mantissa; nastran=True also accepts a bare
    sign or 'd' as the exponent marker."""
    c = list(cells)
    while c and not _isd(c[0]) and c[0] in SymStr._WS:
        c.pop(0)
    while c and not _isd(c[-1]) and c[-1] in SymStr._WS:
        c.pop()
    if not c:
        raise ValueError("empty")
    neg = False
    if not _isd(c[0]) and c[0] in "+-":
        neg = c[0] == "-"
        c = c[1:]
    isdig = lambda q: _isd(q) or q.isdigit()
    i = 0
    ip = []
    while i < len(c) and isdig(c[i]):
        ip.append(c[i])
        i += 1
    fp = []
    has_point = False
    if i < len(c) and c[i] == ".":
        has_point = True
        i += 1
        while i < len(c) and isdig(c[i]):
            fp.append(c[i])
            i += 1
    if not ip and not fp:
        raise ValueError("no digits")
    exp = 0
    has_exp = False
    if i < len(c):
        marker = c[i]
        if _isd(marker):
            raise ValueError("bad char")
        if marker in "eE" or (nastran and marker in "dD"):
            i += 1
            sgn = 1
            if i < len(c) and not _isd(c[i]) and c[i] in "+-":
                sgn = -1 if c[i] == "-" else 1
                i += 1
        elif nastran and marker in "+-":
            sgn = -1 if marker == "-" else 1
            i += 1
        else:
            raise ValueError("bad char %r" % marker)
        ex = c[i:]
        if not ex or any(_isd(q) or not q.isdigit() for q in ex):
            raise ValueError("bad exponent")
        exp = sgn * _py_int("".join(ex))
        has_exp = True
        i = len(c)
    tot, runinfo = _mantissa_value(ip, fp)
    tot = tot * z3.RealVal(Fraction(10) ** exp)
    if runinfo is not None:
        runinfo = (runinfo[0], runinfo[1], runinfo[2] * Fraction(10) ** exp)
    if neg:
        tot = -tot
    is_int = not has_point and not has_exp
    return z3.simplify(tot), is_int, dict(nfrac=len(fp), exp=exp, nint=len(ip), neg=neg, has_point=has_point, has_exp=has_exp, run=runinfo)


# ---------------------------------------------------------------------------
# numbers that render into SymStr

def _fresh_int(base):
    return S.eng().fresh(base, "Int")


def _half():
    return z3.RealVal(Fraction(1, 2))




def _registry():
    """per-path list of integers known to approximate a common base term:
    (N, base_id, scale, err) meaning |N - base*scale| <= err"""
    E = S.eng()
    reg = getattr(E, "_x_reg", None)
    if reg is None or reg[0] is not E.pc:
        reg = (E.pc, [])
        E._x_reg = reg
    return reg[1]


def _prov_of(N):
    for n, b, sc, er in _registry():
        if n is N or n.get_id() == N.get_id():
            return b, sc, er
    return None


def _register(N, ax, sc, prov):
    """N = round(ax * sc).  ax ~ base*ps +- pe (prov) or ax is itself the base.
    Adds the (implied, hence sound) integer-only lemmas that tie N to every other
    rounding of the same base: they spare the solver a detour through the reals"""
    E = S.eng()
    if prov is None:
        base, ps, pe = ax.get_id(), Fraction(1), Fraction(0)
    else:
        base, ps, pe = prov
    sN, eN = ps * sc, pe * sc + Fraction(1, 2)
    reg = _registry()
    for n, b, s2, e2 in reg:
        if b != base:
            continue
        # |N/sN - n/s2| <= eN/sN + e2/s2   ->   |N*s2 - n*sN| <= eN*s2 + e2*sN
        k = 1
        for fr in (s2, sN, eN * s2 + e2 * sN):
            k = k * fr.denominator // math.gcd(k, fr.denominator)
        a1, a2, bd = _py_int(s2 * k), _py_int(sN * k), eN * s2 * k + e2 * sN * k
        bdi = bd.numerator // bd.denominator
        E.assume(z3.And(N * a1 - n * a2 <= bdi, n * a2 - N * a1 <= bdi))
    reg.append((N, base, sN, eN))


def render_fixed(x, P, minwidth=0, hint=None, prov=None):
    """CPython f'{x:{minwidth}.{P}f}' for a real term x -> SymStr"""
    E = S.eng()
    neg = E.decide(x < 0)
    ax = -x if neg else x
    N = _fresh_int("N")
    sc = z3.RealVal(Fraction(10) ** P)
    E.assume(z3.And(z3.ToReal(N) >= ax * sc - _half(), z3.ToReal(N) <= ax * sc + _half(), N >= 0))
    _register(N, ax, Fraction(10) ** P, prov)
    # python prints "-0.00" for tiny negatives: sign kept (neg decided on x)
    k = 1 if hint is None else max(1, hint)
    while k > 1 and E.decide(N < 10 ** (P + k - 1)):
        k -= 1
    while not E.decide(N < 10 ** (P + k)):
        k += 1
        if k > 400:
            raise Unsupported("render_fixed: too many digits")
    nd = P + k
    dc = digit_cells(N, nd)
    cells = (["-"] if neg else []) + dc[:k] + (["."] + dc[k:] if P > 0 else [])
    cells = [" "] * max(0, minwidth - len(cells)) + cells
    return SymStr(cells)


def digit_cells(N, nd):
    """the nd decimal digits of the non-negative integer term N (N < 10^nd is on
    the path condition) as expressions (N div 10^p) mod 10 - no digit variables"""
    out = []
    for i in range(nd):
        p = nd - 1 - i
        t = N if p == 0 else N / z3.IntVal(10 ** p)
        if i > 0:
            t = t % z3.IntVal(10)
        out.append(D(t, N, i, nd))
    return out


def render_sci(x, P, minwidth=0, hint=0, prov=None):
    """CPython f'{x:{minwidth}.{P}e}' for a non-zero real term x -> SymStr"""
    E = S.eng()
    neg = E.decide(x < 0)
    ax = -x if neg else x
    e = hint
    while not E.decide(ax >= z3.RealVal(Fraction(10) ** e)):
        e -= 1
        if e < -400:
            raise Unsupported("render_sci: zero or tiny value")
    while not E.decide(ax < z3.RealVal(Fraction(10) ** (e + 1))):
        e += 1
        if e > 400:
            raise Unsupported("render_sci: huge value")
    M = _fresh_int("M")
    sc = z3.RealVal(Fraction(10) ** (P - e))
    E.assume(z3.And(z3.ToReal(M) >= ax * sc - _half(), z3.ToReal(M) <= ax * sc + _half()))
    _register(M, ax, Fraction(10) ** (P - e), prov)
    if E.decide(M >= 10 ** (P + 1)):   # carry into the next decade
        E.assume(M == 10 ** (P + 1))
        e += 1
        cells_m = ["1", "."] + ["0"] * P
    else:
        E.assume(M >= 10 ** P)
        dc = digit_cells(M, P + 1)
        cells_m = [dc[0]] + (["."] + dc[1:] if P > 0 else [])
    es = "%02d" % abs(e)
    cells = (["-"] if neg else []) + cells_m + ["e", "-" if e < 0 else "+"] + list(es)
    cells = [" "] * max(0, minwidth - len(cells)) + cells
    return SymStr(cells)


class SymFloat(S.SymR):
    """SymR with Python-float formatting, round() and sign-forking abs()"""
    __slots__ = ("hint", "intexpr", "prov")

    def __init__(self, e, hint=None, intexpr=None, prov=None):
        self.e = e
        self.hint = hint          # decade hint: 10^hint <= |x| < 10^(hint+1) expected
        self.intexpr = intexpr    # z3 Int if the value is known to be an integer
        self.prov = prov          # (base_id, scale, err): |value| ~ base*scale +- err

    def __format__(self, spec):
        m = re.fullmatch(r"(\d*)\.(\d+)([feE])", spec)
        if not m:
            raise Unsupported("SymFloat.__format__: unsupported spec %r" % spec)
        w = _py_int(m.group(1) or 0)
        P = _py_int(m.group(2))
        if m.group(3) == "f":
            return render_fixed(self.e, P, w, None if self.hint is None else self.hint + 1, self.prov)
        r = render_sci(self.e, P, w, self.hint or 0, self.prov)
        return r.upper() if m.group(3) == "E" else r

    def __abs__(s):
        if S.eng().decide(s.e < 0):
            return SymFloat(-s.e, s.hint, None if s.intexpr is None else -s.intexpr, s.prov)
        return s

    def __neg__(s):
        return SymFloat(-s.e, s.hint, None if s.intexpr is None else -s.intexpr, s.prov)

    def __round__(s, nd=None):
        if nd not in (None, 0):
            raise Unsupported("SymFloat.__round__: ndigits unsupported")
        E = S.eng()
        if s.intexpr is not None:
            N = s.intexpr
        else:
            N = _fresh_int("R")
            E.assume(z3.And(z3.ToReal(N) >= s.e - _half(), z3.ToReal(N) <= s.e + _half()))
        if nd is None:
            return SymInt(N, s.hint)
        return SymFloat(z3.ToReal(N), s.hint, N)

    def __float__(s):
        raise Unsupported("float() of a SymFloat at C level: unsupported operation reached")

    def __repr__(s):
        return "SymFloat(%s)" % z3.simplify(s.e)


class SymInt(S.SymI):
    """integer with 'Nd' / '.Pf' formatting into digit cells"""
    __slots__ = ("hint",)

    def __init__(self, e, hint=None):
        self.e = e
        self.hint = hint

    def _digits(self):
        E = S.eng()
        neg = E.decide(self.e < 0)
        a = -self.e if neg else self.e
        k = 1 if self.hint is None else max(1, self.hint + 1)
        while k > 1 and E.decide(a < 10 ** (k - 1)):
            k -= 1
        while not E.decide(a < 10 ** k):
            k += 1
            if k > 400:
                raise Unsupported("SymInt: too many digits")
        return neg, digit_cells(a, k)

    def __format__(self, spec):
        m = re.fullmatch(r"(\d*)d?", spec) if spec else None
        if m:
            w = _py_int(m.group(1) or 0)
            neg, ds = self._digits()
            cells = (["-"] if neg else []) + ds
            return SymStr([" "] * max(0, w - len(cells)) + cells)
        m = re.fullmatch(r"(\d*)\.(\d+)f", spec)
        if m:
            w, P = _py_int(m.group(1) or 0), _py_int(m.group(2))
            neg, ds = self._digits()
            cells = (["-"] if neg else []) + ds + (["."] + ["0"] * P if P else [])
            return SymStr([" "] * max(0, w - len(cells)) + cells)
        if spec == "":
            neg, ds = self._digits()
            return SymStr((["-"] if neg else []) + ds)
        raise Unsupported("SymInt.__format__: unsupported spec %r" % spec)

    def __str__(self):
        return self.__format__("")

    def __abs__(s):
        if S.eng().decide(s.e < 0):
            return SymInt(-s.e, s.hint)
        return s

    def __neg__(s):
        return SymInt(-s.e, s.hint)

    def __index__(s):
        raise Unsupported("SymInt used as an index: unsupported operation reached")

    __int__ = __index__

    def __hash__(s):
        return id(s)

    def __repr__(s):
        return "SymInt(%s)" % z3.simplify(s.e)


# ---------------------------------------------------------------------------
# shadows for the module-level names float / int / str of the code under test

class _FloatMeta(type):
    def __instancecheck__(cls, obj):
        return isinstance(obj, (_py_float, SymFloat))


class DecFloat(_py_float):
    """a concrete double produced by float(<decimal text>) that remembers the exact
    decimal value it was parsed from (`dec`): comparisons against symbolic values
    use the decimal, as the symbolic side is exact too (sym._const honours .dec)"""

    def __new__(cls, s):
        o = _py_float.__new__(cls, s)
        try:
            o.dec = Fraction(s.strip().replace("_", "")) if isinstance(s, _py_str) else None
        except (ValueError, ZeroDivisionError):
            o.dec = None
        return o


class SxFloat(metaclass=_FloatMeta):
    """stands for the builtin `float` in the patched module: float(x) converts,
    isinstance(x, float) accepts SymFloat"""

    def __new__(cls, s=0.0):
        if isinstance(s, SymStr):
            v, _isint, pi = parse_number(s.cells, nastran=False)   # raises ValueError like float()
            prov = None
            if pi.get("run") is not None:
                N, tdiv, w = pi["run"]
                pr = _prov_of(N)
                if pr is not None:
                    b, sc, er = pr
                    d = Fraction(10) ** tdiv
                    # |N div d - base*sc/d| <= er/d + 1, then scaled by w
                    prov = (b, sc / d * w, (er / d + (1 if tdiv else 0)) * w)
            return SymFloat(v, prov=prov)
        if isinstance(s, SymFloat):
            return s
        if isinstance(s, SymInt):
            return SymFloat(z3.ToReal(s.e), s.hint, s.e)
        if isinstance(s, S.SymR):
            return SymFloat(s.e)
        if isinstance(s, _py_str):
            return DecFloat(s)
        return _py_float(s)


class _IntMeta(type):
    def __instancecheck__(cls, obj):
        return (isinstance(obj, _py_int) and not isinstance(obj, bool)) or isinstance(obj, SymInt) or isinstance(obj, bool)


class SxInt(metaclass=_IntMeta):
    def __new__(cls, s=0):
        if isinstance(s, SymStr):
            v, isint, _ = parse_number(s.cells, nastran=False)
            if not isint:
                raise ValueError("invalid literal for int(): %s" % s.render())
            n = _fresh_int("I")
            S.eng().assume(z3.ToReal(n) == v)
            return SymInt(n)
        if isinstance(s, SymInt):
            return s
        if isinstance(s, SymFloat):
            if s.intexpr is not None:
                return SymInt(s.intexpr, s.hint)
            raise Unsupported("int() of a non-integral SymFloat: unsupported (truncation)")
        return _py_int(s)


class _StrMeta(type):
    def __instancecheck__(cls, obj):
        return isinstance(obj, _py_str)


class SxStr(metaclass=_StrMeta):
    def __new__(cls, s=""):
        if isinstance(s, SymStr):
            return s
        if isinstance(s, SymInt):
            return s.__format__("")
        if isinstance(s, S.SymR):
            raise Unsupported("str() of a symbolic real: unsupported operation reached")
        return _py_str(s)


# ---------------------------------------------------------------------------
# AST hook targets (see astload.py)

def _issym(v):
    return isinstance(v, (SymStr, SymFloat, SymInt))


def sx_fmtval(v, spec, conversion=-1):
    if conversion not in (-1, None):
        if _issym(v):
            raise Unsupported("f-string conversion on a symbolic value")
        v = {115: _py_str, 114: repr, 97: ascii}[conversion](v)
    return format(v, spec)


def sx_fstring(*parts):
    if not any(isinstance(p, SymStr) for p in parts):
        return "".join(parts)
    cells = []
    for p in parts:
        cells += _cells(p)
    return mk(cells)


def sx_format(fmt, *args, **kw):
    if isinstance(fmt, SymStr):
        raise Unsupported("symbolic template")
    if not (any(_issym(a) for a in args) or any(_issym(a) for a in kw.values())):
        return fmt.format(*args, **kw)
    parts = []
    auto = 0
    for lit, field, spec, conv in string.Formatter().parse(fmt):
        if lit:
            parts.append(lit)
        if field is None:
            continue
        if field == "":
            v = args[auto]
            auto += 1
        elif field.isdigit():
            v = args[_py_int(field)]
        else:
            v = kw[field]
        if conv:
            raise Unsupported("conversion in str.format on symbolic value")
        if "{" in (spec or ""):
            raise Unsupported("nested format spec")
        parts.append(format(v, spec or ""))
    return sx_fstring(*parts)


def sx_mod(fmt, arg):
    """`fmt % arg` for a single %W.PE / %W.Pf / %Wd conversion with a symbolic arg"""
    if not isinstance(fmt, _py_str) or isinstance(fmt, SymStr):
        return fmt % arg
    args = arg if isinstance(arg, tuple) else (arg,)
    if not any(_issym(a) for a in args):
        return fmt % arg
    out = []
    pos = 0
    ai = 0
    for m in re.finditer(r"%(\d*)(?:\.(\d+))?([dfeEs%])", fmt):
        out.append(fmt[pos:m.start()])
        pos = m.end()
        if m.group(3) == "%":
            out.append("%")
            continue
        a = args[ai]
        ai += 1
        w = m.group(1) or ""
        if m.group(3) == "d":
            out.append(format(a, "%sd" % w) if _issym(a) else ("%" + w + "d") % a)
        elif m.group(3) in "feE":
            p = m.group(2) if m.group(2) is not None else "6"
            if _issym(a):
                r = format(a, "%s.%s%s" % (w, p, m.group(3).lower()))
                if m.group(3) == "E":
                    r = r.upper()
                out.append(r)
            else:
                out.append(("%" + w + "." + p + m.group(3)) % a)
        else:
            out.append(format(a, ">%ss" % w) if w else a)
    out.append(fmt[pos:])
    return sx_fstring(*out)


def sx_join(sep, items):
    if not isinstance(sep, _py_str):
        return sep.join(items)      # os.path.join and friends
    items = list(items)
    if not (isinstance(sep, SymStr) or any(isinstance(i, SymStr) for i in items)):
        return sep.join(items)
    cells = []
    for k, it in enumerate(items):
        if k:
            cells += _cells(sep)
        cells += _cells(it)
    return mk(cells)


HOOKS = dict(_sx_join=sx_join, _sx_fstring=sx_fstring, _sx_fmtval=sx_fmtval, _sx_format=sx_format, _sx_mod=sx_mod)
SHADOWS = dict(float=SxFloat, int=SxInt, str=SxStr)


# ---------------------------------------------------------------------------
# `re` and `range` shadows

import re as _re


class _SymMatch:
    def __init__(self, m, s):
        self._m, self._s = m, s

    def _slice(self, k):
        a, b = self._m.span(k)
        if a < 0:
            return None
        return mk(self._s.cells[a:b])

    def group(self, *ks):
        if not ks:
            ks = (0,)
        r = tuple(self._slice(k) for k in ks)
        return r[0] if len(r) == 1 else r

    __getitem__ = lambda self, k: self._slice(k)

    def groups(self):
        return tuple(self._slice(k + 1) for k in range(self._m.re.groups))

    def start(self, k=0):
        return self._m.start(k)

    def end(self, k=0):
        return self._m.end(k)

    def span(self, k=0):
        return self._m.span(k)


def _digit_agnostic(pattern):
    """the pattern must treat all decimal digits alike: no digit literal outside
    \\d, [0-9] and {m,n}"""
    p = _re.sub(r"\[0-9\]|\\d|\{[0-9,]*\}", "", pattern)
    return not any(ch.isdigit() for ch in p)


class _SymPattern:
    def __init__(self, pattern, flags=0):
        self._p = _re.compile(pattern, flags)
        self.pattern = pattern

    def _run(self, fn, s, *a):
        if isinstance(s, SymStr):
            if not _digit_agnostic(self.pattern):
                raise Unsupported("regex with digit literals on a symbolic string: %r" % self.pattern)
            # every symbolic cell is a decimal digit; a digit-agnostic pattern matches
            # the same spans whatever the digits are
            txt = "".join("7" if _isd(c) else c for c in s.cells)
            m = fn(txt, *a)
            return None if m is None else _SymMatch(m, s)
        return fn(s, *a)

    def match(self, s, *a):
        return self._run(self._p.match, s, *a)

    def search(self, s, *a):
        return self._run(self._p.search, s, *a)

    def fullmatch(self, s, *a):
        return self._run(self._p.fullmatch, s, *a)


class SxRe:
    """stands for the module `re` in the patched module"""
    IGNORECASE = _re.IGNORECASE
    I = _re.I
    MULTILINE = _re.MULTILINE

    def __getattr__(self, name):
        return getattr(_re, name)

    @staticmethod
    def compile(pattern, flags=0):
        return _SymPattern(pattern, flags)

    @staticmethod
    def search(pattern, s, flags=0):
        return _SymPattern(pattern, flags).search(s)

    @staticmethod
    def match(pattern, s, flags=0):
        return _SymPattern(pattern, flags).match(s)

    @staticmethod
    def fullmatch(pattern, s, flags=0):
        return _SymPattern(pattern, flags).fullmatch(s)


def sx_range(*a):
    """range() whose bounds may be symbolic integers with a path-determined
    length: returns the list [start, start+1, ...] of symbolic integers"""
    if not any(isinstance(x, S.SymR) for x in a):
        return range(*a)
    if len(a) == 1:
        start, stop = 0, a[0]
    elif len(a) == 2:
        start, stop = a
    else:
        raise Unsupported("range() with a step on symbolic bounds")
    n = S.eng().fork_int(z3.simplify(S.lift(stop) - S.lift(start)), cap=4096)
    return [start + k if k else start for k in range(max(0, n))]


SHADOWS_RE = dict(re=SxRe(), range=sx_range)
