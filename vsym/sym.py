"""Symbolic scalars that live in NumPy dtype=object arrays.

SymR  - real (z3 Real term)           SymI - integer (z3 Int term)
SymC  - complex as a pair of reals    SymB - boolean; bool() forks
SymF  - real with NaN flag (for the NaN-aware cla kernels)

Arithmetic builds z3 terms; bool() of a comparison calls Engine.decide.
Binary operators return NotImplemented for ndarray operands so that NumPy's
reflected implementation broadcasts element-wise.
"""
import math
from fractions import Fraction
import numpy as _np
import z3

_ENG = [None]


def set_engine(e):
    _ENG[0] = e


def eng():
    return _ENG[0]


def _const(x):
    """python / numpy real scalar -> z3 RealVal (exact) or None"""
    if isinstance(x, (_np.bool_, bool)):
        return z3.RealVal(int(x))
    if isinstance(x, (_np.integer,)):
        return z3.RealVal(int(x))
    if isinstance(x, (_np.floating,)):
        x = float(x)
    if isinstance(x, int):
        return z3.RealVal(x)
    if isinstance(x, float):
        d = getattr(x, "dec", None)
        if d is not None:
            return z3.RealVal(d)
        if x != x or x in (math.inf, -math.inf):
            raise ValueError("non-finite constant meets a symbolic value: %r" % x)
        return z3.RealVal(Fraction(x))
    if isinstance(x, Fraction):
        return z3.RealVal(x)
    return None


def lift(x):
    """anything real-valued -> z3 arithmetic term"""
    if isinstance(x, (SymR, SymI)):
        return x.e
    if z3.is_expr(x):
        return x
    c = _const(x)
    if c is None:
        if isinstance(x, SymC):
            raise TypeError("complex where real expected")
        if isinstance(x, _np.ndarray) and x.shape == ():
            return lift(x.item())
        raise TypeError("cannot lift %r" % type(x))
    return c


def is_sym(x):
    return isinstance(x, (SymR, SymI, SymC, SymB, SymF, SymBV))


class SymB:
    __slots__ = ("e",)

    def __init__(self, e):
        self.e = e

    def __bool__(self):
        return _ENG[0].decide(self.e)

    def _o(self, o):
        if isinstance(o, SymB):
            return o.e
        if isinstance(o, (bool, _np.bool_)):
            return z3.BoolVal(bool(o))
        return None

    def __and__(self, o):
        o = self._o(o)
        return NotImplemented if o is None else SymB(z3.And(self.e, o))

    __rand__ = __and__

    def __or__(self, o):
        o = self._o(o)
        return NotImplemented if o is None else SymB(z3.Or(self.e, o))

    __ror__ = __or__

    def __invert__(self):
        return SymB(z3.Not(self.e))

    __hash__ = None


def _isarr(o):
    return isinstance(o, _np.ndarray) and o.shape != ()


class SymR:
    __slots__ = ("e",)

    def __init__(self, e):
        self.e = e

    # --- helpers
    def _other(self, o):
        """-> ('r', term) | ('c', SymC) | None"""
        if isinstance(o, (SymR, SymI)):
            return "r", o.e
        if isinstance(o, SymC):
            return "c", o
        if isinstance(o, (complex, _np.complexfloating)):
            return "c", SymC.const(o)
        if _isarr(o):
            return None
        if isinstance(o, _np.ndarray):
            o = o.item()
            return self._other(o)
        c = _const(o)
        if c is None:
            return None
        return "r", c

    def _bin(self, o, f, cf):
        p = self._other(o)
        if p is None:
            return NotImplemented
        if p[0] == "c":
            return cf(SymC(self.e, z3.RealVal(0)), p[1])
        return SymR(f(self.e, p[1]))

    def __add__(s, o):
        return s._bin(o, lambda a, b: a + b, lambda a, b: a + b)

    def __radd__(s, o):
        return s._bin(o, lambda a, b: b + a, lambda a, b: b + a)

    def __sub__(s, o):
        return s._bin(o, lambda a, b: a - b, lambda a, b: a - b)

    def __rsub__(s, o):
        return s._bin(o, lambda a, b: b - a, lambda a, b: b - a)

    def __mul__(s, o):
        return s._bin(o, _mul, lambda a, b: a * b)

    def __rmul__(s, o):
        return s._bin(o, lambda a, b: _mul(b, a), lambda a, b: b * a)

    def __truediv__(s, o):
        return s._bin(o, _div, lambda a, b: a / b)

    def __rtruediv__(s, o):
        return s._bin(o, lambda a, b: _div(b, a), lambda a, b: b / a)

    def __neg__(s):
        return SymR(-s.e)

    def __pos__(s):
        return s

    def __abs__(s):
        return SymR(z3.If(s.e >= 0, s.e, -s.e))

    def __pow__(s, n):
        if isinstance(n, (float, _np.floating)) and float(n) == int(n):
            n = int(n)
        if isinstance(n, (float, _np.floating)) and float(n) == 0.5:
            return s.sqrt()
        if not isinstance(n, (int, _np.integer)):
            raise TypeError("symbolic ** non-integer")
        n = int(n)
        if n < 0:
            return 1 / (s ** (-n))
        r = z3.RealVal(1)
        for _ in range(n):
            r = _mul(r, s.e)
        return SymR(r)

    def sqrt(s):
        E = _ENG[0]
        r = E.fresh("sqrt")
        E.assume(z3.And(r >= 0, r * r == s.e))
        return SymRoot(r, s.e)

    def conjugate(s):
        return s

    conj = conjugate

    @property
    def real(s):
        return s

    @property
    def imag(s):
        return SymR(z3.RealVal(0))

    def _cmp(s, o, f):
        if _isarr(o):
            return NotImplemented
        try:
            t = lift(o)
        except TypeError:
            return NotImplemented
        return SymB(f(s.e, t))

    def __lt__(s, o):
        return s._cmp(o, lambda a, b: a < b)

    def __le__(s, o):
        return s._cmp(o, lambda a, b: a <= b)

    def __gt__(s, o):
        return s._cmp(o, lambda a, b: a > b)

    def __ge__(s, o):
        return s._cmp(o, lambda a, b: a >= b)

    def __eq__(s, o):
        if isinstance(o, (SymC, complex)):
            o = o if isinstance(o, SymC) else SymC.const(o)
            return SymB(z3.And(s.e == o.re, o.im == 0))
        return s._cmp(o, lambda a, b: a == b)

    def __ne__(s, o):
        return s._cmp(o, lambda a, b: a != b)

    def __hash__(s):
        return id(s)

    def __deepcopy__(s, memo):
        return s

    def __copy__(s):
        return s

    def __bool__(s):
        return _ENG[0].decide(s.e != 0)

    def __float__(s):
        raise TypeError("float() of a symbolic real (SymR): unsupported operation reached")

    def __repr__(s):
        return "SymR(%s)" % z3.simplify(s.e)

    def copy(s):
        return s


def _mul(a, b):
    # keep products of constants folded
    return a * b


def _div(a, b):
    return a / b


class SymRoot(SymR):
    """non-negative root r of `of` (r*r == of is on the path condition);
    squaring returns `of` itself so polynomial identities stay polynomial"""
    __slots__ = ("of",)

    def __init__(self, e, of):
        self.e = e
        self.of = of

    def __pow__(s, n):
        if isinstance(n, (int, _np.integer)) and int(n) == 2:
            return SymR(s.of)
        return SymR.__pow__(s, n)


class SymI(SymR):
    """integer-valued; index/int conversions concretise by forking"""
    __slots__ = ()

    def _ibin(s, o, f):
        if isinstance(o, SymI):
            return s.__class__(f(s.e, o.e))
        if isinstance(o, (bool, _np.bool_)):
            return s.__class__(f(s.e, z3.IntVal(int(o))))
        if isinstance(o, (int, _np.integer)):
            return s.__class__(f(s.e, z3.IntVal(int(o))))
        return None

    def __add__(s, o):
        r = s._ibin(o, lambda a, b: a + b)
        return r if r is not None else SymR.__add__(s, o)

    def __radd__(s, o):
        r = s._ibin(o, lambda a, b: b + a)
        return r if r is not None else SymR.__radd__(s, o)

    def __sub__(s, o):
        r = s._ibin(o, lambda a, b: a - b)
        return r if r is not None else SymR.__sub__(s, o)

    def __rsub__(s, o):
        r = s._ibin(o, lambda a, b: b - a)
        return r if r is not None else SymR.__rsub__(s, o)

    def __mul__(s, o):
        r = s._ibin(o, lambda a, b: a * b)
        return r if r is not None else SymR.__mul__(s, o)

    def __rmul__(s, o):
        r = s._ibin(o, lambda a, b: b * a)
        return r if r is not None else SymR.__rmul__(s, o)

    def __floordiv__(s, o):
        # python floor division == z3 int div for positive divisor
        if isinstance(o, (int, _np.integer)) and int(o) > 0:
            return s.__class__(s.e / z3.IntVal(int(o)))
        raise TypeError("symbolic // unsupported divisor")

    def __mod__(s, o):
        if isinstance(o, (int, _np.integer)) and int(o) > 0:
            return s.__class__(s.e % z3.IntVal(int(o)))
        raise TypeError("symbolic % unsupported divisor")

    def __rshift__(s, k):
        if isinstance(k, (int, _np.integer)) and int(k) >= 0:
            return s.__class__(s.e / z3.IntVal(1 << int(k)))       # floor division, as Python's >>
        raise TypeError("symbolic >> unsupported shift")

    def __lshift__(s, k):
        if isinstance(k, (int, _np.integer)) and int(k) >= 0:
            return s.__class__(s.e * z3.IntVal(1 << int(k)))
        raise TypeError("symbolic << unsupported shift")

    def __and__(s, m):
        if isinstance(m, (int, _np.integer)) and int(m) >= 0 and (int(m) + 1) & int(m) == 0:
            return s.__class__(s.e % z3.IntVal(int(m) + 1))        # low-bit mask (two's complement semantics)
        raise TypeError("symbolic & unsupported mask")

    __rand__ = __and__

    def __neg__(s):
        return s.__class__(-s.e)

    def __abs__(s):
        return s.__class__(z3.If(s.e >= 0, s.e, -s.e))

    def __index__(s):
        return _ENG[0].fork_int(s.e)

    __int__ = __index__

    def __hash__(s):
        return hash(_ENG[0].fork_int(s.e))

    def __repr__(s):
        return "SymI(%s)" % z3.simplify(s.e)


class SymBV:
    """fixed-width bit-vector (default 32); comparisons fork"""
    __slots__ = ("e",)

    def __init__(self, e):
        self.e = e

    def _o(self, o):
        if isinstance(o, SymBV):
            return o.e
        if isinstance(o, (int, _np.integer)) and not isinstance(o, bool):
            return z3.BitVecVal(int(o), self.e.size())
        return None

    def __and__(s, o):
        o = s._o(o)
        return NotImplemented if o is None else SymBV(s.e & o)

    __rand__ = __and__

    def __or__(s, o):
        o = s._o(o)
        return NotImplemented if o is None else SymBV(s.e | o)

    __ror__ = __or__

    def __xor__(s, o):
        o = s._o(o)
        return NotImplemented if o is None else SymBV(s.e ^ o)

    def __invert__(s):
        return SymBV(~s.e)

    def __eq__(s, o):
        o = s._o(o)
        return NotImplemented if o is None else SymB(s.e == o)

    def __ne__(s, o):
        o = s._o(o)
        return NotImplemented if o is None else SymB(s.e != o)

    def __bool__(s):
        return _ENG[0].decide(s.e != 0)

    def __hash__(s):
        return id(s)

    def __repr__(s):
        return "SymBV(%s)" % z3.simplify(s.e)


class SymC:
    __slots__ = ("re", "im")

    def __init__(self, re, im):
        self.re, self.im = re, im

    @staticmethod
    def const(c):
        c = complex(c)
        return SymC(z3.RealVal(Fraction(c.real)), z3.RealVal(Fraction(c.imag)))

    @property
    def real(s):
        return SymR(s.re)

    @property
    def imag(s):
        return SymR(s.im)

    def conjugate(s):
        return SymC(s.re, -s.im)

    conj = conjugate

    def _p(s, o):
        if isinstance(o, SymC):
            return o.re, o.im
        if isinstance(o, (SymR, SymI)):
            return o.e, z3.RealVal(0)
        if isinstance(o, (complex, _np.complexfloating)):
            o = complex(o)
            return z3.RealVal(Fraction(o.real)), z3.RealVal(Fraction(o.imag))
        if _isarr(o):
            return None
        if isinstance(o, _np.ndarray):
            return s._p(o.item())
        c = _const(o)
        if c is None:
            return None
        return c, z3.RealVal(0)

    def __add__(s, o):
        p = s._p(o)
        return NotImplemented if p is None else SymC(s.re + p[0], s.im + p[1])

    __radd__ = __add__

    def __sub__(s, o):
        p = s._p(o)
        return NotImplemented if p is None else SymC(s.re - p[0], s.im - p[1])

    def __rsub__(s, o):
        p = s._p(o)
        return NotImplemented if p is None else SymC(p[0] - s.re, p[1] - s.im)

    def __neg__(s):
        return SymC(-s.re, -s.im)

    def __pos__(s):
        return s

    def __mul__(s, o):
        p = s._p(o)
        if p is None:
            return NotImplemented
        return SymC(_smul(s.re, p[0]) - _smul(s.im, p[1]), _smul(s.re, p[1]) + _smul(s.im, p[0]))

    __rmul__ = __mul__

    def __truediv__(s, o):
        p = s._p(o)
        if p is None:
            return NotImplemented
        if _iszero(p[1]):
            return SymC(s.re / p[0], s.im / p[0])
        d = p[0] * p[0] + p[1] * p[1]
        return SymC((s.re * p[0] + s.im * p[1]) / d, (s.im * p[0] - s.re * p[1]) / d)

    def __rtruediv__(s, o):
        p = s._p(o)
        if p is None:
            return NotImplemented
        return SymC(p[0], p[1]) / s

    def __pow__(s, n):
        if not isinstance(n, (int, _np.integer)) or n < 0:
            raise TypeError("SymC ** unsupported")
        r = SymC(z3.RealVal(1), z3.RealVal(0))
        for _ in range(int(n)):
            r = r * s
        return r

    def __abs__(s):
        E = _ENG[0]
        r = E.fresh("cabs")
        sq = s.re * s.re + s.im * s.im
        E.assume(z3.And(r >= 0, r * r == sq))
        return SymRoot(r, sq)

    def abs2(s):
        return SymR(s.re * s.re + s.im * s.im)

    def __eq__(s, o):
        p = s._p(o)
        if p is None:
            return NotImplemented
        return SymB(z3.And(s.re == p[0], s.im == p[1]))

    def __ne__(s, o):
        p = s._p(o)
        if p is None:
            return NotImplemented
        return SymB(z3.Or(s.re != p[0], s.im != p[1]))

    __hash__ = None

    def copy(s):
        return s

    def __repr__(s):
        return "SymC(%s, %s)" % (z3.simplify(s.re), z3.simplify(s.im))


def _iszero(t):
    return z3.is_rational_value(t) and t.numerator_as_long() == 0


def _smul(a, b):
    if _iszero(a) or _iszero(b):
        return z3.RealVal(0)
    return a * b


class SymF:
    """IEEE-like value: NaN flag + real.  Comparisons with NaN are False."""
    __slots__ = ("nan", "val")

    def __init__(self, nan, val):
        self.nan, self.val = nan, val

    @staticmethod
    def of(o):
        if isinstance(o, SymF):
            return o
        if isinstance(o, (SymR, SymI)):
            return SymF(z3.BoolVal(False), o.e)
        if isinstance(o, (float, _np.floating)) and o != o:
            return SymF(z3.BoolVal(True), z3.RealVal(0))
        c = _const(o)
        if c is None:
            return None
        return SymF(z3.BoolVal(False), c)

    def _c(s, o, op, nanres=False):
        if _isarr(o):
            return NotImplemented
        o = SymF.of(o)
        if o is None:
            return NotImplemented
        ok = z3.And(z3.Not(s.nan), z3.Not(o.nan), op(s.val, o.val))
        if nanres:
            ok = z3.Or(s.nan, o.nan, op(s.val, o.val))
        return SymB(ok)

    def __lt__(s, o):
        return s._c(o, lambda a, b: a < b)

    def __gt__(s, o):
        return s._c(o, lambda a, b: a > b)

    def __le__(s, o):
        return s._c(o, lambda a, b: a <= b)

    def __ge__(s, o):
        return s._c(o, lambda a, b: a >= b)

    def __eq__(s, o):
        return s._c(o, lambda a, b: a == b)

    def __ne__(s, o):
        return s._c(o, lambda a, b: a != b, nanres=True)

    def __abs__(s):
        return SymF(s.nan, z3.If(s.val >= 0, s.val, -s.val))

    def __neg__(s):
        return SymF(s.nan, -s.val)

    def _a(s, o, f):
        if _isarr(o):
            return NotImplemented
        o = SymF.of(o)
        if o is None:
            return NotImplemented
        return SymF(z3.Or(s.nan, o.nan), f(s.val, o.val))

    def __add__(s, o):
        return s._a(o, lambda a, b: a + b)

    __radd__ = __add__

    def __sub__(s, o):
        return s._a(o, lambda a, b: a - b)

    def __rsub__(s, o):
        return s._a(o, lambda a, b: b - a)

    def __mul__(s, o):
        return s._a(o, lambda a, b: a * b)

    __rmul__ = __mul__
    __hash__ = None

    def copy(s):
        return s

    def __repr__(s):
        return "SymF(nan=%s, %s)" % (z3.simplify(s.nan), z3.simplify(s.val))


# ---------------------------------------------------------------------------
# array helpers

def rvec(name, n, cls=SymR, ctor=z3.Real):
    a = _np.empty(n, dtype=object)
    for i in range(n):
        a[i] = cls(ctor("%s_%d" % (name, i)))
    return a


def rmat(name, r, c):
    a = _np.empty((r, c), dtype=object)
    for i in range(r):
        for j in range(c):
            a[i, j] = SymR(z3.Real("%s_%d_%d" % (name, i, j)))
    return a


def cvec(name, n):
    a = _np.empty(n, dtype=object)
    for i in range(n):
        a[i] = SymC(z3.Real("%s_%d_re" % (name, i)), z3.Real("%s_%d_im" % (name, i)))
    return a


def cmat(name, r, c):
    a = _np.empty((r, c), dtype=object)
    for i in range(r):
        for j in range(c):
            a[i, j] = SymC(z3.Real("%s_%d_%d_re" % (name, i, j)), z3.Real("%s_%d_%d_im" % (name, i, j)))
    return a


def box(names_or_exprs, lo=-1, hi=1):
    out = []
    for x in names_or_exprs:
        if isinstance(x, str):
            x = z3.Real(x)
        out += [x >= lo, x <= hi]
    return out


def terms(a):
    """object array / scalar -> flat list of z3 real terms (complex -> re, im)"""
    out = []
    for v in _np.asarray(a, dtype=object).ravel():
        if isinstance(v, SymC):
            out += [v.re, v.im]
        elif isinstance(v, (complex, _np.complexfloating)):
            out += [lift(v.real), lift(v.imag)]
        else:
            out.append(lift(v))
    return out


def close(a, b, tol):
    """z3: |a-b| <= tol, for terms/syms/constants (complex compares parts)"""
    ta, tb = terms(a), terms(b)
    if len(ta) != len(tb):
        # one of them complex, the other real
        raise ValueError("close(): shape mismatch %d vs %d" % (len(ta), len(tb)))
    t = lift(tol)
    return z3.And([z3.And(x - y <= t, y - x <= t) for x, y in zip(ta, tb)])
