"""Symbolic text-line stream: an ASCII file as a list of lines made of typed,
fixed-width fields (integers whose value may be symbolic, opaque numbers, plain
text).  Lines are `str` objects (so the reader's own slicing / strip / find code
runs on them) that remember which fields a slice covers; `int()` / `float()` of
a piece return the field's value when the piece holds exactly that field and
raise StreamViolation when a slice cuts a field or spans two - for a reader of
fixed-width cards that is the finding ("field width", "numbers per line")."""
import numpy as _np

from . import sym as S
from .recstream import StreamViolation, Tok


def _placeholder(obj, width, kind):
    if kind == "i":
        txt = str(int(obj)) if not isinstance(obj, S.SymR) else "7"
        return txt.rjust(width)
    if kind == "n":
        mark = obj[1] if isinstance(obj, tuple) else "E"
        body = "1." + "0" * max(1, width - 7) + mark + "+00"
        return body.rjust(width)[:width]
    return str(obj).ljust(width)[:width]


class ALine(str):
    """text with field map: list of (start, stop, kind, value); kind in {'i','n','t'}"""

    def __new__(cls, text, fields=(), cut=False):
        o = str.__new__(cls, text)
        o.fields = list(fields)
        o.cut = cut
        return o

    @classmethod
    def build(cls, items, nl=True):
        """items: list of (kind, width, value)"""
        txt, fields, pos = "", [], 0
        for kind, width, val in items:
            t = _placeholder(val, width, kind)
            if kind != "t":
                fields.append((pos, pos + width, kind, val[0] if kind == "n" and isinstance(val, tuple) else val))
            txt += t
            pos += width
        if nl:
            txt += "\n"
        return cls(txt, fields)

    def _sub(self, a, b):
        fields, cut = [], self.cut
        for s, e, k, v in self.fields:
            if s >= a and e <= b:
                fields.append((s - a, e - a, k, v))
            elif e > a and s < b:
                cut = True
        return ALine(str.__getitem__(self, slice(a, b)), fields, cut)

    def __getitem__(self, k):
        if isinstance(k, slice):
            a, b, st = k.indices(len(self))
            if st != 1:
                raise StreamViolation("strided slice of a card")
            return self._sub(a, max(a, b))
        return str.__getitem__(self, k)

    def _trim(self, left, right, chars=None):
        t = str(self)
        a, b = 0, len(t)
        ws = chars if chars is not None else " \t\n\r\x0b\x0c"
        if left:
            while a < b and t[a] in ws:
                a += 1
        if right:
            while b > a and t[b - 1] in ws:
                b -= 1
        return self._sub(a, b)

    def strip(self, chars=None):
        return self._trim(True, True, chars)

    def rstrip(self, chars=None):
        return self._trim(False, True, chars)

    def lstrip(self, chars=None):
        return self._trim(True, False, chars)

    def replace(self, old, new, count=-1):
        t = str.replace(self, old, new, count)
        if len(old) == len(new):
            return ALine(t, self.fields, self.cut)
        return t

    def decode(self, *a):
        return self

    def _single(self, kind, what):
        if self.cut:
            raise StreamViolation("%s() of %r: the slice cuts a field" % (what, str(self)))
        fs = [f for f in self.fields]
        if len(fs) != 1 or fs[0][2] != kind:
            raise StreamViolation("%s() of %r: holds fields %r" % (what, str(self), [(f[2], f[3]) for f in fs]))
        s, e, k, v = fs[0]
        if str.strip(str(self)[:s] + str(self)[e:]) != "":
            raise StreamViolation("%s() of %r: text beside the field" % (what, str(self)))
        return v


def sx_int(x, *a):
    if isinstance(x, ALine):
        return x._single("i", "int")
    return int(x, *a)


def sx_float(x):
    if isinstance(x, ALine):
        return x._single("n", "float")
    return float(x)


def sx_join(sep, parts):
    parts = list(parts)
    if sep == "" and any(isinstance(p, ALine) for p in parts):
        txt, fields, cut, pos = "", [], False, 0
        for p in parts:
            if isinstance(p, ALine):
                fields += [(s + pos, e + pos, k, v) for s, e, k, v in p.fields]
                cut = cut or p.cut
            txt += str(p)
            pos += len(p)
        return ALine(txt, fields, cut)
    return sep.join(parts)


class AFile:
    """file object over a list of ALine"""

    def __init__(self, lines, mode="r"):
        self.lines = list(lines)
        self.i = 0
        self.mode = mode
        self.closed = False

    def read(self, n=-1):
        # only the binary-mode peek of format detection
        txt = "".join(str(l) for l in self.lines[:3])
        if n < 0 or "b" not in self.mode:
            raise StreamViolation("read() of a text stream")
        return txt[:n].encode()

    def readline(self):
        if self.i >= len(self.lines):
            return ALine("") if "b" not in self.mode else b""
        l = self.lines[self.i]
        self.i += 1
        return l

    def __iter__(self):
        return self

    def __next__(self):
        if self.i >= len(self.lines):
            raise StopIteration
        return self.readline()

    def seek(self, k, whence=0):
        if k == 0 and whence == 0:
            self.i = 0
            return
        raise StreamViolation("seek in a text stream")

    def close(self):
        self.closed = True
