"""Normal form for linear real terms: sum_i c_i * atom_i + c0 with exact
Fraction coefficients.  Used to hand the solver a flat obligation instead of a
deep DAG of products of big rationals (same meaning, far fewer tableau rows).
Non-linear sub-terms (If, products of two non-constants, uninterpreted
applications) are kept as opaque atoms, so the result is always equal to the
input term."""
from fractions import Fraction
import z3


def _num(t):
    if z3.is_rational_value(t):
        return Fraction(t.numerator_as_long(), t.denominator_as_long())
    if z3.is_int_value(t):
        return Fraction(t.as_long())
    return None


def linearize(t, memo=None):
    """-> (coeffs: {ast_id: (atom, Fraction)}, const: Fraction)"""
    if memo is None:
        memo = {}
    k = t.get_id()
    if k in memo:
        return memo[k][1]
    c = _num(t)
    if c is not None:
        r = ({}, c)
    else:
        kind = t.decl().kind() if z3.is_app(t) else None
        ch = t.children() if z3.is_app(t) else []
        if kind == z3.Z3_OP_ADD:
            co, cst = {}, Fraction(0)
            for x in ch:
                a, b = linearize(x, memo)
                cst += b
                for i, (at, v) in a.items():
                    if i in co:
                        co[i] = (at, co[i][1] + v)
                    else:
                        co[i] = (at, v)
            r = (co, cst)
        elif kind == z3.Z3_OP_SUB:
            a0, b0 = linearize(ch[0], memo)
            co, cst = dict(a0), b0
            for x in ch[1:]:
                a, b = linearize(x, memo)
                cst -= b
                for i, (at, v) in a.items():
                    if i in co:
                        co[i] = (at, co[i][1] - v)
                    else:
                        co[i] = (at, -v)
            r = (co, cst)
        elif kind == z3.Z3_OP_UMINUS:
            a, b = linearize(ch[0], memo)
            r = ({i: (at, -v) for i, (at, v) in a.items()}, -b)
        elif kind == z3.Z3_OP_MUL:
            parts = [linearize(x, memo) for x in ch]
            const = Fraction(1)
            nonconst = []
            for p, x in zip(parts, ch):
                if not p[0]:
                    const *= p[1]
                else:
                    nonconst.append((p, x))
            if const == 0:
                r = ({}, Fraction(0))
            elif not nonconst:
                r = ({}, const)
            elif len(nonconst) == 1:
                a, b = nonconst[0][0]
                r = ({i: (at, v * const) for i, (at, v) in a.items()}, b * const)
            else:
                prod = nonconst[0][1]
                for _, x in nonconst[1:]:
                    prod = prod * x
                r = ({prod.get_id(): (prod, const)}, Fraction(0))
        elif kind == z3.Z3_OP_DIV and _num_lin(ch[1], memo) is not None and _num_lin(ch[1], memo) != 0:
            d = _num_lin(ch[1], memo)
            a, b = linearize(ch[0], memo)
            r = ({i: (at, v / d) for i, (at, v) in a.items()}, b / d)
        elif kind == z3.Z3_OP_TO_REAL:
            r = linearize(ch[0], memo) if _num(ch[0]) is not None else ({k: (t, Fraction(1))}, Fraction(0))
        else:
            r = ({k: (t, Fraction(1))}, Fraction(0))
    memo[k] = (t, r)   # keep `t` alive: AST ids are recycled after GC
    return r


def _num_lin(t, memo):
    a, b = linearize(t, memo)
    return b if not a else None


def flat(t, memo=None):
    """equal term in flat form"""
    co, cst = linearize(t, memo)
    terms = [z3.RealVal(v) * at for at, v in co.values() if v != 0]
    if cst != 0 or not terms:
        terms.append(z3.RealVal(cst))
    return terms[0] if len(terms) == 1 else z3.Sum(terms)


def coeff_norm1(t):
    co, cst = linearize(t)
    return sum(abs(v) for _, v in co.values()) + abs(cst)


def _round(v, bits=90):
    """nearest dyadic rational with ~`bits` significant bits"""
    if v == 0:
        return v
    n, d = v.numerator, v.denominator
    e = n.bit_length() - d.bit_length()       # v ~ 2**e
    sh = bits - e
    if sh >= 0:
        q = (n << sh) // d
        return Fraction(q, 1 << sh)
    q = n // (d << (-sh))
    return Fraction(q << (-sh))


def flat_rounded(t, memo=None, box=1, bits=90):
    """(term', eps): term' has coefficients rounded to `bits` significant bits
    and |term - term'| <= eps whenever every *variable* atom lies in
    [-box, box].  Returns eps=None if some atom is not a plain variable (then
    term' is the exact flat form)."""
    co, cst = linearize(t, memo)
    eps = Fraction(0)
    terms = []
    exact = False
    for at, v in co.values():
        if v == 0:
            continue
        if not (z3.is_const(at) and at.decl().kind() == z3.Z3_OP_UNINTERPRETED):
            exact = True
            break
    if exact:
        return flat(t, memo), None
    for at, v in sorted(co.values(), key=lambda p: p[0].get_id()):
        if v == 0:
            continue
        r = _round(v, bits)
        eps += abs(v - r) * box
        terms.append(z3.RealVal(r) * at)
    r0 = _round(cst, bits)
    eps += abs(cst - r0)
    if r0 != 0 or not terms:
        terms.append(z3.RealVal(r0))
    return (terms[0] if len(terms) == 1 else z3.Sum(terms)), eps
