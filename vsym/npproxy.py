"""Stand-in for the module-global `np` of a pyYeti module under symbolic run.

Everything not overridden delegates to the real NumPy.  Allocation routines
return dtype=object arrays (so symbolic scalars can be stored) while
`self.sym` is on; value-inspecting routines that NumPy cannot run on symbolic
scalars get element-wise Python models of their documented contract.
"""
import types
import numpy as _np
import z3
from . import sym as S


_FLOATY = (None, float, complex, _np.float64, _np.complex128, "float", "complex", "d", "D")


def _floaty(dtype):
    try:
        return dtype in _FLOATY or _np.dtype(dtype).kind in "fc"
    except TypeError:
        return False


def has_sym(a):
    if isinstance(a, _np.ndarray):
        if a.dtype != object:
            return False
        return any(S.is_sym(v) for v in a.ravel())
    if isinstance(a, (list, tuple)):
        return any(has_sym(v) for v in a)
    return S.is_sym(a)


class NPProxy:
    def __init__(self, sym=True, minmax="if"):
        self.sym = sym
        self.minmax = minmax   # "if": If-chain reductions; "fork": numpy's own (forking)
        self.hits = set()

    def __getattr__(self, name):
        return getattr(_np, name)

    # ---- allocation
    def _alloc(self, fill, shape, dtype, order="C"):
        if self.sym and _floaty(dtype):
            a = _np.empty(shape, dtype=object, order=order)
            a.fill(fill)
            return a
        return None

    def zeros(self, shape, dtype=float, order="C"):
        a = self._alloc(0.0, shape, dtype, order)
        return a if a is not None else _np.zeros(shape, dtype, order=order)

    def empty(self, shape, dtype=float, order="C"):
        a = self._alloc(0.0, shape, dtype, order)
        return a if a is not None else _np.empty(shape, dtype, order=order)

    def ones(self, shape, dtype=float, order="C"):
        a = self._alloc(1.0, shape, dtype, order)
        return a if a is not None else _np.ones(shape, dtype, order=order)

    def full(self, shape, fill_value, dtype=None, order="C"):
        if self.sym and (S.is_sym(fill_value) or (dtype is None and isinstance(fill_value, float)) or (dtype is not None and _floaty(dtype))):
            a = _np.empty(shape, dtype=object, order=order)
            a.fill(fill_value)
            return a
        return _np.full(shape, fill_value, dtype, order=order)

    def zeros_like(self, a, dtype=None, **kw):
        if self.sym and (getattr(a, "dtype", None) == object or (getattr(a, "dtype", None) is not None and a.dtype.kind in "fc")) and (dtype is None or _floaty(dtype)):
            r = _np.empty(_np.shape(a), dtype=object)
            r.fill(0.0)
            return r
        return _np.zeros_like(a, dtype=dtype, **kw)

    def empty_like(self, a, dtype=None, **kw):
        return self.zeros_like(a, dtype=dtype, **kw)

    def ones_like(self, a, dtype=None, **kw):
        r = self.zeros_like(a, dtype=dtype, **kw)
        if r.dtype == object:
            r.fill(1.0)
            return r
        return _np.ones_like(a, dtype=dtype, **kw)

    # ---- conversions
    def asarray(self, a, dtype=None, **kw):
        if has_sym(a):
            if isinstance(a, _np.ndarray):
                return a
            return _np.array(a, dtype=object)
        return _np.asarray(a, dtype=dtype, **kw)

    def array(self, a, dtype=None, **kw):
        if has_sym(a):
            r = _np.array(a, dtype=object)
            return r
        return _np.array(a, dtype=dtype, **kw)

    def atleast_1d(self, *a):
        if len(a) == 1 and has_sym(a[0]) and not isinstance(a[0], _np.ndarray):
            r = _np.empty(len(a[0]) if isinstance(a[0], (list, tuple)) else 1, dtype=object)
            if isinstance(a[0], (list, tuple)):
                for i, v in enumerate(a[0]):
                    r[i] = v
            else:
                r[0] = a[0]
            return r
        return _np.atleast_1d(*a)

    def iscomplexobj(self, a):
        if isinstance(a, _np.ndarray) and a.dtype == object:
            return any(isinstance(v, (S.SymC, complex, _np.complexfloating)) for v in a.ravel())
        return _np.iscomplexobj(a)

    def isrealobj(self, a):
        return not self.iscomplexobj(a)

    # ---- value inspection
    def isnan(self, a):
        if isinstance(a, _np.ndarray) and a.dtype == object:
            out = _np.zeros(a.shape, bool)
            for idx in _np.ndindex(*a.shape):
                v = a[idx]
                if isinstance(v, S.SymF):
                    out[idx] = S.eng().decide(v.nan)
                elif S.is_sym(v):
                    out[idx] = False
                else:
                    out[idx] = v != v
            return out
        if isinstance(a, S.SymF):
            return S.eng().decide(a.nan)
        if S.is_sym(a):
            return False
        return _np.isnan(a)

    def isfinite(self, a):
        if isinstance(a, _np.ndarray) and a.dtype == object:
            return ~self.isnan(a)
        if S.is_sym(a):
            return True
        return _np.isfinite(a)

    def sqrt(self, a):
        if isinstance(a, _np.ndarray) and a.dtype == object:
            out = _np.empty(a.shape, dtype=object)
            for idx in _np.ndindex(*a.shape):
                v = a[idx]
                out[idx] = v.sqrt() if S.is_sym(v) else _np.sqrt(float(v))
            return out
        if S.is_sym(a):
            return a.sqrt()
        return _np.sqrt(a)

    def abs(self, a):
        if S.is_sym(a):
            return abs(a)
        return _np.abs(a)

    absolute = abs

    def real(self, a):
        if isinstance(a, _np.ndarray) and a.dtype == object:
            out = _np.empty(a.shape, dtype=object)
            for idx in _np.ndindex(*a.shape):
                v = a[idx]
                out[idx] = v.real
            return out
        return _np.real(a)

    def imag(self, a):
        if isinstance(a, _np.ndarray) and a.dtype == object:
            out = _np.empty(a.shape, dtype=object)
            for idx in _np.ndindex(*a.shape):
                v = a[idx]
                out[idx] = v.imag if hasattr(v, "imag") else 0.0
            return out
        return _np.imag(a)

    def interp(self, x, xp, fp, left=None, right=None):
        """documented contract of np.interp as comparison code"""
        if not (has_sym(x) or has_sym(xp) or has_sym(fp)):
            return _np.interp(x, xp, fp, left=left, right=right)
        xs = _np.atleast_1d(_np.asarray(x, dtype=object))
        out = _np.empty(xs.shape, dtype=object)
        n = len(xp)
        for i, xv in enumerate(xs):
            if xv < xp[0]:
                out[i] = fp[0] if left is None else left
            elif xv > xp[n - 1]:
                out[i] = fp[n - 1] if right is None else right
            else:
                for j in range(n - 1):
                    if xv <= xp[j + 1]:
                        if xv == xp[j + 1]:
                            out[i] = fp[j + 1]
                        else:
                            t = (xv - xp[j]) / (xp[j + 1] - xp[j])
                            out[i] = fp[j] + t * (fp[j + 1] - fp[j])
                        break
                else:
                    out[i] = fp[n - 1]
        if _np.ndim(x) == 0:
            return out[0]
        return out

    def digitize(self, x, bins, right=False):
        """documented contract (increasing bins): index i with
        bins[i-1] <= x < bins[i] (right=False) or bins[i-1] < x <= bins[i]"""
        if not (has_sym(x) or has_sym(bins)):
            return _np.digitize(x, bins, right=right)
        xs = _np.asarray(x, dtype=object).ravel()
        out = _np.zeros(len(xs), dtype=_np.int64)
        for i, xv in enumerate(xs):
            k = 0
            for b in bins:
                if (xv > b) if right else (xv >= b):
                    k += 1
                else:
                    break
            out[i] = k
        return out.reshape(_np.shape(x))


def rebind(funcs, patches):
    """fresh function objects over the same code objects with patched globals.

    funcs: iterable of functions from ONE module.  Returns dict name->function
    sharing one globals dict = module globals + patches (+ the rebound
    functions themselves, so intra-module calls hit the rebound versions).
    """
    funcs = list(funcs)
    g = dict(funcs[0].__globals__)
    g.update(patches)
    out = {}
    for f in funcs:
        nf = types.FunctionType(f.__code__, g, f.__name__, f.__defaults__, f.__closure__)
        nf.__kwdefaults__ = f.__kwdefaults__
        g[f.__name__] = nf
        out[f.__name__] = nf
    return out


def _nanarg(a, axis, better):
    """contract of np.nanargmax/nanargmin on a 2-D array along axis=1 (or 1-D):
    index of the first occurrence of the extreme value among the non-NaN
    entries; ValueError for an all-NaN slice"""
    a = _np.asarray(a, dtype=object)
    if a.ndim == 1:
        rows = [a]
    else:
        if axis not in (1, -1):
            a = a.T
        rows = list(a)
    out = []
    for row in rows:
        best = None
        for j, v in enumerate(row):
            isn = NPProxy.isnan(None, v) if S.is_sym(v) else (v != v)
            if isn:
                continue
            if best is None or better(v, row[best]):
                best = j
        if best is None:
            raise ValueError("All-NaN slice encountered")
        out.append(best)
    if len(rows) == 1 and _np.asarray(a).ndim == 1:
        return out[0]
    return _np.array(out, dtype=_np.int64)


def _nanargmax(self, a, axis=None):
    if isinstance(a, _np.ndarray) and a.dtype == object:
        return _nanarg(a, axis, lambda v, b: bool(v > b))
    return _np.nanargmax(a, axis=axis)


def _nanargmin(self, a, axis=None):
    if isinstance(a, _np.ndarray) and a.dtype == object:
        return _nanarg(a, axis, lambda v, b: bool(v < b))
    return _np.nanargmin(a, axis=axis)


NPProxy.nanargmax = _nanargmax
NPProxy.nanargmin = _nanargmin
