"""Re-compile a repository function from its current source with a fixed
whitelist of call shapes redirected to symbolic-aware helpers.  Nothing else in
the body is touched; the hits are reported for the evidence."""
import ast
import inspect
import textwrap
import types

import numpy as _np

from . import sym as S

HITS = {}


def _sx_astype(x, *a, **kw):
    if isinstance(x, _np.ndarray) and x.dtype == object and any(S.is_sym(v) for v in x.ravel()):
        return x
    if S.is_sym(x):
        return x
    return x.astype(*a, **kw)


class _T(ast.NodeTransformer):
    def __init__(self, hooks, tag):
        self.hooks, self.tag = hooks, tag

    def _hit(self, name):
        HITS[(self.tag, name)] = HITS.get((self.tag, name), 0) + 1

    def visit_Call(self, node):
        self.generic_visit(node)
        f = node.func
        if "astype" in self.hooks and isinstance(f, ast.Attribute) and f.attr == "astype":
            self._hit("astype")
            return ast.copy_location(ast.Call(func=ast.Name("_sx_astype", ast.Load()), args=[f.value] + node.args, keywords=node.keywords), node)
        if "view" in self.hooks and isinstance(f, ast.Attribute) and f.attr == "view":
            self._hit("view")
            return ast.copy_location(ast.Call(func=ast.Name("_sx_view", ast.Load()), args=[f.value] + node.args, keywords=node.keywords), node)
        if "join" in self.hooks and isinstance(f, ast.Attribute) and f.attr == "join" and len(node.args) == 1 and not node.keywords:
            self._hit("join")
            return ast.copy_location(ast.Call(func=ast.Name("_sx_join", ast.Load()), args=[f.value] + node.args, keywords=[]), node)
        if "format" in self.hooks and isinstance(f, ast.Attribute) and f.attr == "format":
            self._hit("format")
            return ast.copy_location(ast.Call(func=ast.Name("_sx_format", ast.Load()), args=[f.value] + node.args, keywords=node.keywords), node)
        return node

    def visit_JoinedStr(self, node):
        self.generic_visit(node)
        if "fstring" not in self.hooks:
            return node
        self._hit("fstring")
        parts = []
        for v in node.values:
            if isinstance(v, ast.Constant):
                parts.append(v)
            else:   # FormattedValue
                spec = v.format_spec if v.format_spec is not None else ast.Constant("")
                if isinstance(spec, ast.JoinedStr):
                    spec = self.visit_JoinedStr(spec) if any(not isinstance(x, ast.Constant) for x in spec.values) else ast.Constant("".join(x.value for x in spec.values))
                parts.append(ast.Call(func=ast.Name("_sx_fmtval", ast.Load()), args=[v.value, spec, ast.Constant(v.conversion)], keywords=[]))
        return ast.copy_location(ast.Call(func=ast.Name("_sx_fstring", ast.Load()), args=parts, keywords=[]), node)

    def visit_Assign(self, node):
        self.generic_visit(node)
        if "setdtype" in self.hooks and len(node.targets) == 1:
            t = node.targets[0]
            if isinstance(t, ast.Attribute) and t.attr == "dtype" and isinstance(t.value, ast.Name):
                self._hit("setdtype")
                call = ast.Call(func=ast.Name("_sx_setdtype", ast.Load()), args=[ast.Name(t.value.id, ast.Load()), node.value], keywords=[])
                return ast.copy_location(ast.Assign(targets=[ast.Name(t.value.id, ast.Store())], value=call), node)
        return node

    def visit_BinOp(self, node):
        self.generic_visit(node)
        if "mod" in self.hooks and isinstance(node.op, ast.Mod):
            self._hit("mod")
            return ast.copy_location(ast.Call(func=ast.Name("_sx_mod", ast.Load()), args=[node.left, node.right], keywords=[]), node)
        return node


def load(func, hooks=("astype",), extra=None, globs=None):
    """-> function compiled from func's *current source* with hooks applied,
    living in a copy of func's globals (+extra).  Pass `globs` to share one
    globals dict between several loaded functions."""
    src = textwrap.dedent(inspect.getsource(func))
    tree = ast.parse(src)
    tag = "%s.%s" % (func.__module__, func.__qualname__)
    tree = _T(set(hooks), tag).visit(tree)
    ast.fix_missing_locations(tree)
    g = globs if globs is not None else dict(func.__globals__)
    g.setdefault("_sx_astype", _sx_astype)
    if extra:
        g.update(extra)
    code = compile(tree, "<vsym:%s>" % tag, "exec")
    ns = {}
    exec(code, g, ns)
    nf = ns[func.__name__]
    g[func.__name__] = nf
    return nf
