import argparse
import importlib
import json
import os
import sys
import time

from . import harness


def main():
    ap = argparse.ArgumentParser()
    ap.add_argument("pid")
    ap.add_argument("--tier", default=os.environ.get("VERIF_TIER", "quick"))
    ap.add_argument("--seed", type=int, default=int(os.environ.get("VERIF_SEED", "0")))
    ap.add_argument("--replay")
    ap.add_argument("--nproc", type=int, default=None)
    ap.add_argument("--only", default=None, help="substring filter on job names (debugging)")
    a = ap.parse_args()
    sys.path.insert(0, harness.VERIF)
    mod = importlib.import_module("checks.%s" % a.pid.lower())
    if a.replay:
        with open(a.replay) as f:
            body = json.load(f)
        fn = mod.REPLAY[body["kernel"]]
        ok, detail = fn(body["payload"])
        print(("REPRODUCED: " if ok else "not reproduced: ") + detail)
        sys.exit(1 if ok else 0)
    t0 = time.time()
    tier = a.tier if a.tier in ("quick", "thorough") else "quick"
    jobs = mod.jobs(tier, a.seed)
    if a.only:
        jobs = [j for j in jobs if a.only in j.name]
    # a job that outlives its budget is reported as inconclusive (exit 3), never as success
    jt = mod.META.get("job_timeout", {}).get(tier) or (900 if tier == "quick" else 6 * 3600)
    results = harness.run_jobs(jobs, nproc=a.nproc, job_timeout=jt)
    extra = mod.extra_coverage(results) if hasattr(mod, "extra_coverage") else None
    code = harness.finish(mod.PID, tier, a.seed, mod.META, results, t0, extra)
    sys.exit(code)


if __name__ == "__main__":
    main()
