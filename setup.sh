#!/bin/bash
# Idempotent, offline: overlay venv on /venv with the solver wheels.
set -e
V="$(cd "$(dirname "$0")" && pwd)/.venv"
STAMP=$V/.ok
if [ -f "$STAMP" ] && "$V/bin/python" -c "import z3, mpmath, jsonschema" 2>/dev/null; then exit 0; fi
exec 9>/tmp/.verif-setup.lock
flock 9
if [ -f "$STAMP" ] && "$V/bin/python" -c "import z3, mpmath, jsonschema" 2>/dev/null; then exit 0; fi
rm -rf "$V"
/venv/bin/python -m venv "$V"
SP=$("$V/bin/python" -c "import sysconfig; print(sysconfig.get_paths()['purelib'])")
printf '/venv/lib/python3.12/site-packages\n/repo\n' > "$SP/_verif_overlay.pth"
PIP_NO_INDEX=1 "$V/bin/pip" install -q --no-index --find-links /opt/veriftools/wheels \
    z3-solver mpmath jsonschema cvc5 crosshair-tool >/dev/null 2>&1 || \
PIP_NO_INDEX=1 "$V/bin/pip" install -q --no-index --find-links /opt/veriftools/wheels \
    z3-solver mpmath jsonschema
"$V/bin/python" -c "import z3, mpmath, jsonschema, numpy, scipy, pyyeti"
touch "$STAMP"
